"""Shared project-level case format, Rust-source printer, s-expression encoder, random
generators and CLI runner for the project-level properties (C01 C02 C07 C09 C10 C13 ...).

A *project case* is one JSON value:

  {"files": {"src/a.rs": [item, ...], "src/sub/b.rs": [...]},       # relative to the project root
   "config": {"validationLibrary": "none"|"zod", "typeMappings": {..}, "defaultParameterCase": "...",
              "defaultFieldCase": "...", ...}                           # plugins.typegen keys (optional)
  }

  item  = {"kind": "struct", "name": N, "derives": ["Serialize", ...], "serde": [sattr...],
           "fields": [{"name": n, "ty": T, "serde": [sattr...], "validate": [vattr...], "vis": "pub"}], "unit": false}
        | {"kind": "enum", "name": N, "derives": [...], "serde": [sattr...],
           "variants": [{"name": V, "serde": [sattr...]}]}
        | {"kind": "fn", "name": n, "attrs": [["tauri","command"] | ["command"] | ...], "attr_args": "" | "rename_all = \\"snake_case\\"",
           "async": bool, "vis": "pub"|"pub(crate)"|"", "params": [{"name": n, "ty": T}], "ret": T | null,
           "body": [stmt...]}                          # body: list of raw Rust statement strings / emit specs
        | {"kind": "raw", "text": "..."}                # anything else, printed verbatim
  T     = {"k": "path", "segs": ["tauri","ipc"], "name": "Channel", "args": [T...], "lt": false}   # lt: leading '_ lifetime arg
        | {"k": "ref", "t": T} | {"k": "tuple", "ts": [T...]}            # tuple [] = unit
  sattr = {"rename": s} | {"rename_all": s} | {"skip": true} | {"raw": "default"}   # one #[serde(..)] entry each
  vattr = {"length": {"min": 1, "max": 10, "message": "m"}} | {"range": {...}} | {"email": {}} | {"url": {}} | {"raw": "..."}
  stmt  = "raw rust;" | {"emit": name, "recv": "app", "payload": "expr", "to": null|"target-expr"}

The same case is rendered to Rust source (`render_project`) and to the s-expression syntax the
extracted model decodes (`sx_project`, canonical forms documented at each function).
"""
import json
import os
import random

from tools import vlib

# ----------------------------------------------------------------------------- types

PRIMS = ["String", "i8", "i16", "i32", "i64", "i128", "isize", "u8", "u16", "u32", "u64", "u128", "usize",
         "f32", "f64", "bool"]
MAP_KEYS = ["String", "i32", "u64"]      # keys serde_json accepts


def P(name, *args, segs=(), lt=False):
    return {"k": "path", "segs": list(segs), "name": name, "args": list(args), "lt": lt}


def Ref(t):
    return {"k": "ref", "t": t}


def Tup(*ts):
    return {"k": "tuple", "ts": list(ts)}


UNIT = Tup()
STR_REF = Ref(P("str"))


def rust_type(t):
    """Rust surface syntax of a type (what the user writes; syn re-tokenises it anyway)."""
    k = t["k"]
    if k == "ref":
        return "&" + rust_type(t["t"])
    if k == "tuple":
        ts = t["ts"]
        if len(ts) == 1:
            return "(" + rust_type(ts[0]) + ",)"
        return "(" + ", ".join(rust_type(x) for x in ts) + ")"
    args = (["'_"] if t.get("lt") else []) + [rust_type(a) for a in t["args"]]
    s = "::".join(t["segs"] + [t["name"]])
    if args:
        s += "<" + ", ".join(args) + ">"
    return s


def sx_type(t):
    """(path (segs..) name angle (args..)) | (ref t) | (tuple (ts..)); angle = has <...> at all
    (a lone lifetime argument counts: State<'_> would be angle with no type args)."""
    k = t["k"]
    if k == "ref":
        return ["ref", sx_type(t["t"])]
    if k == "tuple":
        return ["tuple", [sx_type(x) for x in t["ts"]]]
    return ["path", list(t["segs"]), t["name"], bool(t["args"] or t.get("lt")), [sx_type(a) for a in t["args"]]]


def type_names(t):
    """Bare last-segment names mentioned by a type, in order."""
    k = t["k"]
    if k == "ref":
        return type_names(t["t"])
    if k == "tuple":
        return [n for x in t["ts"] for n in type_names(x)]
    return [t["name"]] + [n for a in t["args"] for n in type_names(a)]


def type_depth(t):
    k = t["k"]
    if k == "ref":
        return 1 + type_depth(t["t"])
    if k == "tuple":
        return 1 + max([type_depth(x) for x in t["ts"]] or [0])
    return (1 if t["args"] else 0) + max([type_depth(a) for a in t["args"]] or [0])


# constructor contexts: wrap a type t so that it occurs at one structural position
CONTEXTS = {
    "direct": lambda t: t,
    "option": lambda t: P("Option", t),
    "vec": lambda t: P("Vec", t),
    "map_value": lambda t: P("HashMap", P("String"), t),
    "btree_value": lambda t: P("BTreeMap", P("String"), t),
    "set": lambda t: P("HashSet", t),
    "btree_set": lambda t: P("BTreeSet", t),
    "tuple_first": lambda t: Tup(t, P("i32")),
    "tuple_last": lambda t: Tup(P("String"), t),
    "ref": lambda t: Ref(t),
    "result_ok": lambda t: P("Result", t, P("String")),
    "opt_vec": lambda t: P("Option", P("Vec", t)),
    "vec_opt": lambda t: P("Vec", P("Option", t)),
    "map_vec": lambda t: P("HashMap", P("String"), P("Vec", t)),
    "vec_tuple": lambda t: P("Vec", Tup(P("String"), t)),
    "result_map": lambda t: P("Result", P("HashMap", P("String"), t), P("String")),
    "tuple_map": lambda t: Tup(P("HashMap", P("String"), t), P("bool")),
    "opt_opt": lambda t: P("Option", P("Option", t)),
}
# contexts that make sense inside a struct field (no Result there)
FIELD_CONTEXTS = [c for c in CONTEXTS if not c.startswith("result")]


def gen_type(rng, depth, named=(), leaves=None, allow_result=False):
    """Random type over the README table; `named` are project type names usable as leaves."""
    leaves = leaves or (PRIMS + ["&str", "()"])
    if depth <= 0 or rng.random() < 0.3:
        if named and rng.random() < 0.4:
            return P(rng.choice(list(named)))
        l = rng.choice(leaves)
        if l == "&str":
            return STR_REF
        if l == "()":
            return UNIT
        return P(l)
    c = rng.choice(["Option", "Vec", "HashMap", "BTreeMap", "HashSet", "BTreeSet", "tuple", "ref"] +
                   (["Result", "Result1"] if allow_result else []))
    sub = lambda: gen_type(rng, depth - 1, named, leaves, allow_result)
    if c in ("Option", "Vec", "HashSet", "BTreeSet"):
        return P(c, sub())
    if c in ("HashMap", "BTreeMap"):
        return P(c, P(rng.choice(MAP_KEYS)), sub())
    if c == "tuple":
        return Tup(*[sub() for _ in range(rng.randint(2, 4))])
    if c == "ref":
        return Ref(sub())
    if c == "Result":
        return P("Result", sub(), P("String"))
    return P("Result", sub())


# ----------------------------------------------------------------------------- attributes

def rust_str_lit(s):
    out = ['"']
    for ch in s:
        if ch == '"':
            out.append('\\"')
        elif ch == "\\":
            out.append("\\\\")
        elif ch == "\n":
            out.append("\\n")
        elif ch == "\r":
            out.append("\\r")
        elif ch == "\t":
            out.append("\\t")
        else:
            out.append(ch)
    out.append('"')
    return "".join(out)


def render_serde(attrs, indent):
    lines = []
    for a in attrs or []:
        if "rename" in a:
            lines.append('%s#[serde(rename = %s)]' % (indent, rust_str_lit(a["rename"])))
        elif "rename_all" in a:
            lines.append('%s#[serde(rename_all = %s)]' % (indent, rust_str_lit(a["rename_all"])))
        elif a.get("skip"):
            lines.append('%s#[serde(skip)]' % indent)
        elif "raw" in a:
            lines.append('%s#[serde(%s)]' % (indent, a["raw"]))
    return lines


def num_lit(v):
    return v if isinstance(v, str) else repr(v)


def render_validate(attrs, indent):
    lines = []
    for a in attrs or []:
        if "raw" in a:
            lines.append('%s#[validate(%s)]' % (indent, a["raw"]))
            continue
        (kind, spec), = a.items()
        parts = []
        for key in ("min", "max"):
            if spec.get(key) is not None:
                parts.append("%s = %s" % (key, num_lit(spec[key])))
        if spec.get("message") is not None:
            parts.append("message = %s" % rust_str_lit(spec["message"]))
        lines.append('%s#[validate(%s%s)]' % (indent, kind, "(" + ", ".join(parts) + ")" if parts else ""))
    return lines


def sx_serde(attrs):
    out = []
    for a in attrs or []:
        if "rename" in a:
            out.append(["rename", a["rename"]])
        elif "rename_all" in a:
            out.append(["rename_all", a["rename_all"]])
        elif a.get("skip"):
            out.append(["skip"])
        else:
            out.append(["raw", a.get("raw", "")])
    return out


# ----------------------------------------------------------------------------- items

def render_stmt(s):
    if isinstance(s, str):
        return s
    recv = s.get("recv", "app")
    if s.get("to") is not None:
        return '%s.emit_to(%s, %s, %s).unwrap();' % (recv, s["to"], rust_str_lit(s["emit"]), s.get("payload", "()"))
    return '%s.emit(%s, %s).unwrap();' % (recv, rust_str_lit(s["emit"]), s.get("payload", "()"))


def render_item(it):
    k = it["kind"]
    if k == "raw":
        return it["text"]
    lines = []
    if k in ("struct", "enum"):
        if it.get("derives"):
            lines.append("#[derive(%s)]" % ", ".join(it["derives"]))
        lines += render_serde(it.get("serde"), "")
        if k == "struct":
            if it.get("unit"):
                lines.append("pub struct %s;" % it["name"])
            else:
                lines.append("pub struct %s {" % it["name"])
                for f in it["fields"]:
                    lines += render_serde(f.get("serde"), "    ")
                    lines += render_validate(f.get("validate"), "    ")
                    vis = f.get("vis", "pub")
                    lines.append("    %s%s: %s," % (vis + " " if vis else "", f["name"], rust_type(f["ty"])))
                lines.append("}")
        else:
            lines.append("pub enum %s {" % it["name"])
            for v in it["variants"]:
                lines += render_serde(v.get("serde"), "    ")
                lines.append("    %s," % v["name"])
            lines.append("}")
        return "\n".join(lines)
    if k == "fn":
        for a in it.get("attrs", []):
            if isinstance(a, str):
                lines.append("#[%s]" % a)
            else:
                args = it.get("attr_args") if a[-1] == "command" else None
                lines.append("#[%s%s]" % ("::".join(a), "(%s)" % args if args else ""))
        vis = it.get("vis", "pub")
        sig = "%s%sfn %s(%s)" % (vis + " " if vis else "", "async " if it.get("async") else "", it["name"],
                                 ", ".join("%s: %s" % (p["name"], rust_type(p["ty"])) for p in it.get("params", [])))
        if it.get("ret") is not None:
            sig += " -> " + rust_type(it["ret"])
        body = [render_stmt(s) for s in it.get("body", [])]
        lines.append(sig + " {")
        lines += ["    " + b for b in body]
        lines.append("    todo!()")
        lines.append("}")
        return "\n".join(lines)
    raise ValueError(k)


HEADER = "use serde::{Deserialize, Serialize};\nuse std::collections::*;\n"


def render_file(items):
    return HEADER + "\n" + "\n\n".join(render_item(i) for i in items) + "\n"


def render_project(case):
    """{relative path: Rust source text}"""
    return {rel: render_file(items) for rel, items in case["files"].items()}


def sx_item(it):
    """(struct name (derives..) (serde..) unit ((fname ty (serde..) (validate-raw..)) ..))
       (enum name (derives..) (serde..) ((vname (serde..)) ..))
       (fn name ((attr path..) ..) attr_args async ((pname ty) ..) (ret)?-as-option body-emits)
       (raw)"""
    k = it["kind"]
    if k == "struct":
        return ["struct", it["name"], list(it.get("derives", [])), sx_serde(it.get("serde")), bool(it.get("unit")),
                [[f["name"], sx_type(f["ty"]), sx_serde(f.get("serde")),
                  [json.dumps(v, sort_keys=True) for v in f.get("validate", [])]] for f in it.get("fields", [])]]
    if k == "enum":
        return ["enum", it["name"], list(it.get("derives", [])), sx_serde(it.get("serde")),
                [[v["name"], sx_serde(v.get("serde"))] for v in it["variants"]]]
    if k == "fn":
        emits = [[s["emit"], s.get("recv", "app"), s.get("payload", "()")] for s in it.get("body", []) if isinstance(s, dict)]
        return ["fn", it["name"], [a.split("::") if isinstance(a, str) else list(a) for a in it.get("attrs", [])],
                it.get("attr_args") or "", bool(it.get("async")),
                [[p["name"], sx_type(p["ty"])] for p in it.get("params", [])],
                [sx_type(it["ret"])] if it.get("ret") is not None else [], emits]
    return ["raw"]


def sx_project(case, file_order=None):
    """((path (items..)) ..) in the given file order (default: sorted paths)."""
    order = file_order or sorted(case["files"])
    return [[rel, [sx_item(i) for i in case["files"][rel]]] for rel in order]


# ----------------------------------------------------------------------------- running the real tool

GENERATED = ("types.ts", "commands.ts", "events.ts", "index.ts")


def write_project(sb, case, under="proj"):
    """Write the case below <sandbox>/<under>/ (sources) and, when the case has a config, a
    tauri.conf.json next to it (sandbox root = working directory of the CLI)."""
    sb.write_files(render_project(case), under=under)
    if case.get("config"):
        sb.write("tauri.conf.json", json.dumps({"plugins": {"typegen": case["config"]}}, indent=1))


def generate(sb, case, mode=None, out="out", under="proj", extra=(), force=True, write=True):
    """Run `generate -p <under> -o <out> [-v mode] [--force]` in the sandbox.
    Returns {"status": int, "log": str, "files": {name: text}} (timestamp line normalised)."""
    if write:
        write_project(sb, case, under)
    args = ["generate", "-p", under, "-o", out]
    if mode:
        args += ["-v", mode]
    if force:
        args.append("--force")
    args += list(extra)
    status, log = sb.cli(args)
    files = {}
    od = sb.path(out)
    if os.path.isdir(od):
        for n in sorted(os.listdir(od)):
            p = os.path.join(od, n)
            if os.path.isfile(p):
                files[n] = vlib.strip_generated_at(open(p, "rb").read()).decode("utf-8", "replace")
    return {"status": status, "log": log, "files": files}


# ----------------------------------------------------------------------------- random projects

SERDE_DERIVES = [["Serialize", "Deserialize"], ["Debug", "Clone", "Serialize", "Deserialize"], ["Serialize"], ["Deserialize"]]
RENAME_ALL = ["lowercase", "UPPERCASE", "PascalCase", "camelCase", "snake_case", "SCREAMING_SNAKE_CASE", "kebab-case",
              "SCREAMING-KEBAB-CASE"]
FIELD_NAMES = ["id", "name", "user_id", "created_at", "value", "items", "is_active", "x1", "http_code", "a", "data_2d"]
TYPE_NAMES = ["User", "Profile", "Settings", "Item", "Order", "Address", "Status", "Kind", "Report", "Node", "Leaf", "Meta"]
FN_NAMES = ["get_user", "save", "list_items", "do_it", "fetch_all", "update_profile", "ping", "compute_2x", "load", "sync_now"]


def gen_graph_project(rng, ntypes=5, nfiles=3, ncmds=3, p_edge=0.35, acyclic=True, contexts=None, enums=True,
                      decoys=True, events=False, channel=False):
    """A project built around a random type dependency graph. Types T0..Tn-1 (names from
    TYPE_NAMES); edge i->j realised as a field of Ti whose type mentions Tj through a random
    constructor context; commands mention some root types in parameters / returns.
    Returns (case, meta) where meta records the intended graph, roots, contexts and decoys."""
    contexts = contexts or FIELD_CONTEXTS
    names = rng.sample(TYPE_NAMES, ntypes)
    is_enum = [enums and rng.random() < 0.2 for _ in names]
    edges = {}
    for i in range(ntypes):
        if is_enum[i]:
            continue
        for j in range(ntypes):
            if i == j and acyclic:
                continue
            if acyclic and j <= i:
                continue
            if rng.random() < p_edge:
                edges[(i, j)] = rng.choice(contexts)
    files = ["src/lib.rs"] + ["src/m%d.rs" % k for k in range(1, nfiles)]
    if nfiles > 2 and rng.random() < 0.5:
        files[-1] = "src/sub/deep/m%d.rs" % (nfiles - 1)
    place = {}
    items = {f: [] for f in files}
    for i, n in enumerate(names):
        f = rng.choice(files)
        place[n] = f
        if is_enum[i]:
            items[f].append({"kind": "enum", "name": n, "derives": rng.choice(SERDE_DERIVES[:2]), "serde": [],
                             "variants": [{"name": v, "serde": []} for v in rng.sample(["Active", "Inactive", "InProgress", "Done", "A"], rng.randint(1, 3))]})
            continue
        fields = []
        fnames = rng.sample(FIELD_NAMES, min(len(FIELD_NAMES), 1 + sum(1 for (a, b) in edges if a == i) + rng.randint(0, 2)))
        k = 0
        for (a, b), ctx in sorted(edges.items()):
            if a == i:
                fields.append({"name": fnames[k], "ty": CONTEXTS[ctx](P(names[b])), "serde": [], "validate": []})
                k += 1
        while k < len(fnames):
            fields.append({"name": fnames[k], "ty": gen_type(rng, 1), "serde": [], "validate": []})
            k += 1
        rng.shuffle(fields)
        items[f].append({"kind": "struct", "name": n, "derives": rng.choice(SERDE_DERIVES[:2]), "serde": [], "fields": fields})
    roots = {}
    cmds = rng.sample(FN_NAMES, ncmds)
    for c in cmds:
        f = rng.choice(files)
        params, ret = [], None
        for _ in range(rng.randint(0, 2)):
            j = rng.randrange(ntypes)
            ctx = rng.choice(["direct", "option", "vec", "map_value", "tuple_last"])
            params.append({"name": rng.choice(["arg", "input", "req_data", "p1", "the_value"]) + str(len(params)),
                           "ty": CONTEXTS[ctx](P(names[j]))})
            roots[j] = ("param", c, ctx)
        if rng.random() < 0.7:
            j = rng.randrange(ntypes)
            ctx = rng.choice(["direct", "option", "vec", "result_ok", "result_ok"])
            ret = CONTEXTS[ctx](P(names[j]))
            roots[j] = ("ret", c, ctx)
        if channel and rng.random() < 0.4:
            j = rng.randrange(ntypes)
            params.append({"name": "on_event", "ty": P("Channel", P(names[j]))})
            roots[j] = ("channel", c, "direct")
        if rng.random() < 0.3:
            params.insert(0, {"name": "app", "ty": P("AppHandle", segs=["tauri"])})
        body = []
        if events and rng.random() < 0.5:
            j = rng.randrange(ntypes)
            if not is_enum[j]:
                params.append({"name": "evt_payload", "ty": P(names[j])})
                if not any(p["name"] == "app" for p in params):
                    params.insert(0, {"name": "app", "ty": P("AppHandle", segs=["tauri"])})
                body.append({"emit": rng.choice(["user-updated", "progress", "item_added"]), "recv": "app", "payload": "evt_payload"})
                roots[j] = ("event", c, "direct")
        items[f].append({"kind": "fn", "name": c, "attrs": [rng.choice([["tauri", "command"], ["command"]])],
                         "async": rng.random() < 0.5, "vis": "pub", "params": params, "ret": ret, "body": body})
    decoy_names = []
    if decoys:
        for n in rng.sample([x for x in ["Hidden", "Internal", "Scratch", "PlainData"] if x not in names], 2):
            f = rng.choice(files)
            derives = rng.choice([["Debug", "Clone"], ["Serialize", "Deserialize"], []])
            items[f].append({"kind": "struct", "name": n, "derives": derives, "serde": [],
                             "fields": [{"name": "v", "ty": P("i32"), "serde": [], "validate": []}]})
            decoy_names.append(n)
        items[rng.choice(files)].append({"kind": "raw", "text": "fn helper_fn(x: i32) -> i32 { x + 1 }"})
    if not any(any(i["kind"] == "fn" for i in its) for its in items.values()):
        raise AssertionError
    case = {"files": {f: its for f, its in items.items()}, "config": {}}
    meta = {"names": names, "is_enum": is_enum, "edges": {"%d->%d" % k: v for k, v in edges.items()},
            "roots": {names[j]: v for j, v in roots.items()}, "place": place, "decoys": decoy_names}
    return case, meta


def reachable(meta):
    """Names reachable from the roots through the intended edges (ground truth of the generator)."""
    names = meta["names"]
    adj = {}
    for k in meta["edges"]:
        a, b = k.split("->")
        adj.setdefault(names[int(a)], []).append(names[int(b)])
    seen, todo = set(), list(meta["roots"])
    while todo:
        n = todo.pop()
        if n in seen:
            continue
        seen.add(n)
        todo += adj.get(n, [])
    return seen


if __name__ == "__main__":
    import sys
    rng = random.Random(int(sys.argv[1]) if len(sys.argv) > 1 else 0)
    case, meta = gen_graph_project(rng, events=True, channel=True)
    for rel, txt in render_project(case).items():
        print("//", rel)
        print(txt)
    print(json.dumps(meta, indent=1))
    vlib.build_repo_bin()
    with vlib.Sandbox("projgen") as sb:
        for mode in ("none", "zod"):
            r = generate(sb, case, mode, out="out-" + mode)
            print(mode, r["status"], sorted(r["files"]))
            print(r["files"].get("types.ts", r["log"])[:1500])
