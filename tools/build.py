"""Serialised builds (file locks):
  python3 -m tools.build coq [make targets...]   e.g. coq Properties/C05.vo
  python3 -m tools.build harness <id>            harness/src/bin/<id>.rs -> build/target/release/<id>
  python3 -m tools.build runner <id>             coq/Extract/ExC<NN>.v + runner/cmds_<id>.ml -> build/runner/<id>/tt-runner
  python3 -m tools.build bin                     the real CLI binary from /repo -> build/target-repo/release/cargo-tauri-typegen"""
import sys
from tools import vlib

def setup():
    """MANIFEST.setup_cmd: warm every cache the claimed checks use (Coq .vo files of
    each claimed property, extraction, runners, Rust drivers, the real binary).
    The checks rebuild on demand anyway, so a failure here is reported and the
    remaining parts are still built."""
    import json, os
    from concurrent.futures import ThreadPoolExecutor
    man = json.load(open(os.path.join(vlib.VERIF, "MANIFEST.json")))
    pids = sorted({c["property_id"] for c in man["checks"]})
    failures = []

    def rust():
        try:
            vlib.build_repo_bin()
        except vlib.BuildError as e:
            failures.append("bin: %s" % e)
        for pid in pids:
            if os.path.exists(os.path.join(vlib.VERIF, "harness", "src", "bin", pid.lower() + ".rs")):
                try:
                    vlib.build_harness(pid)
                except vlib.BuildError as e:
                    failures.append("harness %s: %s" % (pid, e))

    def coq():
        targets = []
        for pid in pids:
            targets.append("Properties/%s.vo" % pid)
            if os.path.exists(os.path.join(vlib.COQ, "Extract", "Ex%s.v" % pid)):
                targets.append("Extract/Ex%s.vo" % pid)
        rc, out = vlib.coq_make(["-k"] + targets)
        if rc != 0:
            failures.append("coq: " + out[-3000:])
        for pid in pids:
            if os.path.exists(os.path.join(vlib.VERIF, "runner", "cmds_%s.ml" % pid.lower())):
                try:
                    vlib.build_runner(pid)
                except vlib.BuildError as e:
                    failures.append("runner %s: %s" % (pid, e))

    with ThreadPoolExecutor(2) as ex:
        list(ex.map(lambda f: f(), [rust, coq]))
    for f in failures:
        print("SETUP-PROBLEM:", f)
    print("setup-ok" if not failures else "setup-done-with-problems")


def main():
    what = sys.argv[1] if len(sys.argv) > 1 else "all"
    if what in ("coq",):
        rc, out = vlib.coq_make(sys.argv[2:] or None)
        print(out[-6000:])
        sys.exit(rc)
    arg = sys.argv[2] if len(sys.argv) > 2 else None
    if what == "harness":
        vlib.build_harness(arg)
    elif what == "runner":
        vlib.build_runner(arg)
    elif what == "bin":
        vlib.build_repo_bin()
    elif what == "setup":
        setup()
    else:
        print(__doc__)
        sys.exit(2)

if __name__ == "__main__":
    try:
        main()
    except vlib.BuildError as e:
        print(e)
        sys.exit(1)
