"""Serialised builds (file locks): python3 -m tools.build coq [make targets...] | harness | runner | bin | all"""
import sys
from tools import vlib

def main():
    what = sys.argv[1] if len(sys.argv) > 1 else "all"
    if what in ("coq",):
        rc, out = vlib.coq_make(sys.argv[2:] or None)
        print(out[-6000:])
        sys.exit(rc)
    if what in ("harness", "all"):
        vlib.build_harness()
    if what in ("runner", "all"):
        vlib.build_runner()
    if what in ("bin", "all"):
        vlib.build_repo_bin()
    if what == "all":
        rc, out = vlib.coq_make(None)
        print(out[-3000:])
        sys.exit(rc)

if __name__ == "__main__":
    try:
        main()
    except vlib.BuildError as e:
        print(e)
        sys.exit(1)
