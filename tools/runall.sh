#!/bin/sh
# run the quick (or $TIER) check of the given properties one after another; one summary line each
cd "$(dirname "$0")/.."
for id in "$@"; do
  s=$(date +%s)
  out=$(./check $id --tier ${TIER:-quick} 2>build/runall-$id.err); rc=$?
  e=$(date +%s)
  nv=$(printf '%s\n' "$out" | grep -c '^VIOLATION')
  nk=$(printf '%s\n' "$out" | grep -c '^KNOWN-FINDING')
  echo "$id rc=$rc wall=$((e-s))s violations=$nv known=$nk"
  printf '%s\n' "$out" | grep '^VIOLATION' | head -3
done
