#!/bin/sh
# one line per property: which parts exist
cd "$(dirname "$0")/.."
for i in 01 02 03 04 05 06 07 08 09 10 11 12 13 14 15 16 17 18 19 20; do
  id=C$i; lid=c$i
  p=-; [ -f coq/Properties/$id.v ] && p=P; [ -f coq/Properties/$id.vo ] && p=Pvo
  e=-; [ -f coq/Extract/Ex$id.v ] && e=E
  r=-; [ -f runner/cmds_$lid.ml ] && r=R
  h=-; [ -f harness/src/bin/$lid.rs ] && h=H
  m=-; [ -f tools/props/$lid.py ] && m=M; grep -q "^MANIFEST" tools/props/$lid.py 2>/dev/null && m=Mman
  k=-; [ -f known_findings/$id.json ] && k=K$(python3 -c "import json;print(len(json.load(open('known_findings/$id.json'))))" 2>/dev/null)
  n=-; [ -f notes/$id.md ] && n=N
  ev=-; [ -f evidence/$id.json ] && ev=ev:$(python3 -c "import json;e=json.load(open('evidence/$id.json'));print(e['coverage'].get('obligations'),e['coverage'].get('discharged'),e['violations'],e['wall_s'])" 2>/dev/null | tr ' ' '/')
  echo "$id $p $e $r $h $m $k $n $ev"
done
