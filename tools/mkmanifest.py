"""Regenerate MANIFEST.json and known_findings.json (the merged, human-readable
view of known_findings/<ID>.json) from the per-property modules.

A property is claimed iff tools/props/<id>.py defines a literal dict
    MANIFEST = {"level_text": ..., "level_note": ..., "technique": ..., "design_ref": ...}
and tools/props/<id>.py, coq/Properties/<ID>.v exist. Everything else goes under
not_applicable with the reason given in tools/props/not_claimed.json (or a default).
Usage: python3 -m tools.mkmanifest
"""
import ast
import json
import os

from tools import vlib

V = vlib.VERIF
ALL = ["C%02d" % i for i in range(1, 21)]


def module_manifest(pid):
    p = os.path.join(V, "tools", "props", pid.lower() + ".py")
    if not os.path.exists(p):
        return None
    tree = ast.parse(open(p).read())
    for node in tree.body:
        if isinstance(node, ast.Assign) and any(isinstance(t, ast.Name) and t.id == "MANIFEST" for t in node.targets):
            return ast.literal_eval(node.value)
    return None


def main():
    reasons = {}
    rp = os.path.join(V, "tools", "props", "not_claimed.json")
    if os.path.exists(rp):
        reasons = json.load(open(rp))
    # properties whose worker has finished and whose quick check was seen passing on the unchanged tree
    ready = set(json.load(open(os.path.join(V, "tools", "props", "ready.json"))))
    checks, na, served = [], [], []
    for pid in ALL:
        m = module_manifest(pid)
        if pid in ready and m and os.path.exists(os.path.join(V, "coq", "Properties", pid + ".v")):
            served.append(pid)
            checks.append({
                "property_id": pid,
                "quick_cmd": "./check %s --tier quick" % pid,
                "thorough_cmd": "./check %s --tier thorough" % pid,
                "evidence_file": "/verif/evidence/%s.json" % pid,
                "replay_cmd_template": "./check %s --replay {path}" % pid,
                "engine": "coq-model+correspondence",
                "level_claimed": {"category": "proof", "text": m["level_text"],
                                  "design_ref": m.get("design_ref", "DESIGN.md section 5 " + pid)},
                "level_note": m["level_note"],
                "technique": m.get("technique", "Rocq/Coq proof over hand-written model + correspondence check (extracted OCaml vs Rust harness)"),
            })
        else:
            na.append({"property_id": pid, "reason": reasons.get(pid, "check not finished: model/proofs exist only as unwired Coq files; no verdict is claimed")})
    man = {
        "version": 1,
        "setup_cmd": "./setup.sh",
        "hooks": {
            "guard": vlib.GUARD,
            "enable": "RUSTFLAGS=\"--cfg %s\" (no hook exists in /repo; every observation uses public API)" % vlib.GUARD,
            "baseline_off_cmd": "cd /repo && cargo test --workspace --no-fail-fast --offline",
            "source_commits": [],
            "add_only": True,
        },
        "engines": [{
            "name": "coq-model+correspondence",
            "path": "/verif/coq, /verif/runner, /verif/harness, /verif/tools",
            "serves_properties": served,
            "kind_free_text": "Coq 8.16 theorems about a hand-written executable model; extracted OCaml runner and Rust harness compare model and implementation on generated cases",
        }],
        "checks": checks,
        "notes": "See DESIGN.md. ./check <ID> --tier quick|thorough [--replay file]. Known findings: known_findings/<ID>.json (merged view: known_findings.json).",
        "not_applicable": na,
    }
    hooks_file = os.path.join(V, "tools", "props", "hooks.json")
    if os.path.exists(hooks_file):
        man["hooks"].update(json.load(open(hooks_file)))
    with open(os.path.join(V, "MANIFEST.json"), "w") as f:
        json.dump(man, f, indent=1)
    merged = []
    d = os.path.join(V, "known_findings")
    for n in sorted(os.listdir(d)) if os.path.isdir(d) else []:
        if n.endswith(".json"):
            merged += json.load(open(os.path.join(d, n)))
    with open(os.path.join(V, "known_findings.json"), "w") as f:
        json.dump(merged, f, indent=1)
    try:
        import jsonschema
        jsonschema.validate(man, json.load(open("/root/.vp/MANIFEST.schema.json")))
        print("MANIFEST.json valid: claimed", served)
    except ImportError:
        print("MANIFEST.json written (jsonschema not available to validate): claimed", served)


if __name__ == "__main__":
    main()
