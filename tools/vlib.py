"""Shared machinery of the checks: builds, Coq audit, harness/runner drivers,
s-expressions, the decision procedure of DESIGN.md section 2.5, evidence and replay files."""
import fcntl
import hashlib
import json
import os
import re
import subprocess
import sys
import time
from concurrent.futures import ThreadPoolExecutor

VERIF = os.path.dirname(os.path.dirname(os.path.abspath(__file__)))
REPO = os.environ.get("VERIF_REPO", "/repo")
BUILD = os.path.join(VERIF, "build")
# VERIF_REPO=<scratch copy of /repo> runs every check against that copy instead
# (mutant self-tests, possibly several at once): all Rust build products, evidence
# and replay files then live under build/alt-<tag>/ and /repo is not touched.
ALT = os.path.realpath(REPO) != "/repo"
ALT_DIR = os.path.join(BUILD, "alt-" + hashlib.sha1(os.path.realpath(REPO).encode()).hexdigest()[:8]) if ALT else None
RUST_OUT = ALT_DIR if ALT else BUILD          # where target/ and target-repo/ live
OUT_DIR = ALT_DIR if ALT else VERIF           # where evidence/ and replays/ are written
COQ = os.path.join(VERIF, "coq")
REPO_BIN = os.path.join(RUST_OUT, "target-repo", "release", "cargo-tauri-typegen")
NCPU = os.cpu_count() or 4
GUARD = "tauri_typegen_verif"

ENV = dict(os.environ)
ENV.update({"CARGO_NET_OFFLINE": "true", "GOPROXY": "off", "PIP_NO_INDEX": "1"})

ALLOWED_AXIOMS = set()  # target: none; names added here must be stdlib axioms listed in DESIGN.md section 4


def log(*a):
    print(*a, file=sys.stderr, flush=True)


class Lock:
    def __init__(self, name):
        base = ALT_DIR if (ALT and name.startswith("cargo")) else BUILD
        os.makedirs(base, exist_ok=True)
        self.path = os.path.join(base, "." + name + ".lock")

    def __enter__(self):
        self.f = open(self.path, "w")
        fcntl.flock(self.f, fcntl.LOCK_EX)
        return self

    def __exit__(self, *a):
        fcntl.flock(self.f, fcntl.LOCK_UN)
        self.f.close()


def sh(cmd, cwd=None, timeout=1800, env=None, check=True, input=None):
    r = subprocess.run(cmd, cwd=cwd, timeout=timeout, env=env or ENV, input=input,
                       stdout=subprocess.PIPE, stderr=subprocess.STDOUT, text=True,
                       shell=isinstance(cmd, str))
    if check and r.returncode != 0:
        raise BuildError("command failed (%s): %s\n%s" % (r.returncode, cmd, r.stdout[-4000:]))
    return r


class BuildError(Exception):
    pass


# ---------------------------------------------------------------- Coq side

FORBIDDEN = [
    r"\bAdmitted\b", r"\badmit\b", r"\bAxiom\b", r"\bAxioms\b", r"\bParameter\b", r"\bParameters\b",
    r"\bConjecture\b", r"\bConjectures\b", r"Admit Obligations", r"Unset Guard Checking", r"bypass_check",
    r"Unset Positivity Checking", r"Unset Universe Checking", r"type-in-type", r"impredicative-set",
    r"\bgive_up\b", r"native_compute",
]


def strip_coq_comments(s):
    out = []
    depth = 0
    i = 0
    while i < len(s):
        if s.startswith("(*", i):
            depth += 1
            i += 2
        elif s.startswith("*)", i) and depth > 0:
            depth -= 1
            i += 2
        else:
            if depth == 0:
                out.append(s[i])
            i += 1
    return "".join(out)


def audit_coq():
    """Textual audit of the whole development (comments stripped)."""
    problems = []
    files = []
    for root, _, names in os.walk(COQ):
        for n in names:
            if n.endswith(".v"):
                files.append(os.path.join(root, n))
    for f in sorted(files):
        src = strip_coq_comments(open(f).read())
        for pat in FORBIDDEN:
            for m in re.finditer(pat, src):
                problems.append("%s: forbidden %r" % (os.path.relpath(f, VERIF), m.group(0)))
        # Variable / Hypothesis / Context outside a Section
        depth = 0
        for line in src.splitlines():
            t = line.strip()
            if re.match(r"(Section|Module)\s+\w+", t) and not t.startswith("Module Type"):
                if t.startswith("Section"):
                    depth += 1
            elif re.match(r"End\s+\w+\s*\.", t) and depth > 0:
                depth -= 1
            elif re.match(r"(Variable|Variables|Hypothesis|Hypotheses|Context)\b", t) and depth == 0:
                problems.append("%s: %s outside a Section" % (os.path.relpath(f, VERIF), t.split()[0]))
    for f in ("_CoqProject",):
        txt = open(os.path.join(COQ, f)).read()
        for pat in ("type-in-type", "impredicative-set", "-vos", "-vok"):
            if pat in txt:
                problems.append("_CoqProject: forbidden flag %s" % pat)
    return problems, len(files)


def coq_make(targets=None, timeout=3000):
    """Full .vo build of the requested targets (all when None). Only the (re)generation
    of the Makefile is serialised; independent `make` runs may overlap (each property's
    targets are its own files plus shared, already-compiled libraries). A transient
    failure caused by two runs compiling the same shared file at once is retried once."""
    with Lock("coq-makefile"):
        if not os.path.exists(os.path.join(COQ, "Makefile")) or \
                os.path.getmtime(os.path.join(COQ, "Makefile")) < newest_v_listing():
            vs = sorted(os.path.relpath(os.path.join(r, n), COQ)
                        for r, _, ns in os.walk(COQ) for n in ns if n.endswith(".v"))
            sh(["coq_makefile", "-f", "_CoqProject"] + vs + ["-o", "Makefile"], cwd=COQ)
    cmd = ["make", "-j%d" % NCPU] + (targets or [])
    for attempt in (0, 1):
        r = sh(["timeout", str(timeout)] + cmd, cwd=COQ, timeout=timeout + 60, check=False)
        transient = any(s in r.stdout for s in ("bad magic number", "is corrupted", "inconsistent assumptions",
                                                "End_of_file", "No such file or directory", "truncated"))
        if r.returncode == 0 or not transient:
            break
        time.sleep(3)
    return r.returncode, r.stdout


def newest_v_listing():
    """mtime that changes when the set of .v files changes (directory mtimes)."""
    m = 0
    for r, _, _ in os.walk(COQ):
        m = max(m, os.path.getmtime(r))
    m = max(m, os.path.getmtime(os.path.join(COQ, "_CoqProject")))
    return m


def property_theorems(pid):
    src = strip_coq_comments(open(os.path.join(COQ, "Properties", pid + ".v")).read())
    thms = re.findall(r"^\s*(?:Theorem|Corollary|Lemma)\s+(\w+)", src, re.M)
    printed = re.findall(r"^\s*Print Assumptions\s+(\w+)\s*\.", src, re.M)
    examples = re.findall(r"^\s*Example\s+(\w+)", src, re.M)
    return thms, printed, examples


def coq_check_property(pid, timeout=1500):
    """Compile Properties/<pid>.vo and its closure; re-run coqc on the property
    file to capture Print Assumptions. Returns a dict for the evidence."""
    res = {"file": "coq/Properties/%s.v" % pid, "problems": []}
    problems, nfiles = audit_coq()
    res["audited_files"] = nfiles
    res["problems"] += problems
    rc, out = coq_make(["Properties/%s.vo" % pid], timeout=timeout)
    if rc != 0:
        res["problems"].append("make Properties/%s.vo failed:\n%s" % (pid, out[-3000:]))
        res["theorems"] = []
        res["obligations"] = len(property_theorems(pid)[0])
        res["discharged"] = 0
        return res
    tmpdir = os.path.join(BUILD, "assum")
    os.makedirs(tmpdir, exist_ok=True)
    r = sh(["timeout", "600", "coqc", "-Q", ".", "TT", "-w", "none", "Properties/%s.v" % pid,
            "-o", os.path.join(tmpdir, pid + ".vo")], cwd=COQ, check=False)
    if r.returncode != 0:
        res["problems"].append("coqc Properties/%s.v failed:\n%s" % (pid, r.stdout[-3000:]))
    thms, printed, examples = property_theorems(pid)
    # split the output into one block per Print Assumptions
    blocks = re.split(r"(?=^Closed under the global context|^Axioms:)", r.stdout, flags=re.M)
    blocks = [b for b in blocks if b.startswith("Closed under") or b.startswith("Axioms:")]
    assum = {}
    for name, b in zip(printed, blocks):
        if b.startswith("Closed under"):
            assum[name] = []
        else:
            names = re.findall(r"^\s*([\w.']+)\s*:", b, re.M)
            assum[name] = names
    if len(blocks) != len(printed):
        res["problems"].append("Print Assumptions output does not match the %d requests" % len(printed))
    discharged = 0
    for t in thms:
        if t not in printed:
            res["problems"].append("theorem %s has no Print Assumptions" % t)
            continue
        bad = [a for a in assum.get(t, ["?"]) if a not in ALLOWED_AXIOMS]
        if bad:
            res["problems"].append("theorem %s depends on axioms %s" % (t, bad))
        else:
            discharged += 1
    res["theorems"] = thms
    res["examples"] = examples
    res["assumptions"] = assum
    res["obligations"] = len(thms)
    res["discharged"] = discharged if r.returncode == 0 else 0
    return res


def coqchk(pid, timeout=1500):
    r = sh(["timeout", str(timeout), "coqchk", "-silent", "-o", "-Q", ".", "TT", "TT.Properties." + pid],
           cwd=COQ, check=False, timeout=timeout + 60)
    ok = r.returncode == 0
    m = re.search(r"\* Axioms:\s*(.*?)(?:\n\s*\n|\Z)", r.stdout, re.S)
    axioms = m.group(1).strip() if m else "?"
    return ok, axioms, r.stdout[-2000:]


# ---------------------------------------------------------------- builds of the implementation side
# Everything is per property: harness/src/bin/<id>.rs -> build/target/release/<id>,
# coq/Extract/ExC<NN>.v -> coq/tt_<id>.ml -> build/runner/<id>/tt-runner.

def harness_bin(pid):
    return os.path.join(RUST_OUT, "target", "release", pid.lower())


def runner_bin(pid):
    return os.path.join(BUILD, "runner", pid.lower(), "tt-runner")


def build_harness(pid=None):
    """Build the Rust driver(s) against the current working tree of REPO
    (cargo fingerprints make this a no-op when nothing changed)."""
    with Lock("cargo-harness"):
        import shutil
        hdir = os.path.join(VERIF, "harness")
        if ALT:
            # private copy of the driver crate whose path dependency points at the scratch tree
            src = hdir
            hdir = os.path.join(ALT_DIR, "harness")
            os.makedirs(os.path.join(hdir, "src", "bin"), exist_ok=True)
            for r, _, ns in os.walk(os.path.join(src, "src")):
                for n in ns:
                    s = os.path.join(r, n)
                    d = os.path.join(hdir, os.path.relpath(s, src))
                    if not os.path.exists(d) or open(s, "rb").read() != open(d, "rb").read():
                        shutil.copy(s, d)
            toml = open(os.path.join(src, "Cargo.toml")).read().replace('path = "/repo"', 'path = "%s"' % os.path.realpath(REPO))
            if not os.path.exists(os.path.join(hdir, "Cargo.toml")) or open(os.path.join(hdir, "Cargo.toml")).read() != toml:
                open(os.path.join(hdir, "Cargo.toml"), "w").write(toml)
        lock_src = os.path.join(REPO, "Cargo.lock")
        lock_dst = os.path.join(hdir, "Cargo.lock")
        if not os.path.exists(lock_dst):
            shutil.copy(lock_src, lock_dst)
        env = dict(ENV)
        env["CARGO_TARGET_DIR"] = os.path.join(RUST_OUT, "target")
        cmd = ["cargo", "build", "--release", "--offline"]
        if pid:
            cmd += ["--bin", pid.lower()]
        else:
            cmd += ["--bins"]
        r = sh(cmd, cwd=hdir, env=env, check=False, timeout=3000)
        if r.returncode != 0:
            raise BuildError("harness build failed against %s (does the tree compile?)\n%s" % (REPO, r.stdout[-4000:]))


def build_repo_bin():
    with Lock("cargo-repo"):
        env = dict(ENV)
        env["RUSTFLAGS"] = "--cfg " + GUARD
        r = sh(["cargo", "build", "--release", "--offline", "--manifest-path", os.path.join(REPO, "Cargo.toml"),
                "--bin", "cargo-tauri-typegen", "--target-dir", os.path.join(RUST_OUT, "target-repo")],
               env=env, check=False, timeout=3000)
        if r.returncode != 0:
            raise BuildError("binary build failed\n%s" % r.stdout[-4000:])


def build_runner(pid):
    pid = pid.lower()
    rc, out = coq_make(["Extract/Ex%s.vo" % pid.upper()])
    if rc != 0:
        raise BuildError("extraction failed\n" + out[-3000:])
    with Lock("runner-" + pid):
        ml = os.path.join(COQ, "tt_%s.ml" % pid)
        if not os.path.exists(ml):
            # .vo is up to date but the extracted file is gone (fresh clone of build products)
            os.remove(os.path.join(COQ, "Extract", "Ex%s.vo" % pid.upper()))
            rc, out = coq_make(["Extract/Ex%s.vo" % pid.upper()])
            if rc != 0 or not os.path.exists(ml):
                raise BuildError("extraction failed\n" + out[-3000:])
        src = [ml] + [os.path.join(VERIF, "runner", f) for f in
                      ("sexp.ml", "glue.ml", "registry.ml", "main.ml", "cmds_%s.ml" % pid, "build.sh")]
        rb = runner_bin(pid)
        if os.path.exists(rb) and all(os.path.getmtime(s) <= os.path.getmtime(rb) for s in src):
            return
        sh([os.path.join(VERIF, "runner", "build.sh"), pid], timeout=1200)


# ---------------------------------------------------------------- sandboxes for runs of the real binary

class Sandbox:
    """Scratch directory under build/sandbox/ (never under /tmp, /repo or the
    source tree of /verif); removed on exit. Helpers to write a project, run the
    real CLI binary in it and snapshot directory contents."""

    def __init__(self, tag):
        import tempfile
        base = os.path.join(BUILD, "sandbox")
        os.makedirs(base, exist_ok=True)
        self.root = tempfile.mkdtemp(prefix=tag + "-", dir=base)

    def __enter__(self):
        return self

    def __exit__(self, *a):
        import shutil
        shutil.rmtree(self.root, ignore_errors=True)

    def path(self, *rel):
        return os.path.join(self.root, *rel)

    def write(self, rel, content):
        p = self.path(rel)
        os.makedirs(os.path.dirname(p), exist_ok=True)
        mode = "wb" if isinstance(content, bytes) else "w"
        with open(p, mode) as f:
            f.write(content)
        return p

    def write_files(self, files, under=""):
        for rel, content in files.items():
            self.write(os.path.join(under, rel), content)

    def cli(self, args, cwd=None, timeout=120):
        """Run `cargo-tauri-typegen tauri-typegen <args>` (the real binary built
        from REPO). Returns (exit status, combined output). Status -1 = timeout."""
        argv = [REPO_BIN, "tauri-typegen"] + list(args)
        try:
            r = subprocess.run(argv, cwd=cwd or self.root, env=ENV, timeout=timeout,
                               stdout=subprocess.PIPE, stderr=subprocess.STDOUT)
            return r.returncode, r.stdout.decode("utf-8", "replace")
        except subprocess.TimeoutExpired:
            return -1, "TIMEOUT"

    def snapshot(self, rel=".", strip_timestamp=True):
        """{relative path: bytes | None for directories} of everything below rel."""
        out = {}
        top = self.path(rel)
        for r, ds, fs in os.walk(top):
            for d in ds:
                out[os.path.relpath(os.path.join(r, d), top) + "/"] = None
            for f in fs:
                p = os.path.join(r, f)
                try:
                    b = open(p, "rb").read()
                except OSError:
                    b = b"<unreadable>"
                if strip_timestamp:
                    b = strip_generated_at(b)
                out[os.path.relpath(p, top)] = b
        return out


def strip_generated_at(b):
    """Remove the timestamp comment (`Generated at: ...`) and the cache's
    `generated_at` field so that two generations can be compared."""
    b = re.sub(rb"(Generated at: )[^\n]*", rb"\1<ts>", b)
    b = re.sub(rb'("generated_at"\s*:\s*)"[^"]*"', rb'\1"<ts>"', b)
    return b


# ---------------------------------------------------------------- s-expressions (python side)

def sx(v):
    """Encode python ints / strs / bools / lists / tuples / None as an s-expression."""
    if v is None:
        return "()"
    if isinstance(v, bool):
        return "true" if v else "false"
    if isinstance(v, int):
        return str(v)
    if isinstance(v, bytes):
        return sx_quote(v)
    if isinstance(v, str):
        return sx_quote(v.encode("utf-8"))
    if isinstance(v, (list, tuple)):
        return "(" + " ".join(sx(x) for x in v) + ")"
    raise TypeError(type(v))


def some(v):
    return [v]


def sx_quote(b):
    out = ['"']
    for c in b:
        ch = chr(c)
        if ch == '"':
            out.append('\\"')
        elif ch == "\\":
            out.append("\\\\")
        elif ch == "\n":
            out.append("\\n")
        elif ch == "\t":
            out.append("\\t")
        elif ch == "\r":
            out.append("\\r")
        elif c < 32 or c >= 127:
            out.append("\\x%02x" % c)
        else:
            out.append(ch)
    out.append('"')
    return "".join(out)


def sx_parse(s):
    """Parse one s-expression; atoms come back as str (bytes decoded as latin-1
    then re-encoded to utf-8 where possible)."""
    pos = 0
    n = len(s)

    def skip():
        nonlocal pos
        while pos < n and s[pos] in " \t\r\n":
            pos += 1

    def value():
        nonlocal pos
        skip()
        c = s[pos]
        if c == "(":
            pos += 1
            items = []
            while True:
                skip()
                if s[pos] == ")":
                    pos += 1
                    return items
                items.append(value())
        if c == '"':
            pos += 1
            b = bytearray()
            while True:
                c = s[pos]
                pos += 1
                if c == '"':
                    break
                if c == "\\":
                    e = s[pos]
                    pos += 1
                    if e == "n":
                        b.append(10)
                    elif e == "t":
                        b.append(9)
                    elif e == "r":
                        b.append(13)
                    elif e == "x":
                        b.append(int(s[pos:pos + 2], 16))
                        pos += 2
                    else:
                        b += e.encode("latin-1")
                else:
                    b += c.encode("latin-1")
            try:
                return b.decode("utf-8")
            except UnicodeDecodeError:
                return b.decode("latin-1")
        start = pos
        while pos < n and s[pos] not in ' \t\r\n()"':
            pos += 1
        return s[start:pos]

    return value()


# ---------------------------------------------------------------- drivers

def _chunks(l, k):
    k = max(1, min(k, len(l)))
    size = (len(l) + k - 1) // k
    return [l[i:i + size] for i in range(0, len(l), size)]


def _run_stream(argv, lines, per_case_timeout=30, mem_kb=3000000, max_crashes=3):
    """Feed `lines` to a line-oriented child (one output line per input line).
    A crash, kill or stall is attributed to the first unanswered line; the child
    is restarted on the rest. Returns a list of str or ('crash', reason)."""
    import select
    import threading
    results = []
    i = 0
    crashes = 0
    while i < len(lines):
        if crashes >= max_crashes:
            results.extend([("skipped", "too many crashes in this shard")] * (len(lines) - i))
            break
        p = subprocess.Popen(["/bin/sh", "-c", "ulimit -v %d 2>/dev/null; exec \"$@\"" % mem_kb, "sh"] + list(argv),
                             stdin=subprocess.PIPE, stdout=subprocess.PIPE, stderr=subprocess.DEVNULL, env=ENV)
        rest = lines[i:]

        def feed(proc=p, data=rest):
            try:
                proc.stdin.write(("\n".join(data) + "\n").encode("utf-8"))
                proc.stdin.close()
            except (BrokenPipeError, OSError):
                pass
        th = threading.Thread(target=feed, daemon=True)
        th.start()
        buf = b""
        got = 0
        reason = None
        fd = p.stdout.fileno()
        while got < len(rest):
            r, _, _ = select.select([fd], [], [], per_case_timeout)
            if not r:
                reason = "timeout after %ss (no answer; hang or unbounded loop)" % per_case_timeout
                break
            chunk = os.read(fd, 1 << 16)
            if not chunk:
                rc = p.wait()
                reason = "process died (exit status %s)" % rc
                break
            buf += chunk
            while b"\n" in buf:
                line, buf = buf.split(b"\n", 1)
                if line.strip():
                    results.append(line.decode("utf-8", "replace"))
                    got += 1
        try:
            p.kill()
        except OSError:
            pass
        p.wait()
        i += got
        if got < len(rest):
            results.append(("crash", reason or "no output"))
            crashes += 1
            i += 1
    return results


def run_harness(cmd, cases, shards=None, per_case_timeout=30, extra_args=()):
    """cases: list of JSON-able dicts; returns list of observations (same order).
    A case on which the harness process dies or stalls yields {"crash": reason}."""
    if not cases:
        return []
    parts = _chunks(cases, shards or NCPU)

    def one(part):
        pid, sub = cmd.split("-", 1)
        res = _run_stream([harness_bin(pid), sub, *extra_args], [json.dumps(c) for c in part], per_case_timeout)
        out = []
        for c, r in zip(part, res):
            if isinstance(r, tuple) and r[0] == "skipped":
                out.append({"id": c.get("id"), "skipped": True})
            elif isinstance(r, tuple):
                out.append({"id": c.get("id"), "crash": r[1], "panic": "CRASH: " + r[1]})
            else:
                out.append(json.loads(r))
        return out

    with ThreadPoolExecutor(len(parts)) as ex:
        res = list(ex.map(one, parts))
    return [o for part in res for o in part]


def run_runner(cmd, sexps, shards=None, timeout=1800):
    """sexps: list of already-encoded s-expression strings; returns parsed results."""
    if not sexps:
        return []
    parts = _chunks(sexps, shards or NCPU)

    def one(part):
        inp = "\n".join(part) + "\n"
        pid, sub = cmd.split("-", 1)
        r = subprocess.run(["/bin/sh", "-c", "ulimit -s unlimited 2>/dev/null; exec %s %s" % (runner_bin(pid), sub)],
                           input=inp, stdout=subprocess.PIPE, stderr=subprocess.PIPE, text=True,
                           timeout=timeout, env=ENV, encoding="latin-1")
        lines = [l for l in r.stdout.split("\n") if l.strip()]
        if r.returncode != 0 or len(lines) != len(part):
            raise BuildError("runner %s: exit %s, %d/%d lines\n%s" % (cmd, r.returncode, len(lines), len(part), r.stderr[-2000:]))
        return [sx_parse(l) for l in lines]

    with ThreadPoolExecutor(len(parts)) as ex:
        res = list(ex.map(one, parts))
    return [o for part in res for o in part]


def pmap(f, items, workers=None):
    with ThreadPoolExecutor(workers or NCPU) as ex:
        return list(ex.map(f, items))


# ---------------------------------------------------------------- decision procedure, evidence

class Outcome:
    """Result of one case. corr: implementation == model; ok: property predicate
    holds of the implementation's observation; kf: id of the known-finding entry
    whose class contains the case (or None); nontrivial: counts for coverage."""
    __slots__ = ("case", "corr", "ok", "kf", "detail", "nontrivial", "stream")

    def __init__(self, case, corr, ok, kf=None, detail=None, nontrivial=True, stream=""):
        self.case = case
        self.corr = corr
        self.ok = ok
        self.kf = kf
        self.detail = detail or {}
        self.nontrivial = nontrivial
        self.stream = stream


def load_known_findings(pid):
    """Entries of known_findings/<pid>.json (committed; never written at run time).
    `fixed` records suppress nothing and are skipped here."""
    path = os.path.join(VERIF, "known_findings", pid + ".json")
    if not os.path.exists(path):
        return []
    data = json.load(open(path))
    return [e for e in data if isinstance(e, dict) and e.get("property") == pid and "fixed" not in e]


def case_hash(case):
    return hashlib.sha256(json.dumps(case, sort_keys=True).encode()).hexdigest()[:16]


def write_replay(pid, kind, payload):
    os.makedirs(os.path.join(OUT_DIR, "replays"), exist_ok=True)
    h = hashlib.sha256(json.dumps(payload, sort_keys=True, default=str).encode()).hexdigest()[:12]
    path = os.path.join(OUT_DIR, "replays", "%s-%s-%s.json" % (pid, kind, h))
    payload = dict(payload)
    payload["property"] = pid
    payload["replay_cmd"] = "./check %s --replay %s" % (pid, os.path.relpath(path, VERIF))
    with open(path, "w") as f:
        json.dump(payload, f, indent=1, default=str)
    return os.path.relpath(path, VERIF)


class Report:
    def __init__(self, pid, tier, seed):
        self.pid = pid
        self.tier = tier
        self.seed = seed
        self.t0 = time.time()
        self.outcomes = 0
        self.distinct = set()
        self.samples = []
        self.streams = {}
        self.kf_counts = {}
        self.kf_expected = {e["id"]: e for e in load_known_findings(pid)}
        self.violations = []       # (replay path, message)
        self.corr_broken = []      # outcomes with ok and not corr
        self.validated = 0
        self.extra = {}
        self.proof = None
        self.assumptions = []
        self.max_violation_lines = 5

    def add(self, stream, outcomes, sample_count=2):
        st = self.streams.setdefault(stream, {"cases": 0, "corr_ok": 0, "prop_ok": 0, "in_known_class": 0})
        for o in outcomes:
            o.stream = stream
            self.outcomes += 1
            st["cases"] += 1
            if o.nontrivial:
                self.distinct.add(case_hash(o.case))
            if o.corr:
                st["corr_ok"] += 1
                self.validated += 1
            if o.ok:
                st["prop_ok"] += 1
            if o.kf:
                st["in_known_class"] += 1
            if len([s for s in self.samples if s["stream"] == stream]) < sample_count:
                self.samples.append({"stream": stream, "case": o.case, "observation": o.detail})
            self.decide(o)

    def decide(self, o):
        if o.ok and o.corr:
            return
        if not o.ok and o.corr and o.kf and o.kf in self.kf_expected:
            self.kf_counts[o.kf] = self.kf_counts.get(o.kf, 0) + 1
            return
        if not o.ok:
            why = "property predicate fails on the implementation's output"
            if o.kf:
                why += " (inside known class %s but behaving differently from the recorded defect)" % o.kf
            self.violation("case", {"stream": o.stream, "case": o.case, "observation": o.detail, "why": why})
            return
        self.corr_broken.append(o)

    def violation(self, kind, payload, suffix=""):
        if len(self.violations) >= 12:      # enough replays on disk; keep counting
            self.violations.append((self.violations[-1][0], suffix))
            return
        payload = dict(payload)
        payload.update({"tier": self.tier, "seed": self.seed})
        path = write_replay(self.pid, kind, payload)
        self.violations.append((path, suffix))

    def finish_correspondence(self):
        """Correspondence broken without a failing input: reported as such."""
        if self.corr_broken and not self.violations:
            cases = [{"stream": o.stream, "case": o.case, "observation": o.detail} for o in self.corr_broken[:20]]
            self.violation("correspondence", {
                "broken": "correspondence between coq/Model and the implementation (property predicate still true on every case explored)",
                "theorems": self.proof.get("theorems") if self.proof else None,
                "disagreeing_cases": cases, "count": len(self.corr_broken)}, "no-failing-input-found")

    def finish(self, level_rule, trusted_base, extra_assumptions=()):
        pid = self.pid
        if self.proof is not None and self.proof["problems"]:
            self.violation("proof", {"broken": "proof obligation / assumption audit", "problems": self.proof["problems"]},
                           "no-failing-input-found")
        self.finish_correspondence()
        # known findings must reproduce
        for kid, e in self.kf_expected.items():
            n = self.kf_counts.get(kid, 0)
            if n > 0:
                print("KNOWN-FINDING: property=%s %s %s (reproduced on %d case(s))" % (pid, kid, e.get("what_fails", ""), n))
            else:
                self.extra.setdefault("known_findings_not_reproduced", []).append(kid)
                log("note: known finding %s not exercised by this run" % kid)
        shown = 0
        for path, suffix in self.violations:
            if shown < self.max_violation_lines:
                print(("VIOLATION property=%s replay=%s %s" % (pid, path, suffix)).rstrip())
            shown += 1
        if shown > self.max_violation_lines:
            log("(%d further violations written under replays/)" % (shown - self.max_violation_lines))
        cov = {
            "obligations": self.proof["obligations"] if self.proof else 0,
            "discharged": self.proof["discharged"] if self.proof else 0,
            "checker_cmd": "make -C coq Properties/%s.vo && coqc -Q coq TT coq/Properties/%s.v  (Print Assumptions captured)" % (pid, pid),
            "trusted_base": list(trusted_base),
            "theorems": self.proof.get("theorems") if self.proof else [],
            "theorem_assumptions": self.proof.get("assumptions") if self.proof else {},
            "examples": self.proof.get("examples") if self.proof else [],
            "evaluations": self.outcomes,
            "distinct_nontrivial": len(self.distinct),
            "rule": level_rule,
            "samples": self.samples[:12],
            "traces_validated_against_impl": self.validated,
            "streams": self.streams,
            "known_finding_cases": self.kf_counts,
            "correspondence_disagreements": len(self.corr_broken),
        }
        cov.update(self.extra)
        ev = {
            "property_id": pid, "tier": self.tier, "seed": self.seed, "level": "proof",
            "coverage": cov,
            "assumptions": list(self.assumptions) + list(extra_assumptions),
            "wall_s": round(time.time() - self.t0, 2),
            "violations": len(self.violations),
        }
        os.makedirs(os.path.join(OUT_DIR, "evidence"), exist_ok=True)
        with open(os.path.join(OUT_DIR, "evidence", pid + ".json"), "w") as f:
            json.dump(ev, f, indent=1, default=str)
        return 1 if self.violations else 0


COMMON_TRUSTED = [
    "Coq 8.16.1 kernel (coqc); vm_compute in witness lemmas and finite sweeps; no native_compute",
    "axioms: none (every property theorem prints 'Closed under the global context'; checked on each run)",
    "extraction: ExtrOcamlBasic + ExtrOcamlString only (Extract Inductive bool/option/unit/list/prod/sumbool/sumor, ascii=>char, string=>char list; Extract Inlined Constant andb/orb/negb/fst/snd/app etc. as shipped with Coq), OCaml 4.13.1, runner/*.ml glue",
    "correspondence check (differential test, bounded): tools/*.py generators, harness/ (Rust, links /repo), canonicalisation",
]
