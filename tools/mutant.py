"""Run checks against a scratch copy of /repo with a patch applied, without touching /repo:
    python3 -m tools.mutant <patch.diff> <ID> [<ID> ...] [--tier quick] [--keep]
Copies /repo (without target/ and .git) to build/mutants/<name>/, applies the patch with
`patch -p1`, runs `VERIF_REPO=<copy> ./check <ID>` for each id, prints each exit status and the
VIOLATION / KNOWN-FINDING lines, then removes the copy and its build output (unless --keep).
Expected for a property-breaking patch: exit 1 with a VIOLATION line and a concrete replay."""
import hashlib
import os
import shutil
import subprocess
import sys

V = os.path.dirname(os.path.dirname(os.path.abspath(__file__)))


def main():
    args = [a for a in sys.argv[1:] if not a.startswith("--")]
    keep = "--keep" in sys.argv
    tier = "quick"
    if "--tier" in sys.argv:
        tier = sys.argv[sys.argv.index("--tier") + 1]
        args.remove(tier)
    patch, ids = os.path.abspath(args[0]), args[1:]
    # unique per invocation: two workers may run the same patch at the same time
    name = hashlib.sha1(("%s:%d" % (patch, os.getpid())).encode()).hexdigest()[:8]
    dst = os.path.join(V, "build", "mutants", name)
    shutil.rmtree(dst, ignore_errors=True)
    os.makedirs(os.path.dirname(dst), exist_ok=True)
    # VERIF_BASE_REPO: tree to copy instead of /repo (e.g. a worktree with pending fix patches applied)
    shutil.copytree(os.environ.get("VERIF_BASE_REPO", "/repo"), dst, ignore=shutil.ignore_patterns("target", ".git", "*.orig"))
    r = subprocess.run(["patch", "-p1", "-s", "-i", patch], cwd=dst)
    if r.returncode != 0:
        print("patch does not apply")
        sys.exit(2)
    env = dict(os.environ, VERIF_REPO=dst)
    alt = None
    try:
        for pid in ids:
            r = subprocess.run([os.path.join(V, "check"), pid, "--tier", tier], cwd=V, env=env,
                               stdout=subprocess.PIPE, stderr=subprocess.PIPE, text=True)
            lines = [l for l in r.stdout.splitlines() if l.startswith(("VIOLATION", "KNOWN-FINDING"))]
            print("== %s exit=%s" % (pid, r.returncode))
            for l in lines:
                print("   " + l)
            if r.returncode not in (0, 1):
                print(r.stderr[-2000:])
    finally:
        if not keep:
            shutil.rmtree(dst, ignore_errors=True)
            sys.path.insert(0, V)
            alt = os.path.join(V, "build", "alt-" + hashlib.sha1(os.path.realpath(dst).encode()).hexdigest()[:8])
            # keep replays/evidence for inspection, drop the heavy build output
            for d in ("target", "target-repo", "harness"):
                shutil.rmtree(os.path.join(alt, d), ignore_errors=True)
            print("replays/evidence of this run: " + alt)


if __name__ == "__main__":
    main()
