"""Regenerate the generated parts of DESIGN.md: §13.2 (repairs and remaining findings, from /repo's git
log and known_findings/*.json) and §13.3 (seeded changes vs checks, from seeded/RESULTS.json).
    python3 -m tools.mkdesign"""
import glob
import json
import os
import re
import subprocess

V = os.path.dirname(os.path.dirname(os.path.abspath(__file__)))

WHY = {
    "C01-reserved-fn": "needs a naming policy for reserved words (suffix / rename)",
    "C01-digit-first": "same policy question (identifier starting with a digit after camel-casing)",
    "C01-path-leak": "qualified paths need name resolution, not a small patch",
    "C02-2": "pinned by unit tests (Record/tuple unqualified)",
    "C02-6": "event payload inference keeps only the last path segment: design decision",
    "C02-7": "needs a disambiguation scheme for colliding identifiers",
    "C02-8": "needs a naming scheme for generated names",
    "C04-1": "pinned by test_rejects_window_without_generics",
    "C04-4": "command-level rename_all: rests on reading the title as binding; debatable",
    "C04-6": "`__` maps to the empty key; the same function names the wrapper, where an empty name is a syntax error",
    "C06-7": "found while deepening (configured default_field_case renames unattributed fields); needs a decision on the setting's meaning",
    "C07-5": "error arm of a Result *field*: reading of the text",
    "C07-6": "lower-case type names are filtered by the harvester's design; outside the quantifier's dimensions",
    "C07-7": "inline modules are not walked: larger change",
    "C08-8": "line numbers printed into dependency-graph.txt but not hashed: design decision",
    "C13-2": "same type name in two files needs qualified names",
    "C13-4": "introduced by the listener de-duplication; needs a policy (union of payload types, or an error)",
}


def main():
    fixed, live = [], []
    for f in sorted(glob.glob(os.path.join(V, "known_findings", "*.json"))):
        for e in json.load(open(f)):
            if "fixed" in e:
                fixed.append((e.get("id"), e["fixed"]))
            else:
                live.append((e["property"], e["id"], e.get("what_fails", ""), e.get("pinned_by_test")))
    log = subprocess.run(["git", "-C", "/repo", "log", "--reverse", "--format=%h\t%s"], stdout=subprocess.PIPE,
                         text=True).stdout.strip().split("\n")[1:]
    L = []
    L.append("### 13.2 Repairs (`fix:` commits in /repo) and remaining findings\n")
    L.append("%d repairs of genuine defects were committed to /repo, each as one unguarded `fix:` commit touching only" % len(log))
    L.append("what the defect requires (no test is edited or added); the repository's suite (638 unit + 7 + 1 + 2")
    L.append("tests) passes unedited after each batch. Workflow per repair: patch proposed by the property's worker from")
    L.append("the failing witness → applied with the rest of its batch in a scratch worktree, suite run → every property")
    L.append("whose model covers the changed behaviour updated its model, theorems (the class leaves the premises; the")
    L.append("`_refuted` lemma becomes a positive statement on the same witness), generators and known-findings record")
    L.append("against that worktree (`VERIF_REPO=`) → all 20 checks pass on the worktree → patches committed to /repo")
    L.append("(`tools/landfixes.py`) → all 20 checks pass on /repo. A `fixed` record suppresses nothing: each worker")
    L.append("confirmed that its check run against the still unpatched tree reports the old witness as a `VIOLATION`")
    L.append("with a concrete replay. Two proposed patches were amended before landing because *another property's")
    L.append("check* found a regression in them: the variant-rule patch panicked on a non-ASCII first letter under")
    L.append("camelCase (found by C15's model of the crate's slice), and the raw-identifier patch made raw-named commands")
    L.append("lose their channels (found by C01's token-for-token correspondence). One repair knowingly trades one")
    L.append("finding for a narrower one: listener de-duplication (\"first emit site wins\") makes the payload type of an")
    L.append("event emitted with two different payload types depend on item order (new C13-4).\n")
    L.append("| commit | subject | findings repaired |")
    L.append("|---|---|---|")
    for l in log:
        h, s = l.split("\t")
        ids = sorted({i for i, t in fixed if h in t and i})
        L.append("| %s | %s | %s |" % (h, s[5:] if s.startswith("fix: ") else s, ", ".join(ids)))
    L.append("\nRemaining known findings (%d; `known_findings/<ID>.json`, each with class predicate, call site and witness;" % len(live))
    L.append("every witness is replayed first on every run and prints its `KNOWN-FINDING` line):\n")
    L.append("| id | what fails | why not repaired |")
    L.append("|---|---|---|")
    for p, i, w, pin in live:
        reason = WHY.get(i) or ("pinned by a unit test" + (" (%s)" % pin if isinstance(pin, str) else "") if pin or p in ("C05", "C10") else
                               ("needs the substring scanners replaced by a token-level (parse_nested_meta) parser" if p in ("C06", "C11") else
                                "design decision / larger change"))
        L.append("| %s | %s | %s |" % (i, w.replace("|", "\\|").replace("\n", " ")[:150], reason))
    sec132 = "\n".join(L) + "\n"

    # 13.3
    S = []
    rp = os.path.join(V, "seeded", "RESULTS.json")
    if os.path.exists(rp):
        res = json.load(open(rp))
        n = len(res)
        verd = {}
        for name, r in res.items():
            v = r.get(name.split("-")[0], {}).get("verdict", "?")
            if v != "caught" and any(x.get("verdict") == "caught" for x in r.values()):
                v = "caught by another property's check (the change breaks that property, not the one it was written for)"
            verd[v] = verd.get(v, 0) + 1
        S.append("### 13.3 Seeded changes vs. checks\n")
        S.append("%d property-breaking changes were written by independent sub-agents (six rounds; each saw only the" % n)
        S.append("property text and a scratch worktree, nothing from /verif), confirmed by a further sub-agent (suite passes")
        S.append("with the change, demonstration fails with it and passes without), filed under `seeded/<ID>-k/` and run")
        S.append("through the property's check on a patched scratch copy (`python3 -m tools.seedrun`). Final verdicts: %s." %
                 ", ".join("%s: %d" % kv for kv in sorted(verd.items())))
        S.append("Seeds that a check first missed, and how the check was strengthened (always for the *class* of input,")
        S.append("never the seed itself; details in `notes/<ID>.md`, section \"Seeded changes\"), are listed in `seeded/HISTORY.md`.\n")
        S.append(open(os.path.join(V, "seeded", "RESULTS.md")).read().split("\n", 6)[-1] if False else "Full table: `seeded/RESULTS.md`.\n")
    sec133 = "\n".join(S)

    # 13.4 theorem inventory and level texts, from the sources
    from tools import vlib, mkmanifest
    T = ["### 13.4 Theorem inventory and claimed level per property (generated from coq/Properties and tools/props)\n",
         "The per-property paragraphs of §13.1 were written when each check was first wired; repairs (§13.2),",
         "strengthening after missed seeds (§13.3) and two rounds of proof deepening followed. This inventory is",
         "regenerated from the sources and is authoritative for what is proved now: every name below is a theorem",
         "in `coq/Properties/<ID>.v` whose `Print Assumptions` output is checked to be *Closed under the global",
         "context* on every run of the check. `_partial` in a name marks a statement weaker than the property's full",
         "statement; what is missing is said in the level note.\n"]
    tot = 0
    for i in range(1, 21):
        pid = "C%02d" % i
        try:
            thms, printed, examples = vlib.property_theorems(pid)
        except OSError:
            continue
        m = mkmanifest.module_manifest(pid) or {}
        tot += len(thms)
        T.append("**%s** — %d theorems, %d examples. %s\n" % (pid, len(thms), len(examples), ", ".join("`%s`" % x for x in thms)))
        if m.get("level_note"):
            T.append("*Level note:* " + m["level_note"].strip() + "\n")
    T.insert(7, "Total: %d theorems over the 20 property files.\n" % tot)
    sec134 = "\n".join(T)

    p = os.path.join(V, "DESIGN.md")
    t = open(p).read()
    new = "<!-- BEGIN 13.2 (generated by python3 -m tools.mkdesign) -->\n" + sec132 + "\n" + sec133 + "\n" + sec134 + "\n<!-- END 13.2 -->"
    t = re.sub(r"<!-- BEGIN 13\.2.*?<!-- END 13\.2 -->", lambda m: new, t, flags=re.S)
    open(p, "w").write(t)
    print("DESIGN.md: %d fix commits, %d live findings" % (len(log), len(live)))


if __name__ == "__main__":
    main()
