"""C03 - exactly one wrapper per discovered command, invoking exactly its Rust name.
Cases are directory layouts written into a sandbox; the real CLI runs on them in both
modes and commands.ts is read back with the extracted Coq module parser; the library-level
CommandInfo list is observed through the Rust driver. Model: Model/C03Discover.v;
specification and oracle: Spec/C03Spec.v."""
import glob
import json
import os
import random

from tools import vlib
from tools.vlib import Outcome, sx
from tools.props import c03_gen as G
from tools.props import c03_hist as H

MANIFEST = {
    "level_text": "Coq theorems (Properties/C03.v, no axioms) about a Gallina transcription of parse_and_cache_all_files (walk, acceptance test on the directory components of the path below the project path, files that cannot be read or parsed are reported and skipped), the per-file loop under every iteration order of the AST cache, is_tauri_command on top-level Item::Fn, and one wrapper per CommandInfo: for every well-formed layout, every spelling of the project path and every file order, with no known-finding premise, the wrapper list is a permutation of the component-wise specification (annotated top-level functions of .rs files with no target/.git directory component); an unparsable or non-UTF-8 file removes exactly its own wrappers. The build-script route is a small state machine over the output directory (C03Discover.build_history: regeneration, generation-cache hit that leaves commands.ts, removal when no command is left); C03_build_history: after every run of every history of source trees, from any previous state, the wrappers are those of the specification for the tree of that run. C03_history extends this to both routes (CLI run_generate and build script), forced or not, mixed in one history and returning to earlier trees, on the complement of the recorded class C03-3 (a CLI run that discovers no command over the wrappers of an earlier run: the early return leaves the stale commands.ts; refuted in Coq with a computed witness). What stands before the items of a source text (byte order mark, shebang line, inner attributes, comments, frontmatter) is modelled as far as the entry point syn::parse_file treats it specially (parse_file_accepts), the specification says independently which prologues a Rust source file may have (rust_prologue_ok); proved equal for texts with at most one leading byte order mark (content_ok, part of layout_ok). The two formerly recorded defects (C03-1 root below target/.git, C03-2 non-UTF-8 file aborts the run) are repaired; their witnesses are positive theorems in Coq and ordinary regression cases of the corpus. The model is tied to /repo on every run: the real CLI (both modes) and the library analysis run on generated directory layouts and are compared with the extracted model; commands.ts is read back with the extracted module parser and judged by the extracted oracle.",
    "level_note": "Trusted: Coq kernel; the tie between hand-written model and code is differential (bounded); syn is outside the model (a file is Parsed items / Unparsable / NotUtf8 and Path::strip_prefix(project_path) of a walked path is taken to give back the components below the root, which holds for every path WalkDir builds by joining; and the python printer renders items to Rust source); the AST cache (a HashMap keyed by path) is a list of the walked files and its iteration order an arbitrary permutation, which is exact when sibling names are distinct (layout_ok); Tera is modelled by one wrapper record per CommandInfo (the token-level template transcription of Model/Pipeline.v is related to it by a computed example and by the differential check, not by a general proof); the translated return type is whatever Model/C03RetType.rt_ret_ts computes (own transcription of parse_type_structure with top-level comma splitting, the default type visitor and add_types_prefix with the recursive array branch; that the translation is the right one is C05); the Rust name of a command declared with a raw identifier is the identifier without r# (C03RetType.unraw in the model, C03Spec.rust_name in the specification, proved equal). Symbolic links below the project path are inside the model (NLink: a link that resolves to a regular file is an .rs file under the name and place of the link, for the code through path.is_file()/read_to_string and for the specification by decision; links to directories are not followed by WalkDir and the specification reads the recursion of the property text as the directory tree proper, dangling links are no files). A project path that itself is or passes through a symbolic link, unreadable directories, a project path that is a file and Windows path separators are outside the model. Entry names are byte strings in the model (str = list of bytes), so names that are not valid UTF-8 are inside; CommandInfo.file_path is compared after to_string_lossy, which the python side applies to the bytes of the model (bytes.decode(utf-8, replace), trusted to agree with Rust). The cache-hit condition of build_history compares the CommandInfo fields only; the real key is finer (C08), every real hit is a model hit, and both branches give the same wrappers (cache_hit_same).",
    "technique": "Rocq/Coq proof over hand-written model + correspondence check (extracted OCaml vs real CLI and Rust harness)",
    "design_ref": "DESIGN.md section 5 C03, section 11 accepted_spec",
}

RULE = ("layouts: random trees of 1-8 files, depth <= 4, directory names drawn from {target, .git, near misses, y.rs, ...}, "
        ".rs / non-.rs / odd file names, 30 % of the files among unusual entry names (not valid UTF-8 such as caf\\xE9.rs or m\\xFCll/, non-ASCII UTF-8, spaces, dots, leading dashes, quotes, backslash, braces), symbolic links (35 % of the layouts: to a regular file outside or inside the root incl. below target/.git, with .rs and other link and target names; to a directory outside or to .; dangling), parsed / unparsable / non-UTF-8 contents, item mixes (top-level fns, impl methods, "
        "inline mods, other items; command attribute spellings, near-miss attributes, other attributes in any order), "
        "function names incl. raw identifiers (r#type, r#match, r#move), return types over String/bool/i32/u8/f64/()/User/Item under Result/Option/Vec/HashMap/BTreeMap/tuples (depth <= 2, incl. Ok arms and tuple elements that print a comma and arrays of unions), "
        "x root spellings (absolute, relative, ./, ., trailing slash, roots below or named target/.git - the former class C03-1, now ordinary inputs); "
        "malformed: the same with mostly unparsable/non-UTF-8/odd files (non-UTF-8 .rs files, the former class C03-2, are ordinary inputs); parsed files with prologues (25 %: shebang, BOM, BOM+shebang, inner attributes, doc comments, comments, blank lines, frontmatter, in accepted and rejected orders; files that are only a prologue) and CRLF line endings (10 %); histories (CLI route with tauri.conf.json in the working directory as well, runs plain / --force / force: true in the configuration, trees returning to earlier ones; exhaustive: all 3-run sequences over two fixed trees x all force patterns x both routes = 128): the build-script entry point BuildSystem::generate_at_build_time (harness binary, cwd = project root with tauri.conf.json) run 2-5 times into one output directory over source trees related by edits {same, body-only, comment, add/remove/rename command, change return type, break file, move file, remove all}: exhaustive over all sequences of <= 2 edits from 5 kinds followed by an unchanged run on a fixed project in both modes (60) + 60 / 600 random ones, wrappers judged after EVERY run; paths: exhaustive enumeration of one command at every "
        "directory path of length <= 2 over {target,.git,src,targets,git} x 4 file names x 7 root spellings. Every case runs the "
        "CLI in mode none and zod and the library analysis. Non-trivial: at least one function carrying a command attribute "
        "somewhere in the tree; distinct = distinct case values")
TRUSTED = ["tools/props/c03_gen.py renders items to Rust source (trusted printer; syn is not modelled)",
           "Spec/TsModule.v module parser + Spec/C03Spec.invokes extractor read commands.ts (specification of the emitted TypeScript subset, unproven)",
           "Spec/C03Spec.c03_ok multiset comparison is the run-time oracle (perm_b proved sound and complete w.r.t. Permutation in Proofs/C03Proofs.v)"]
ASSUMPTIONS = ["sibling directory entries have distinct names and names contain no slash (layout_ok; true of every real directory)",
               "the project path is spelled without .. and is not itself reached through a symbolic link (path_string; strip_prefix succeeds); links BELOW it are modelled"]


def has_cmd_attr(case):
    def items(its):
        for it in its:
            if it["k"] == "fn" and any(a["segs"] in (["tauri", "command"], ["command"]) for a in it["attrs"]):
                return True
            if it["k"] == "impl" and any(a["segs"] in (["tauri", "command"], ["command"]) for f in it["fns"] for a in f["attrs"]):
                return True
            if it["k"] == "mod" and items(it["items"]):
                return True
        return False

    def nodes(ns):
        for n in ns:
            if n["t"] == "d":
                if nodes(n["ch"]):
                    return True
            elif n.get("kind") == "parsed" and items(n["items"]):
                return True
        return False
    return nodes(case["tree"])


FORMER = {"C03-1": 0, "C03-2": 0}     # cases of the run inside the repaired classes (evidence only)


def former_class(root, case):
    """Informative only (evidence): does the case lie in one of the repaired classes?
    C03-1: the root as spelled, followed by a separator, contains /target/ or /.git/;
    C03-2: some .rs file outside target/.git is not UTF-8."""
    r = root.rstrip("/") + "/" if root != "/" else root
    out = []
    if "/target/" in r or "/.git/" in r:
        out.append("C03-1")

    def nodes(ns, excluded):
        for n in ns:
            if n["t"] == "d":
                if nodes(n["ch"], excluded or n["name"] in ("target", ".git")):
                    return True
            elif n.get("kind") == "notutf8" and not excluded and n["name"].endswith(".rs") and len(n["name"]) > 3:
                return True
        return False
    if nodes(case["tree"], False):
        out.append("C03-2")
    return out


def read_text(path):
    try:
        return open(path, "rb").read().decode("utf-8", "replace")
    except OSError:
        return ""


def evaluate(cases, tag="c03"):
    """Run every case on implementation and model; returns a list of Outcome."""
    if not cases:
        return []
    with vlib.Sandbox(tag) as sb:
        jobs = []
        for i, c in enumerate(cases):
            base = sb.path("c%d" % i)
            G.write_tree(os.path.join(base, *c["where"]), c["tree"], os.path.join(base, "__ext"))
            root, cwd = G.root_and_cwd(c, base)
            jobs.append({"id": i, "base": base, "root": root, "cwd": cwd})
        # library level
        lib = vlib.run_harness("c03-discover", [{"id": j["id"], "cwd": j["cwd"], "root": j["root"]} for j in jobs],
                               per_case_timeout=60)

        # the real CLI, both modes, fresh output directory each
        def cli(j):
            out = {}
            for mode in ("none", "zod"):
                odir = os.path.join(j["base"], "__out_" + mode)
                rc, text = sb.cli(["generate", "-p", j["root"], "-o", odir, "-v", mode], cwd=j["cwd"])
                out[mode] = {"rc": rc, "commands_ts": read_text(os.path.join(odir, "commands.ts")),
                             "written": os.path.exists(os.path.join(odir, "commands.ts")),
                             "tail": text[-300:] if rc != 0 else ""}
            return out
        clis = vlib.pmap(cli, jobs)
        # model
        models = vlib.run_runner("c03-model", [sx([j["root"], G.tree_sx(c["tree"])]) for j, c in zip(jobs, cases)])
        for m in models:
            if m and m[0] == "runner-error":
                raise vlib.BuildError("runner: %s" % m)
        judge_in = []
        for j, c, m, o in zip(jobs, cases, models, clis):
            spec = m[3]
            mw = m[2]      # [[pairs]]; [] would mean a failing model run (impossible since the repair of C03-2)
            for mode in ("none", "zod"):
                judge_in.append(sx([[list(p) for p in spec], [[list(p) for p in mw[0]]] if mw else None, o[mode]["commands_ts"]]))
        judged = vlib.run_runner("c03-judge", judge_in)
        for r in judged:
            if r and r[0] == "runner-error":
                raise vlib.BuildError("runner: %s" % r)
    outs = []
    for k, (j, c, m, o, l) in enumerate(zip(jobs, cases, models, clis, lib)):
        layout_ok = m[0] == "true"
        if not layout_ok:
            raise vlib.BuildError("generator produced a layout outside the domain (layout_ok false): %s" % json.dumps(c)[:400])
        model_lib = m[1]
        model_failed = not m[2]
        spec = [tuple(p) for p in m[3]]
        corr, ok = True, True
        detail = {"root": j["root"].replace(j["base"], "<sandbox>"), "cwd": j["cwd"].replace(j["base"], "<sandbox>"),
                  "spec": sorted(spec), "model_failed": model_failed}
        # library level: multiset of (name, file_path, return_type, is_async)
        if "panic" in l or l.get("skipped"):
            corr = False
            detail["lib"] = l
        else:
            if model_failed:
                lib_corr = not l["ok"]
            else:
                # the model's path is a byte string (hex); CommandInfo.file_path is path.to_string_lossy()
                want = sorted((a, bytes.fromhex(b).decode("utf-8", "replace"), cc, d == "true") for a, b, cc, d in model_lib[0])
                got = sorted((a, b, cc, bool(d)) for a, b, cc, d in l.get("commands", [])) if l["ok"] else None
                lib_corr = got == want
                if not lib_corr:
                    detail["lib_model"] = [list(x) for x in want]
            if not lib_corr:
                detail["lib_impl"] = l
            corr &= lib_corr
        # commands.ts level
        for mi, mode in enumerate(("none", "zod")):
            r = judged[2 * k + mi]
            parsed, ws, jok, jcorr = r[0] == "true", r[1], r[2] == "true", r[3] == "true"
            run = o[mode]
            impl_failed = run["rc"] != 0
            if impl_failed != model_failed:
                corr = False
            elif not model_failed and not jcorr:
                corr = False
            if impl_failed:
                # nothing was generated: the property holds only if nothing had to be generated
                this_ok = (not spec) and not run["written"]
                if run["written"]:
                    corr = False
            else:
                this_ok = parsed and jok
            ok &= this_ok
            detail[mode] = {"exit": run["rc"], "commands_ts_written": run["written"], "module_parsed": parsed,
                            "wrappers": ws, "oracle_ok": this_ok, "matches_model": jcorr if not model_failed else impl_failed,
                            "output_tail": run["tail"]}
        if not model_failed:
            detail["model_wrappers"] = sorted(tuple(p) for p in m[2][0])
        # no recorded class is left (C03-1 and C03-2 are `fixed` entries, which suppress nothing):
        # a case where the property fails is always a VIOLATION
        detail["former_class"] = former_class(j["root"], c)
        for k_ in detail["former_class"]:
            FORMER[k_] += 1
        outs.append(Outcome(c, corr, ok, None, detail, nontrivial=has_cmd_attr(c)))
    return outs


def corpus_cases():
    out = []
    for f in sorted(glob.glob(os.path.join(vlib.VERIF, "corpus", "C03", "*.json"))):
        d = json.load(open(f))
        out.append(d["case"] if "case" in d else d)
    return out


def run(rep):
    vlib.build_harness("c03")
    vlib.build_runner("c03")
    vlib.build_repo_bin()
    for k_ in FORMER:
        FORMER[k_] = 0
    rng = random.Random(rep.seed)
    thorough = rep.tier == "thorough"
    # corpus first: regression cases, among them the witnesses of the repaired findings C03-1 and
    # C03-2 (corpus/C03/fixed-*.json), which must pass like any other case
    kf_w = [e["witness"] for e in vlib.load_known_findings("C03")]
    corpus = kf_w + corpus_cases()
    rep.add("corpus", evaluate([c for c in corpus if not c.get("hist")], "c03-corpus")
            + H.evaluate([c for c in corpus if c.get("hist")], "c03-corpus-hist"), sample_count=4)
    dist = {}
    n = 5000 if thorough else 300
    layouts = [G.gen_layout(rng) for _ in range(n)]
    nm = 1200 if thorough else 80
    malformed = [G.gen_layout(rng, malformed=True, in_class_weight=0.05) for _ in range(nm)]
    paths = G.path_enumeration()
    for c in layouts + malformed + paths:
        G.stats(c, dist)
    chunk = 400
    for name, cs in (("layouts", layouts), ("malformed", malformed), ("paths", paths)):
        for i in range(0, len(cs), chunk):
            rep.add(name, evaluate(cs[i:i + chunk], "c03-" + name))
    # build-script entry point, histories of runs into one output directory
    hists = H.small_scope(rng) + H.force_and_return() + [H.gen_history(rng) for _ in range(800 if thorough else 80)]
    for c in hists:
        H.stats(c, dist)
    rep.add("histories", H.evaluate(hists, "c03-hist"))
    rep.extra["input_distribution"] = dict(sorted(dist.items()))
    rep.extra["sizes"] = {"layouts": len(layouts), "malformed": len(malformed), "paths": len(paths),
                          "cli_runs": 2 * (len(layouts) + len(malformed) + len(paths)),
                          "histories": len(hists), "build_script_runs": sum(len(c["steps"]) for c in hists)}
    rep.extra["cases_in_former_classes"] = dict(FORMER)


def replay(rep, payload):
    vlib.build_harness("c03")
    vlib.build_runner("c03")
    vlib.build_repo_bin()
    items = payload.get("disagreeing_cases") or [payload]
    cs = [it["case"] for it in items]
    rep.add("replay", evaluate([c for c in cs if not c.get("hist")], "c03-replay")
            + H.evaluate([c for c in cs if c.get("hist")], "c03-replay-hist"))
