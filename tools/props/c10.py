"""C10 - Zod schemas describe the same structure as the plain TypeScript declarations.

Two streams.
 * types (in-process Rust driver): one TypeStructure value per case; the five renderers' strings
   (plain visitor, Zod visitor interface / schema form, schema builder for fields and parameters)
   and types.ts as written by both generators' generate_models for the same analysis result.
   Correspondence: the model's strings are equal to the implementation's, the specification parser
   reads the model's syntax trees from them, and the parsed types.ts of both modes equal the
   model's items (up to order).  Oracle (Spec/C10Shape.v compare_modules, extracted): names, keys,
   per-key shape agreement, and the JSON clauses on everything reachable from a parameter schema,
   applied to the implementation's files.
 * projects (real CLI, both modes, tools/projgen.py): same comparison on whole generated projects;
   the model is fed the analysis result (python derives it from the case; emitted type names are
   taken from the plain-mode output) and must produce the same items in both modes.
"""
import json
import os
import random
import re
import shutil

from tools import projgen, vlib
from tools.vlib import Outcome, sx

MANIFEST = {
    "level_text": "Coq theorems (Properties/C10.v, no axioms) about a Gallina transcription of the plain renderer (base/type_visitor.rs), ZodVisitor (visit_type, visit_type_for_interface), ZodSchemaBuilder::render_type/build_schema/build_param_schema (validator None) and of the types.ts templates of both modes, for ALL TypeStructure values, mappings and analysis results: the text of the plain renderer (and of the Zod visitor's interface renderer) lexes and parses to the modelled declaration tree for every in-domain type within the parser's nesting budget (structural induction through the specification lexer and parser, C10_plain_text_denotes), and so does the text of the schema builder (C10_builder_text_denotes); per-key shape agreement, stated on the parsed texts (C10_shapes, C10_json, C10_accept), between the Zod schema and the plain declaration outside four narrow recorded classes (z.set, Result union, T | null[], each refuted with a computed witness), JSON-serialisability of parameter schemas outside the z.set class, structural acceptance outside the Option class (.optional() refuses the explicit null; refuted), equal key lists per item, and equal type-name lists for every analysis result (the enum class was repaired by C10-5-zod-enum-alias; its former witness is now a positive theorem). Tied to /repo on every run: the model's five strings equal the real renderers' output, the specification parser (Spec/TsModule.v) reads the model's syntax trees from them, and types.ts written by both real generators (in-process generate_models and the real CLI on random projects) parse to the model's items; the extracted oracle compare_modules is applied to the implementation's files. Round 7: module level proved (C10_modules: for every analysis result outside every class with distinct type names and distinct keys per declaration, compare_modules of the two modelled modules returns no tag; lookup lemmas under NoDup names; C10_modules_premises_needed shows the added premises are necessary), ZodVisitor::visit_type text by structural induction (C10_visitor_text_denotes), and the Zod templates at text level: the member lines (C10_member_text_denotes, C10_shapes_field_text / _param_text) and the whole initialiser z.object({ ... }) of a struct schema / parameter schema including the trailing comma (C10_struct_schema_text_denotes, C10_param_schema_text_denotes), whose text is compared with the real types.ts on every in-process case (modulo white space outside string literals; verbatim equality is counted beside it).",
    "design_ref": "DESIGN.md section 5 C10, section 12",
    "level_note": "String level is proved for all four renderers for every in-domain type within the specification parsers' nesting budgets: C10_plain_text_denotes (plain + visit_type_for_interface), C10_builder_text_denotes (ZodSchemaBuilder, validator None), C10_visitor_text_denotes / _depth (ZodVisitor::visit_type, round 7, structural induction; the depth-2 sweep C10_denotation_sweep stays as independent evidence), and C10_shapes / C10_json / C10_accept read both printed texts back. Round 7: (a) C10_modules is asserted: proj_ok p -> v_tags (compare_modules (plain_items p) (zod_items p)) = [] for ALL analysis results with primitive mapping targets, members outside every class (clean, no Option, optional flag off), channel types in the domain without a union under an array, enums with >= 1 variant, distinct serialised keys inside one declaration, non-empty command type names and NoDup type names (Proofs/C10Modules.v: find_nth under NoDup names returns the declaring item in both modules; no premise about reachability). The former C10_modules_full_statement was FALSE as stated (C10_modules_premises_needed: enum without variants, optional flag on a non-Option type, duplicate key each give the tag shape; its proj_dom also allowed non-primitive mapping targets). (b) Zod templates at text level (Model/C10ZodText.v): member expression texts incl. the second .optional() (C10_member_text_denotes; C10_shapes_field_text / _param_text lift the two member theorems to the printed member texts, the old _partial names remain as the tree-level lemmas), and the whole initialiser of a schema constant, z.object({ newline key: schema, ... newline }) with trailing comma, for any number of members with identifier keys (C10_struct_schema_text_denotes, C10_param_schema_text_denotes, C10_struct_schema_text_keys; Proofs/C10ObjectText.v: p_props with trailing commas, p_expr through z . object ( { ... } ), white-space runs in the lexer). (c) C10_denotation_all: the run-time denotation test den_ok (all four printed texts read back as the model trees) is true for EVERY in-domain type of depth < 30, i.e. the depth-2 sweep for all types; C10_eqb_exact reflects the run-time equality tests ty_eqb / ex_eqb / item_eqb (equal iff the printed s-expressions are equal; Proofs/C10Eqb.v). New correspondence: coverage.schema_text_level = every struct / parameter schema initialiser of every in-process case compared with the real types.ts modulo white space outside string literals - the theorems are parametric in the white space before the entries, and a re-indented template must stay quiet (mutant m8) - with verbatim equality counted beside it (18 485 of 18 485 constants per quick run). Still partial / not modelled: (1) the plain templates (export interface X { key?: T; ... [key: string]: unknown; }) and the export const / export type lines are modelled at tree level only: the item parser (p_item / p_members) has no round-trip proof; the member type text is covered (plain_member_text); (2) quoted (non-identifier) keys in z.object text: compared at run time, not in the theorem (pprop of C10ParseEx handles KeyId only); (3) C10_modules / C10_modules_verdict (tags, per-item detail and per-key findings all empty) speak about projects outside every class; inside a class (Option, set, Result, union under array) only the per-key theorems and the run-time check apply; (4) theorems assume primitive mapping targets (map_ok): lookup_target is used in about ten lemmas of C10Proofs / C10LexTy / C10LexEx; wider targets (z.custom<T>) are covered by the correspondence run only; (5) enum constants and z.enum([...]) text are tree level. C10_oracle_exact reflects the per-key oracle. Validator chains are stripped, not modelled (C11). At project level the TypeStructure of a Rust type is the structure of its syntax tree (structure_of), checked per project against the real CLI. Key quoting (ts_key) treats bytes above 127 as letters. Meaning of Zod combinators is a specification (Zod 4 documentation), not verified against a Zod runtime; record keys: z.number() assumed to accept numeric string keys (Zod >= 4.2).",
    "technique": "Rocq/Coq proof over hand-written model + correspondence check (extracted OCaml vs Rust harness and real CLI)"
}

RULE = ("types: every constructor spine over {Vec, HashSet, Option, Result, HashMap<String,_>, HashMap<i32,_>, tuple position 0/1 of 2, "
        "1-tuple} to depth 2 (quick) / 3 (thorough) ending in each leaf {string, number, boolean, void, (), struct, enum-like name, mapped name}, "
        "plus random types to depth 6, each rendered by the five renderers and placed at a struct field, a parameter, parameter+channel, "
        "channel only (optionally with an enum and a member-less struct) through both real generators; malformed: 400 / 5000 TypeStructure values and mappings outside the feature set "
        "(unknown primitives, non-identifier names, non-primitive mapping targets, any key type) where only model = implementation for the five renderers is compared; 350 cases with several parameters per command and several commands whose types render alike in one renderer only (Vec/HashSet, T/Result<T>), 300 cases with mapping targets beyond the primitives (unknown, any, number[], Date, Record, tuple, union) at field/parameter/channel position; 15 % of the type cases use serialised names that need quoting as keys and odd enum literals; projects: random graph projects (tools/projgen.py, incl. tuples of generics, renamed fields, raw identifiers), projects with recursive and mutually recursive types beside unrelated roots (digraphs on three structs incl. self-loops, roots through parameter / return / channel / event), projects whose command names derive colliding type names with different parameter lists (declarations judged by occurrence and multiplicity), projects with one struct whose fields sample the cross product validator attribute x mapped type (primitive / non-primitive target) x Option x serde rename / skip, projects with maps keyed by a project enum / a mapped type / String / integers in fields, Option fields and parameters (key position judged), event projects (several emit sites per event name with different payload types, nested payload dependencies, several files), type_mappings whose keys are external names or project-defined types, and an oracle-only stream crossing defaultParameterCase / defaultFieldCase / includePrivate / typeMappings with both modes, generated by the "
        "real CLI in both modes. Non-trivial = the type has at least one constructor / the project emits at least one struct; "
        "distinct = distinct cases")
TRUSTED = [
    "Spec/C10Shape.v (shape language, zshape: meaning of Zod combinators transcribed from the Zod 4 documentation; no Zod runtime in the sandbox)",
    "Spec/TsLex.v + Spec/TsModule.v as the reading of generated TypeScript (no TypeScript compiler in the sandbox)",
    "python derivation of the analysis result of a project case (value parameters, channels, camelCase names) fed to the model at project level",
]
ASSUMPTIONS = [
    "Zod: .optional() accepts undefined/missing only and rejects null; z.set demands a Set instance; z.coerce.number()/boolean() accept every number/boolean",
    "Zod >= 4.2: z.record(z.number(), V) accepts the numeric string keys of a JSON object (on Zod 4.0/4.1 such keys are refused with invalid_key; the README only says Zod 4.x) - not recorded as a finding",
    "serde accepts both a missing key and null for Option<T>; Tauri deserialises parameter objects with serde_json",
]

SCRATCH = os.path.join(vlib.BUILD, "scratch-c10", "out-%d" % os.getpid())     # per run: removed at the end

# finding ids by tag (priority order)
TAG_KF = [("set-not-array", "C10-1"), ("non-json", "C10-1"), ("null-rejected", "C10-2"), ("union-under-array", "C10-3"),
          ("result-union", "C10-4")]
# C10-5 (Zod-mode enums without a type alias) was repaired: the tag enum-without-type-alias is never excused

# ----------------------------------------------------------------------------- type-level generator

STR, NUM, BOOL, VOID = ["prim", "string"], ["prim", "number"], ["prim", "boolean"], ["prim", "void"]
UNIT = ["tuple"]
LEAVES = [STR, NUM, BOOL, VOID, UNIT, ["custom", "User"], ["custom", "Status"], ["custom", "DateTime"]]
MAPPINGS = {"DateTime": "string", "Decimal": "number", "Flag": "boolean"}
# the README maps Rust types "to TypeScript types": targets beyond the three primitives (the schema side has a
# z.custom<T> branch for them); MaybeId (a union) only where no array suffix can follow it
MAPPINGS_WIDE = {"Value": "unknown", "Bytes": "number[]", "Stamp": "Date", "Headers": "Record<string, string>",
                 "Anything": "any", "Pair": "[string, number]", "MaybeId": "string | null"}
WIDE_LEAVES = [["custom", n] for n in MAPPINGS_WIDE if n != "MaybeId"]
POSITIONS = {
    "vec": lambda t: ["arr", t],
    "set": lambda t: ["set", t],
    "opt": lambda t: ["opt", t],
    "res": lambda t: ["res", t],
    "map_s": lambda t: ["map", STR, t],
    "map_n": lambda t: ["map", NUM, t],
    "map_enum": lambda t: ["map", ["custom", "Status"], t],          # key = a project type (enum): z.record(StatusSchema, ..)
    "map_mapped": lambda t: ["map", ["custom", "DateTime"], t],      # key = a (possibly mapped) external name
    "tup0": lambda t: ["tuple", t, NUM],
    "tup1": lambda t: ["tuple", STR, t],
    "tup_single": lambda t: ["tuple", t],
}


def spines(depth):
    out = []

    def go(d, build):
        for l in LEAVES:
            out.append(build(l))
        if d == 0:
            return
        for f in POSITIONS.values():
            go(d - 1, lambda t, f=f, build=build: build(f(t)))
    go(depth, lambda t: t)
    return out


def rand_type(rng, depth, weights):
    if depth <= 0 or rng.random() < 0.25:
        l = rng.choice(LEAVES + [["custom", rng.choice(["Item", "Order", "Decimal", "Flag"])]])
        return l
    c = rng.choices(list(weights), weights=list(weights.values()))[0]
    sub = lambda: rand_type(rng, depth - 1, weights)
    if c in ("arr", "set", "opt", "res"):
        return [c, sub()]
    if c == "map":
        return ["map", rng.choice([STR, NUM]), sub()]
    return ["tuple"] + [sub() for _ in range(rng.randint(1, 4))]


def type_depth(t):
    if t[0] in ("prim", "custom"):
        return 0
    return 1 + max([type_depth(x) for x in t[1:] if isinstance(x, list)] or [0])


def mentions(t, name):
    if t[0] == "custom":
        return t[1] == name
    return any(mentions(x, name) for x in t[1:] if isinstance(x, list))


def alike_cases(tier, rng):
    """several parameters per command and several commands whose types render alike in one renderer but
    not in another (Vec / HashSet of the same element for the Zod visitor; T / Result<T>; Option or not),
    in every order; plus the base type of the case drawn from the same family"""
    out = []
    n = 350 if tier == "quick" else 4000
    elems = [STR, NUM, BOOL, ["custom", "User"], ["tuple", STR, NUM], ["map", STR, NUM], ["map", NUM, NUM]]
    for i in range(n):
        es = rng.sample(elems, rng.randint(1, 2))
        fam = []
        for e in es:
            fam += [["arr", e], ["set", e], ["arr", ["arr", e]], ["arr", ["set", e]], ["set", ["arr", e]], ["map", STR, ["arr", e]],
                    ["map", STR, ["set", e]], ["tuple", ["arr", e], ["set", e]], ["tuple", ["set", e], ["arr", e]]]
            if rng.random() < 0.3:
                fam += [["res", ["arr", e]], ["opt", ["arr", e]], ["opt", ["set", e]], e]
        extra = []
        names = ["a", "b", "c2", "d2", "e2"]
        for k in range(rng.randint(1, 3)):
            ps = [[names[j], rng.choice(fam), False] for j in range(rng.randint(2, 4))]
            for p in ps:
                p[2] = p[1][0] == "opt"
            extra.append(["x%d" % k, ps])
        out.append({"ts": rng.choice(fam), "extra": extra})
    return out


def wide_mapping_cases(tier, rng):
    out = []
    n = 300 if tier == "quick" else 3000
    for i in range(n):
        if i % 6 == 0:
            leaf = ["custom", "MaybeId"]
            t = rng.choice([leaf, ["map", STR, leaf], ["tuple", leaf, NUM], ["tuple", STR, leaf], ["res", leaf]])
        else:
            leaf = rng.choice(WIDE_LEAVES)
            f = rng.choice(list(POSITIONS.values()) + [lambda x: x])
            g = rng.choice(list(POSITIONS.values()) + [lambda x: x])
            t = g(f(leaf))
        out.append({"ts": t, "mappings": dict(MAPPINGS, **MAPPINGS_WIDE)})
    return out


def type_cases(tier, rng):
    cases = []
    for t in spines(2 if tier == "quick" else 3):
        cases.append({"ts": t})
    cases += alike_cases(tier, rng)
    cases += wide_mapping_cases(tier, rng)
    # weights keep the recorded classes (set, result, option) a minority of the random part
    w_clean = {"arr": 4, "map": 3, "tuple": 3}
    w_all = {"arr": 3, "map": 2, "tuple": 2, "set": 1, "opt": 2, "res": 0.5}
    n = 2600 if tier == "quick" else 30000
    for i in range(n):
        w = w_clean if i % 10 < 8 else w_all
        cases.append({"ts": rand_type(rng, rng.randint(1, 6), w)})
    out = []
    for i, c in enumerate(cases):
        t = c["ts"]
        c["id"] = i
        c["opt"] = t[0] == "opt"
        if c["opt"] and rng.random() < 0.1:
            c["opt"] = False                 # &Option<T>: is_optional is false although the structure is Optional
        c["enum"] = rng.random() < 0.08
        c["unit"] = rng.random() < 0.1           # a struct without serialised members next to S
        c["keys"] = None
        if rng.random() < 0.15:                  # serialised names that are not identifier names (quoted keys), odd enum literal
            ks = rng.sample(ODD_KEYS, 3)
            c["keys"] = [k if rng.random() < 0.7 else None for k in ks] + [rng.choice(ODD_LITS) if rng.random() < 0.5 else None]
        uses_mapped = any(mentions(t, n) for n in MAPPINGS)
        if "mappings" not in c:
            c["mappings"] = dict(MAPPINGS) if (uses_mapped and rng.random() < 0.7) else None
        c.setdefault("extra", None)
        out.append(c)
    return out


DEFAULT_KEYS = ["f", "p", "ch", "B"]
ODD_KEYS = ["full-name", "my key", "0abc", "a\"b", "type", "x.y", "\u00e9t\u00e9", "back\\slash", "", "$ok", "_x1", "two\nlines", "class"]
ODD_LITS = ["in-progress", "a\"b", "c\\d", "with space", "tab\there", "", "B"]

CORPUS_TYPES = [
    # witnesses of the known findings (replayed first, deterministically)
    {"ts": ["set", STR], "opt": False, "enum": False, "mappings": None, "kf": "C10-1"},
    {"ts": ["opt", STR], "opt": True, "enum": False, "mappings": None, "kf": "C10-2"},
    {"ts": ["arr", ["opt", STR]], "opt": False, "enum": False, "mappings": None, "kf": "C10-3"},
    {"ts": ["res", STR], "opt": False, "enum": False, "mappings": None, "kf": "C10-4"},
    {"ts": STR, "opt": False, "enum": True, "mappings": None},      # witness of the repaired C10-5: must pass
    # regression cases
    {"ts": ["map", NUM, ["tuple", STR, ["custom", "User"]]], "opt": False, "enum": False, "mappings": None},
    {"ts": ["opt", ["opt", ["custom", "User"]]], "opt": True, "enum": False, "mappings": None},
    {"ts": ["custom", "DateTime"], "opt": False, "enum": False, "mappings": dict(MAPPINGS)},
    {"ts": ["tuple"], "opt": False, "enum": False, "mappings": None},
    {"ts": ["custom", "DateTime"], "opt": False, "enum": False, "unit": True, "mappings": dict(MAPPINGS)},
    # batch 3: quoted keys in both modes, escaped enum literal; a tuple of generics below a map (old comma class)
    {"ts": NUM, "opt": False, "enum": True, "mappings": None, "keys": ["full-name", "my key", "a\"b", "c\\d\"e"]},
    {"ts": ["map", STR, ["tuple", ["map", STR, NUM], ["res", ["map", STR, BOOL]]]], "opt": False, "enum": False, "mappings": None},
]


def eval_types(cases):
    os.makedirs(SCRATCH, exist_ok=True)
    for c in cases:
        c["scratch"] = SCRATCH
    obs = vlib.run_harness("c10-tcase", cases, per_case_timeout=30)
    sexps, idx = [], []
    for c, o in zip(cases, obs):
        if "panic" in o or o.get("skipped"):
            continue
        m = sorted((c.get("mappings") or {}).items())
        keys = [k if k is not None else d for k, d in zip(c.get("keys") or [None] * 4, DEFAULT_KEYS)]
        extra = [[x[0][:1].upper() + x[0][1:], [[p[0], bool(p[2]), p[1]] for p in x[1]]] for x in (c.get("extra") or [])]
        sexps.append(sx([[list(kv) for kv in m], c["ts"], c["opt"], c["enum"], bool(c.get("unit")), o["chan_ts"], keys, extra, o["strings"],
                         o["plain_mod"], o["zod_mod"]]))
        idx.append(c["id"])
    res = dict(zip(idx, vlib.run_runner("c10-tcase", sexps)))
    outs = []
    for c, o in zip(cases, obs):
        case = {k: c[k] for k in ("ts", "opt", "enum", "mappings")}
        case["unit"] = bool(c.get("unit"))
        case["keys"] = c.get("keys")
        case["extra"] = c.get("extra")
        if o.get("skipped"):
            continue
        if "panic" in o:
            outs.append(Outcome(case, False, False, detail={"impl": "PANIC " + o["panic"]}))
            continue
        r = res[c["id"]]
        if r and r[0] == "runner-error":
            raise vlib.BuildError("runner: %s (case %s)" % (r, case))
        dom, strings, s_or, proj, allowed, schema_texts = r
        if dom != "true":
            raise vlib.BuildError("generator produced a case outside the domain: %s" % case)
        out = judge(case, o, strings, s_or, proj, allowed, nontrivial=c["ts"][0] not in ("prim", "custom"))
        bad = schema_text_mismatches(o.get("zod_mod") or "", schema_texts)
        SCHEMA_TEXT_STATS["constants"] += len(schema_texts)
        SCHEMA_TEXT_STATS["mismatches"] += len(bad)
        if bad:
            out.corr = False
            out.detail["schema_text"] = bad
            out.detail.setdefault("impl", {k: o.get(k) for k in ("strings", "plain_mod", "zod_mod") if k in o})
        outs.append(out)
    return outs


SCHEMA_TEXT_STATS = {"constants": 0, "verbatim": 0, "mismatches": 0}


def _squeeze(text):
    """Drop white space outside double-quoted literals (quoted keys keep theirs)."""
    out, i, n, inq = [], 0, len(text), False
    while i < n:
        ch = text[i]
        if inq:
            out.append(ch)
            if ch == "\\" and i + 1 < n:
                out.append(text[i + 1])
                i += 1
            elif ch == '"':
                inq = False
        elif ch == '"':
            inq = True
            out.append(ch)
        elif not ch.isspace():
            out.append(ch)
        i += 1
    return "".join(out)


def schema_text_mismatches(zod_mod, schema_texts):
    """Text level of the schema constants (round 7): for every struct and every command with value
    parameters the model prints the initialiser  z.object({ ... })  (Model/C10ZodText.v: struct_schema_text,
    param_schema_text; in-process cases carry no validator attributes); it must occur in the implementation's
    types.ts after  export const <Name> = , followed by the semicolon. Compared modulo white space outside
    string literals: the theorems C10_struct_schema_text_denotes / C10_param_schema_text_denotes hold for every
    white-space run in front of the entries (parse_object is parametric in lead / sep), and a re-indented
    template is not a change of behaviour (it must stay quiet). Exact text equality is counted separately."""
    bad = []
    squeezed = _squeeze(zod_mod)
    for name, text in schema_texts:
        want = "export const %s = %s;" % (name, text)
        if want in zod_mod:
            SCHEMA_TEXT_STATS["verbatim"] = SCHEMA_TEXT_STATS.get("verbatim", 0) + 1
        if _squeeze(want) not in squeezed:
            i = zod_mod.find("export const %s = " % name)
            bad.append({"const": name, "model": text, "impl": zod_mod[i:i + len(want) + 40] if i >= 0 else None})
    return bad


def judge(case, o, strings, s_or, proj, allowed, nontrivial=True):
    """strings: model strings with denotation flags (None at project level); s_or: oracle on the
    implementation's strings; proj: result of c10_project."""
    det = {}
    corr = True
    tags = []
    if strings is not None:
        model = [s[0] for s in strings]
        den = [s[1] == "true" for s in strings]
        if model != o["strings"]:
            corr = False
            det["strings"] = {"impl": o["strings"], "model": model}
        if not all(den):
            corr = False
            det["denotation_broken"] = [n for n, d in zip(("plain", "ziface", "zvisit", "zfield", "zparam"), den) if not d]
        same_iface, ftags, ptags = s_or
        if same_iface != "true":
            tags.append("zod-interface-type-differs")
        tags += list(ftags) + list(ptags)
    p_ok, z_ok, p_eq, z_eq, model_tags, verdict, p_allowed, p_dom, key_allowed = proj
    if p_dom != "true":
        raise vlib.BuildError("case outside the domain: %s" % case)
    if p_ok != "true" or z_ok != "true":
        tags.append("unreadable")
    if p_eq != "true" or z_eq != "true":
        corr = False
        det["items_equal"] = {"plain": p_eq, "zod": z_eq}
    vt, vdet, vkeys = verdict
    tags += list(vt)
    tags = sorted(set(tags))
    if sorted(set(model_tags)) != sorted(set(vt)):
        corr = False
        det["oracle_on_model"] = list(model_tags)
    allowed_all = set(p_allowed) | set(allowed or [])
    ok = not tags
    kf = None
    # a finding is excused only by the Rust type written at the very key where it shows (Item.key):
    # z.set at a key whose type is a Vec is a violation even if another member of the project is a set
    kal = {}
    for k, v in key_allowed:
        kal.setdefault(k, set()).update(v)          # the same Item.key may occur twice (colliding command names)
    per_key_ok = all(set(kt) <= kal.get(k, set()) for k, kt in vkeys)
    module_tags = set(vt)
    seen_at_keys = set(t for _, kt in vkeys for t in kt)
    if tags and all(t in allowed_all for t in tags) and per_key_ok and module_tags <= seen_at_keys:
        for t, k in TAG_KF:
            if t in tags:
                kf = k
                break
    det["tags"] = tags
    det["per_item"] = vdet
    det["per_key"] = vkeys
    if not ok or not corr:
        det["impl"] = {k: o.get(k) for k in ("strings", "plain_mod", "zod_mod") if k in o}
    return Outcome(case, corr, ok, kf, det, nontrivial)


# ----------------------------------------------------------------------------- malformed stream

WEIRD_PRIMS = ["", "foo", "String", "null", "number | null", "z", "void ", "any"]
WEIRD_NAMES = ["HashMap<String", "i32>", "null", "Record", "a b", "", "Vec<User>", "string", "z", "Schema", "X-Y", "été", "User[]", "void"]
WEIRD_TARGETS = ["Date", "string | null", "Array<string>", "void", "", "number[]", "types.User", "z.infer<typeof X>"]


def malformed_cases(tier, rng):
    """TypeStructure values and mappings outside the documented feature set: the property is silent
    there; only model = implementation for the five renderers is checked (faithfulness of the model
    on unexpected primitives, non-identifier names, non-primitive mapping targets)."""
    n = 400 if tier == "quick" else 5000
    cases = []
    for i in range(n):
        def leaf():
            r = rng.random()
            if r < 0.35:
                return ["prim", rng.choice(WEIRD_PRIMS)]
            if r < 0.8:
                return ["custom", rng.choice(WEIRD_NAMES + ["DateTime", "Decimal"])]
            return rng.choice(LEAVES)

        def go(d):
            if d <= 0 or rng.random() < 0.3:
                return leaf()
            c = rng.choice(["arr", "set", "opt", "res", "map", "tuple"])
            if c == "map":
                return ["map", go(d - 1), go(d - 1)]          # any key type
            if c == "tuple":
                return ["tuple"] + [go(d - 1) for _ in range(rng.randint(0, 3))]
            return [c, go(d - 1)]
        t = go(rng.randint(0, 4))
        m = None
        if rng.random() < 0.6:
            m = {k: rng.choice(WEIRD_TARGETS + ["string", "number"]) for k in rng.sample(["DateTime", "Decimal", "null", "Record", "void", "Vec<User>"], rng.randint(1, 3))}
        cases.append({"id": "mal-%d" % i, "ts": t, "opt": t[0] == "opt", "enum": False, "mappings": m})
    return cases


def eval_malformed(cases):
    os.makedirs(SCRATCH, exist_ok=True)
    for c in cases:
        c["scratch"] = SCRATCH
    obs = vlib.run_harness("c10-tcase", cases, per_case_timeout=30)
    sexps, idx = [], []
    for c, o in zip(cases, obs):
        if "panic" in o or o.get("skipped"):
            continue
        m = sorted((c.get("mappings") or {}).items())
        sexps.append(sx([[list(kv) for kv in m], c["ts"]]))
        idx.append(c["id"])
    res = dict(zip(idx, vlib.run_runner("c10-strings", sexps)))
    outs = []
    for c, o in zip(cases, obs):
        case = {k: c[k] for k in ("ts", "opt", "enum", "mappings")}
        case["malformed"] = True
        if o.get("skipped"):
            continue
        if "panic" in o:
            # a panic of a renderer is C15's business; here it only means nothing to compare
            outs.append(Outcome(case, False, True, detail={"impl": "PANIC " + o["panic"]}))
            continue
        r = res[c["id"]]
        if r and r[0] == "runner-error":
            raise vlib.BuildError("runner: %s (case %s)" % (r, case))
        dom, strings = r
        model = [s[0] for s in strings]
        corr = model == o["strings"]
        outs.append(Outcome(case, corr, True, None, {"impl": o["strings"], "model": model, "in_domain": dom}, nontrivial=True))
    return outs


# ----------------------------------------------------------------------------- project level

# tuple_map = (HashMap<String, T>, bool): inside the old comma class of the resolver (repaired by
# C05-2-3-top-level-commas), an ordinary case now
MY_CONTEXTS = ["direct", "option", "vec", "map_value", "btree_value", "set", "btree_set", "tuple_first", "tuple_last",
               "opt_vec", "vec_opt", "map_vec", "vec_tuple", "opt_opt", "tuple_map"]
CLEAN_CONTEXTS = ["direct", "vec", "map_value", "btree_value", "tuple_first", "tuple_last", "map_vec", "vec_tuple", "tuple_map"]
FN_NAMES = ["get_user", "save", "list_items", "do_it", "fetch_all", "update_profile", "ping", "load", "sync_now"]


def rty_sx(t):
    k = t["k"]
    if k == "ref":
        return ["r", rty_sx(t["t"])]
    if k == "tuple":
        return ["t", [rty_sx(x) for x in t["ts"]]]
    return ["p", t["name"], [rty_sx(a) for a in t["args"]]]


def camel(s):
    if s.startswith("r#"):
        s = s[2:]
    parts = [p for p in s.split("_") if p]
    return parts[0].lower() + "".join(p[:1].upper() + p[1:] for p in parts[1:]) if parts else s


def pascal(s):
    return "".join(p[:1].upper() + p[1:] for p in s.split("_") if p)


def is_opt(t):
    return t["k"] == "path" and t["name"] == "Option"


def strip_clean(case, rng, clean):
    """project cases: own function names (no digits), optional validators / serde(skip); a clean
    project uses only contexts outside every recorded class and no enum"""
    for items in case["files"].values():
        for it in items:
            if it["kind"] == "struct":
                for f in it.get("fields", []):
                    if rng.random() < 0.15:
                        f["validate"] = [rng.choice([{"length": {"min": 1, "max": 10}}, {"email": {}}, {"range": {"min": 0, "max": 5}},
                                                     {"length": {"min": 2, "message": "too short"}}, {"url": {}}])]
                    if rng.random() < 0.05:
                        f["serde"] = [{"skip": True}]
                    elif rng.random() < 0.08:          # serialised names that need quoting as keys (same filter in both modes)
                        f["serde"] = [{"rename": rng.choice(["full-name", "my key", "0abc", "x.y", "type"]) + "-" + f["name"]}]
            if it["kind"] == "fn" and rng.random() < 0.1 and it.get("params"):
                p = rng.choice(it["params"])
                if p["ty"]["k"] != "path" or p["ty"]["name"] not in ("AppHandle", "Channel", "State", "Window"):
                    if p["name"] not in ("app", "evt_payload") and not any(q["name"] in ("r#type", "type") for q in it["params"]):
                        p["name"] = "r#type"           # raw identifier: stripped by the parsers (C01-raw-ident-strip)


def add_memberless(case, rng):
    """a unit struct, or a struct whose only field is #[serde(skip)], used by a command parameter or a field"""
    rel = rng.choice(sorted(case["files"]))
    if rng.random() < 0.5:
        it = {"kind": "struct", "name": "Marker", "derives": ["Serialize", "Deserialize"], "serde": [], "fields": [], "unit": True}
    else:
        it = {"kind": "struct", "name": "Marker", "derives": ["Serialize", "Deserialize"], "serde": [],
              "fields": [{"name": "hidden", "ty": projgen.P("String"), "serde": [{"skip": True}], "validate": []}]}
    case["files"][rel].append(it)
    fns = [i for its in case["files"].values() for i in its if i["kind"] == "fn"]
    structs = [i for its in case["files"].values() for i in its if i["kind"] == "struct" and i["name"] != "Marker" and i.get("fields")]
    if structs and rng.random() < 0.5:
        rng.choice(structs)["fields"].append({"name": "marker", "ty": projgen.P("Vec", projgen.P("Marker")), "serde": [], "validate": []})
    rng.choice(fns)["params"].append({"name": "the_marker", "ty": projgen.P("Marker")})


def analysis_of(case, plain_text):
    """the analysis result both generators start from, as the model's s-expression"""
    emitted = re.findall(r"^export (?:interface|type) (\w+)", plain_text, re.M)
    items = {it["name"]: it for its in case["files"].values() for it in its if it["kind"] in ("struct", "enum")}
    types = []
    for n in emitted:
        it = items.get(n)
        if it is None:
            continue                                   # <Cmd>Params
        if it["kind"] == "struct":
            fs = [[next((a["rename"] for a in f.get("serde", []) if "rename" in a), f["name"]), is_opt(f["ty"]), rty_sx(f["ty"])]
                  for f in it.get("fields", []) if not any(a.get("skip") for a in f.get("serde", []))]
            types.append(["struct", n, fs])
        else:
            types.append(["enum", n, [v["name"] for v in it["variants"]]])
    cmds = []
    for rel in case["files"]:
        for it in case["files"][rel]:
            if it["kind"] != "fn":
                continue
            ps, cs = [], []
            for p in it.get("params", []):
                t = p["ty"]
                if t["k"] == "path" and t["name"] in ("AppHandle", "State", "Window", "WebviewWindow"):
                    continue
                if t["k"] == "path" and t["name"] == "Channel":
                    cs.append([camel(p["name"]), rty_sx(t["args"][0])])
                else:
                    ps.append([camel(p["name"]), is_opt(t), rty_sx(t)])
            cmds.append([pascal(it["name"]), ps, cs])
    return types, cmds


def gen_alike_project(rng):
    """commands with many parameters whose Rust types differ while one of the renderers prints them alike:
    Vec / HashSet / BTreeSet of the same element, all numeric widths, Option or not, String / &str, map key
    types; shuffled, spread over one or two files (file order then source order is the generation order)"""
    P, Ref = projgen.P, projgen.Ref
    widths = ["i8", "i16", "i32", "i64", "u8", "u16", "u32", "u64", "usize", "f32", "f64"]
    elems = [lambda: P(rng.choice(widths)), lambda: P("String"), lambda: Ref(P("str")), lambda: P("bool")]
    def one():
        e = rng.choice(elems)()
        c = rng.choice(["Vec", "HashSet", "BTreeSet", "Vec", "OptVec", "OptSet", "MapS", "MapN", "VecVec", "VecSet", "plain"])
        if c in ("Vec", "HashSet", "BTreeSet"):
            return P(c, e)
        if c == "OptVec":
            return P("Option", P("Vec", e))
        if c == "OptSet":
            return P("Option", P("HashSet", e))
        if c == "MapS":
            return P("HashMap", P("String"), e)
        if c == "MapN":
            return P(rng.choice(["HashMap", "BTreeMap"]), P(rng.choice(["i32", "u64"])), e)
        if c == "VecVec":
            return P("Vec", P("Vec", e))
        if c == "VecSet":
            return P("Vec", P("BTreeSet", e))
        return e
    files = {"src/lib.rs": []}
    if rng.random() < 0.5:
        files["src/a_first.rs"] = []
    names = rng.sample(FN_NAMES, rng.randint(2, 4))
    pn = ["ids", "offsets", "tags", "labels", "seen", "weights", "flags", "extra_keys"]
    for fn in names:
        ps = [{"name": n, "ty": one()} for n in rng.sample(pn, rng.randint(2, 5))]
        rng.choice(list(files.values())).append(
            {"kind": "fn", "name": fn, "attrs": [["tauri", "command"]], "async": rng.random() < 0.5, "vis": "pub",
             "params": ps, "ret": None, "body": []})
    files = {k: v for k, v in files.items() if v}
    return {"files": files, "config": {}}


def gen_event_project(rng):
    """events: several emit sites per event name with different payload types (typed locals, so the payload
    types are reachable only through the emit sites), payload types with nested dependencies (struct fields,
    Vec / Option / map of further project types, an enum), emit sites spread over several files"""
    P = projgen.P
    deps = ["Detail", "Tag", "Origin", "Phase"]
    pay = ["JobStarted", "JobStep", "JobFinished", "Progress", "Failure"]
    files = {"src/lib.rs": [], "src/jobs.rs": [], "src/sub/notify.rs": []}
    def put(it):
        rng.choice(list(files.values())).append(it)
    put({"kind": "enum", "name": "Phase", "derives": ["Serialize", "Deserialize"], "serde": [],
         "variants": [{"name": v, "serde": []} for v in ["Queued", "Running", "Done"]]})
    for d in deps[:3]:
        put({"kind": "struct", "name": d, "derives": ["Serialize", "Deserialize"], "serde": [],
             "fields": [{"name": "id", "ty": P("u32"), "serde": [], "validate": []},
                        {"name": "label", "ty": P("String"), "serde": [], "validate": []}]})
    used_pay = rng.sample(pay, rng.randint(3, 5))
    for n in used_pay:
        fs = [{"name": "id", "ty": P("u32"), "serde": [], "validate": []}]
        for d in rng.sample(deps, rng.randint(0, 2)):
            ctx = rng.choice(["direct", "vec", "map_value", "tuple_last", "vec_tuple"])
            fs.append({"name": d.lower() + "_of", "ty": projgen.CONTEXTS[ctx](P(d)), "serde": [], "validate": []})
        put({"kind": "struct", "name": n, "derives": ["Serialize", "Deserialize"], "serde": [], "fields": fs})
    evs = ["job-status", "progress"]
    fns = rng.sample(FN_NAMES, rng.randint(2, 4))
    for fn in fns:
        body = []
        for k in range(rng.randint(1, 3)):
            t = rng.choice(used_pay)
            ty = rng.choice([P(t), P(t), P("Vec", P(t)), P("Option", P(t))]) if rng.random() < 0.8 else P("u64")
            body.append("let v%d: %s = todo!();" % (k, projgen.rust_type(ty)))
            body.append({"emit": rng.choice(evs), "recv": "app", "payload": "v%d" % k})
        put({"kind": "fn", "name": fn, "attrs": [["tauri", "command"]], "async": False, "vis": "pub",
             "params": [{"name": "app", "ty": P("AppHandle", segs=["tauri"])}, {"name": "id", "ty": P("u32")}],
             "ret": None, "body": body})
    return {"files": {k: v for k, v in files.items() if v}, "config": {}}


def gen_cyclic_project(rng, mask=None):
    """recursive and mutually recursive types beside unrelated roots: a digraph on three structs (self-loops
    included; `mask` selects the edges, all 512 in the thorough tier), each struct independently a root through
    a command parameter, a return type, a channel or an event payload, or only reachable / unreachable"""
    P = projgen.P
    names = ["TreeNode", "Branch", "Leafy"]
    if mask is None:
        mask = rng.randrange(512)
    files = {"src/lib.rs": [], "src/model.rs": []}
    for i, n in enumerate(names):
        fs = [{"name": "id", "ty": P("u32"), "serde": [], "validate": []}]
        for j, t in enumerate(names):
            if mask >> (3 * i + j) & 1:
                ctx = rng.choice(["vec", "map_value", "vec_tuple", "tuple_last"])
                fs.append({"name": "to_" + t.lower(), "ty": projgen.CONTEXTS[ctx](P(t)), "serde": [], "validate": []})
        rng.choice(list(files.values())).append(
            {"kind": "struct", "name": n, "derives": ["Serialize", "Deserialize"], "serde": [], "fields": fs})
    files["src/model.rs"].append({"kind": "struct", "name": "Unrelated", "derives": ["Serialize", "Deserialize"], "serde": [],
                                  "fields": [{"name": "v", "ty": P("bool"), "serde": [], "validate": []}]})
    roles = [rng.choice(["param", "ret", "channel", "event", "none", "none"]) for _ in names]
    if all(r == "none" for r in roles):
        roles[rng.randrange(3)] = "param"
    fns = rng.sample(FN_NAMES, 4)
    params, body, ret = [{"name": "app", "ty": P("AppHandle", segs=["tauri"])}, {"name": "u", "ty": P("Unrelated")}], [], None
    for n, r in zip(names, roles):
        if r == "param":
            params.append({"name": "the_" + n.lower(), "ty": rng.choice([P(n), P("Vec", P(n))])})
        elif r == "channel":
            params.append({"name": "on_" + n.lower(), "ty": P("Channel", P(n))})
        elif r == "event":
            body.append("let ev_%s: %s = todo!();" % (n.lower(), n))
            body.append({"emit": "changed-" + n.lower(), "recv": "app", "payload": "ev_" + n.lower()})
        elif r == "ret":
            files["src/lib.rs"].append({"kind": "fn", "name": fns.pop(), "attrs": [["tauri", "command"]], "async": False, "vis": "pub",
                                        "params": [{"name": "key", "ty": P("String")}], "ret": P("Result", P(n), P("String")), "body": []})
    rng.choice(list(files.values())).append({"kind": "fn", "name": fns.pop(), "attrs": [["tauri", "command"]], "async": True, "vis": "pub",
                                             "params": params, "ret": None, "body": body})
    return {"files": {k: v for k, v in files.items() if v}, "config": {}}


CROSS_MAP = {"Uuid": "string", "Decimal": "number", "Flag": "boolean", "TagList": "string[]", "Meta": "Record<string, string>",
             "Anything": "unknown", "Pair": "[string, number]"}
CROSS_VALIDATE = [None, {"length": {"min": 1, "max": 10}}, {"length": {"min": 2, "message": "too short"}}, {"range": {"min": 0, "max": 5}},
                  {"range": {"max": 100, "message": "too big"}}, {"email": {}}, {"url": {}}]


def cross_fields(rng, k):
    """the cross product on ONE field: validator attribute x (un)mapped type with primitive / non-primitive target
    x Option or not x serde rename / skip / nothing"""
    P = projgen.P
    combos = []
    types = [P(n) for n in CROSS_MAP] + [P("String"), P("u32"), P("Vec", P("String")), P("Vec", P("TagList")), P("HashMap", P("String"), P("Uuid"))]
    for t in types:
        for opt in (False, True):
            for v in CROSS_VALIDATE:
                for sd in ("none", "rename", "skip"):
                    combos.append((t, opt, v, sd))
    out = []
    for i, (t, opt, v, sd) in enumerate(rng.sample(combos, k)):
        f = {"name": "f%d_%s" % (i, (t["name"] if not t["args"] else t["name"] + t["args"][-1]["name"]).lower()),
             "ty": P("Option", t) if opt else t, "serde": [], "validate": [v] if v else []}
        if sd == "rename":
            f["serde"] = [{"rename": rng.choice(["renamed", "re-named", "Re Named"]) + str(i)}]
        elif sd == "skip":
            f["serde"] = [{"skip": True}]
        out.append(f)
    return out


def gen_cross_project(rng):
    P = projgen.P
    form = {"kind": "struct", "name": "Form", "derives": ["Serialize", "Deserialize", "Validate"], "serde": [], "fields": cross_fields(rng, rng.randint(6, 10))}
    fns = [{"kind": "fn", "name": "submit", "attrs": [["tauri", "command"]], "async": True, "vis": "pub",
            "params": [{"name": "form", "ty": P("Form")}, {"name": "draft", "ty": P("bool")}], "ret": P("Result", P("Form"), P("String")), "body": []}]
    return {"files": {"src/lib.rs": [form] + fns}, "config": {"typeMappings": dict(CROSS_MAP)}}


def gen_keyed_project(rng):
    """HashMap / BTreeMap keyed by a project enum, by a mapped type, by String and by integers (controls), in struct
    fields, Option fields and command parameters: the KEY position of Record<K, V> / z.record(KSchema, V) is judged"""
    P = projgen.P
    keys = [P("Mode"), P("Mode"), P("Uuid"), P("String"), P("i32"), P("u64")]
    vals = [P("u32"), P("String"), P("Vec", P("String")), P("bool"), P("Entry")]
    def m():
        return P(rng.choice(["HashMap", "BTreeMap"]), rng.choice(keys), rng.choice(vals))
    fields = []
    for i in range(rng.randint(3, 6)):
        t = m()
        c = rng.choice(["plain", "plain", "option", "vec", "nested"])
        if c == "option":
            t = P("Option", t)
        elif c == "vec":
            t = P("Vec", t)
        elif c == "nested":
            t = P("HashMap", rng.choice(keys), t)
        fields.append({"name": "m%d" % i, "ty": t, "serde": [], "validate": []})
    items = [{"kind": "enum", "name": "Mode", "derives": ["Serialize", "Deserialize"], "serde": [],
              "variants": [{"name": v, "serde": []} for v in ["Fast", "Slow", "Off"]]},
             {"kind": "struct", "name": "Entry", "derives": ["Serialize", "Deserialize"], "serde": [],
              "fields": [{"name": "n", "ty": P("u8"), "serde": [], "validate": []}]},
             {"kind": "struct", "name": "Table", "derives": ["Serialize", "Deserialize"], "serde": [], "fields": fields},
             {"kind": "fn", "name": "save", "attrs": [["tauri", "command"]], "async": False, "vis": "pub",
              "params": [{"name": "table", "ty": P("Table")}, {"name": "by_mode", "ty": m()}, {"name": "maybe", "ty": P("Option", m())}],
              "ret": m(), "body": []}]
    return {"files": {"src/lib.rs": items}, "config": {"typeMappings": {"Uuid": "string"}}}


COLLIDING = [["get_user2", "get_user_2"], ["save", "save"], ["load_it", "loadIt"], ["fetch_all", "fetchAll", "fetch_all"], ["ping", "Ping"]]


def gen_collision_project(rng):
    """several commands whose derived TypeScript names collide (digits / underscores, the same function name in
    two files, case variants) with DIFFERENT parameter lists; every colliding command has at least one value
    parameter (a parameter schema exists for each, so the k-th declarations of the two modes correspond)"""
    P = projgen.P
    files = {"src/lib.rs": [], "src/other.rs": [], "src/sub/third.rs": []}
    order = list(files)
    tys = [P("u32"), P("String"), P("bool"), P("Vec", P("i64")), P("HashMap", P("String"), P("u8")), projgen.Tup(P("String"), P("f64"))]
    pnames = ["alpha", "beta_two", "gamma", "delta_x", "eps"]
    for group in rng.sample(COLLIDING, rng.randint(1, 3)):
        for k, fn in enumerate(group):
            ps = [{"name": n, "ty": rng.choice(tys)} for n in rng.sample(pnames, rng.randint(1, 3))]
            # the same Rust name twice must live in different files
            files[order[k % 3]].append({"kind": "fn", "name": fn, "attrs": [["tauri", "command"]], "async": False, "vis": "pub",
                                        "params": ps, "ret": None, "body": []})
    files["src/lib.rs"].append({"kind": "fn", "name": "sync_now", "attrs": [["command"]], "async": False, "vis": "pub",
                                "params": [{"name": "flag", "ty": P("bool")}], "ret": None, "body": []})
    return {"files": {k: v for k, v in files.items() if v}, "config": {}}


def add_mappings(case, rng):
    """type_mappings at project level: external names used by fields, and keys that coincide with types the
    project defines (structs and enums, reachable or not)"""
    items = [it for its in case["files"].values() for it in its]
    structs = [it for it in items if it["kind"] == "struct" and it.get("fields")]
    defined = [it["name"] for it in items if it["kind"] in ("struct", "enum")]
    m = {}
    for ext, tgt in rng.sample([("DateTime", "string"), ("Uuid", "string"), ("Decimal", "number"), ("Flag", "boolean")], rng.randint(1, 2)):
        m[ext] = tgt
        if structs:
            rng.choice(structs)["fields"].append({"name": ext.lower() + "_at", "ty": projgen.P(ext), "serde": [], "validate": []})
    for n in rng.sample(defined, min(len(defined), rng.randint(1, 2))):
        m[n] = rng.choice(["string", "number"])
    case.setdefault("config", {})["typeMappings"] = m


def project_cases(tier, rng):
    n = 120 if tier == "quick" else 1500
    cases = []
    masks = list(range(512)) if tier != "quick" else [rng.randrange(512) for _ in range(60)] + [1, 16, 256, 10, 273, 511, 84, 0]
    for i, mk in enumerate(masks):
        cases.append({"id": "cyclic-%d" % i, "project": gen_cyclic_project(rng, mk), "clean": False})
    for i in range(n // 5):
        cases.append({"id": "collide-%d" % i, "project": gen_collision_project(rng), "clean": False})
    for i in range(n // 3):
        cases.append({"id": "cross-%d" % i, "project": gen_cross_project(rng), "clean": False})
    for i in range(n // 4):
        cases.append({"id": "keyed-%d" % i, "project": gen_keyed_project(rng), "clean": False})
    for i in range(n // 4):
        c = gen_event_project(rng)
        if rng.random() < 0.3:
            add_mappings(c, rng)
        cases.append({"id": "events-%d" % i, "project": c, "clean": False})
    for i in range(n // 3):
        cases.append({"id": "alike-%d" % i, "project": gen_alike_project(rng), "clean": False})
    for i in range(n):
        clean = i % 10 < 6
        case, meta = projgen.gen_graph_project(
            rng, ntypes=rng.randint(2, 6), nfiles=rng.randint(1, 3), ncmds=rng.randint(1, 4),
            contexts=CLEAN_CONTEXTS if clean else MY_CONTEXTS, enums=not clean, decoys=True,
            events=rng.random() < 0.2, channel=rng.random() < 0.5)
        # function names without digits (type names are PascalCase of the function name)
        used = set()
        for its in case["files"].values():
            for it in its:
                if it["kind"] == "fn" and it["name"] not in FN_NAMES:
                    new = next(x for x in FN_NAMES if x not in used and not any(
                        j["kind"] == "fn" and j["name"] == x for js in case["files"].values() for j in js))
                    it["name"] = new
                if it["kind"] == "fn":
                    used.add(it["name"])
                    if clean:
                        # parameter contexts of the generator include option: keep clean projects clean
                        for p in it.get("params", []):
                            if is_opt(p["ty"]):
                                p["ty"] = p["ty"]["args"][0]
        if rng.random() < 0.3:
            add_memberless(case, rng)
        strip_clean(case, rng, clean)
        if rng.random() < 0.3:
            add_mappings(case, rng)
        if clean:
            for its in case["files"].values():
                for it in its:
                    if it["kind"] == "struct":
                        for f in it.get("fields", []):
                            f["ty"] = scrub(f["ty"])
        cases.append({"id": i, "project": case, "clean": clean})
    return cases


def scrub(t):
    """replace Option / sets / Result by Vec in a clean project (random filler fields of projgen)"""
    if t["k"] == "ref":
        return {"k": "ref", "t": scrub(t["t"])}
    if t["k"] == "tuple":
        return {"k": "tuple", "ts": [scrub(x) for x in t["ts"]]}
    name = t["name"]
    args = [scrub(a) for a in t["args"]]
    if name in ("Option", "HashSet", "BTreeSet"):
        name = "Vec"
    return dict(t, name=name, args=args)


def run_project(c):
    case = c["project"]
    with vlib.Sandbox("c10") as sb:
        projgen.write_project(sb, case)
        rn = projgen.generate(sb, case, "none", out="out-none", write=False)
        rz = projgen.generate(sb, case, "zod", out="out-zod", write=False)
    return rn, rz


def eval_projects(cases):
    runs = vlib.pmap(run_project, cases)
    sexps, idx, pre = [], [], {}
    for c, (rn, rz) in zip(cases, runs):
        if rn["status"] != 0 or rz["status"] != 0 or "types.ts" not in rn["files"] or "types.ts" not in rz["files"]:
            pre[c["id"]] = Outcome({"project": c["project"]}, False, False,
                                   detail={"impl": "generation failed", "none": rn["log"][-800:], "zod": rz["log"][-800:]})
            continue
        pt, zt = rn["files"]["types.ts"], rz["files"]["types.ts"]
        types, cmds = analysis_of(c["project"], pt)
        m = sorted(((c["project"].get("config") or {}).get("typeMappings") or {}).items())
        sexps.append(sx([[list(kv) for kv in m], types, cmds, pt, zt]))
        idx.append(c["id"])
    res = dict(zip(idx, vlib.run_runner("c10-project", sexps)))
    outs = []
    for c, (rn, rz) in zip(cases, runs):
        if c["id"] in pre:
            outs.append(pre[c["id"]])
            continue
        r = res[c["id"]]
        if r and r[0] == "runner-error":
            outs.append(Outcome({"project": c["project"]}, False, True, detail={"model": "runner-error: %s" % r[1]}))
            continue
        o = {"plain_mod": rn["files"]["types.ts"], "zod_mod": rz["files"]["types.ts"]}
        nstructs = len(re.findall(r"^export interface (?!\w+Params\b)", o["plain_mod"], re.M))
        outs.append(judge({"project": c["project"]}, o, None, None, r, [], nontrivial=nstructs > 0))
    return outs


# ----------------------------------------------------------------------------- configuration knobs (oracle only)

CASES_CFG = ["camelCase", "snake_case", "PascalCase", "SCREAMING_SNAKE_CASE", "kebab-case", "lowercase", "UPPERCASE", "SCREAMING-KEBAB-CASE"]


def knob_cases(tier, rng):
    """every configuration knob crossed with both modes on projects outside every recorded class: the model is
    not fed the naming conventions, so only the oracle (names, keys, per-key shapes of the two generated
    modules against each other) judges these; any finding is a violation"""
    n = 60 if tier == "quick" else 600
    out = []
    for i in range(n):
        if i % 3 == 0:
            case = gen_event_project(rng)
        else:
            case, _ = projgen.gen_graph_project(rng, ntypes=rng.randint(2, 5), nfiles=rng.randint(1, 3), ncmds=rng.randint(1, 3),
                                                contexts=CLEAN_CONTEXTS, enums=True, decoys=True, events=False, channel=rng.random() < 0.5)
        for its in case["files"].values():
            for it in its:
                if it["kind"] == "struct":
                    for f in it.get("fields", []):
                        f["ty"] = scrub(f["ty"])
                        if rng.random() < 0.15:
                            f["vis"] = ""                     # private field: includePrivate decides
                if it["kind"] == "fn":
                    for p in it.get("params", []):
                        p["ty"] = scrub(p["ty"])
                    if it.get("ret") is not None:
                        it["ret"] = scrub(it["ret"])
        cfg = {}
        if rng.random() < 0.7:
            cfg["defaultParameterCase"] = rng.choice(CASES_CFG)
        if rng.random() < 0.7:
            cfg["defaultFieldCase"] = rng.choice(CASES_CFG)
        if rng.random() < 0.5:
            cfg["includePrivate"] = rng.random() < 0.5
        case["config"] = cfg
        if rng.random() < 0.4:
            add_mappings(case, rng)
        out.append({"id": "knob-%d" % i, "project": case})
    return out


def eval_knobs(cases):
    runs = vlib.pmap(run_project, cases)
    sexps, idx, outs_pre = [], [], {}
    for c, (rn, rz) in zip(cases, runs):
        if rn["status"] != 0 or rz["status"] != 0 or "types.ts" not in rn["files"] or "types.ts" not in rz["files"]:
            outs_pre[c["id"]] = Outcome({"project": c["project"], "knobs": True}, False, False,
                                        detail={"impl": "generation failed", "none": rn["log"][-800:], "zod": rz["log"][-800:]})
            continue
        sexps.append(sx([rn["files"]["types.ts"], rz["files"]["types.ts"]]))
        idx.append(c["id"])
    res = dict(zip(idx, vlib.run_runner("c10-compare", sexps)))
    outs = []
    for c, (rn, rz) in zip(cases, runs):
        if c["id"] in outs_pre:
            outs.append(outs_pre[c["id"]])
            continue
        vt, vdet, vkeys = res[c["id"]]
        det = {"tags": list(vt), "per_item": vdet, "per_key": vkeys, "config": c["project"].get("config")}
        if vt:
            det["impl"] = {"plain_mod": rn["files"]["types.ts"], "zod_mod": rz["files"]["types.ts"]}
        outs.append(Outcome({"project": c["project"], "knobs": True}, True, not vt, None, det, nontrivial=True))
    return outs


# ----------------------------------------------------------------------------- entry points

def build():
    vlib.build_harness("c10")
    vlib.build_runner("c10")
    vlib.build_repo_bin()


def corpus_project_cases():
    out = []
    d = os.path.join(vlib.VERIF, "corpus", "C10")
    if os.path.isdir(d):
        for n in sorted(os.listdir(d)):
            if n.endswith(".json"):
                out.append({"id": "corpus-" + n, "project": json.load(open(os.path.join(d, n)))["project"]})
    return out


def run(rep):
    build()
    rng = random.Random(rep.seed)
    try:
        corpus = [dict(c, id="corpus-%d" % i) for i, c in enumerate(CORPUS_TYPES)]
        for c in corpus:
            c.pop("kf", None)
        rep.add("corpus-types", eval_types(corpus), sample_count=1)
        cp = corpus_project_cases()
        if cp:
            rep.add("corpus-projects", eval_projects(cp), sample_count=1)
        tc = type_cases(rep.tier, rng)
        outs = eval_types(tc)
        rep.add("types", outs)
        mouts = eval_malformed(malformed_cases(rep.tier, rng))
        rep.add("malformed", mouts)
        pc = project_cases(rep.tier, rng)
        pouts = eval_projects(pc)
        rep.add("projects", pouts)
        kouts = eval_knobs(knob_cases(rep.tier, rng))
        rep.add("knobs", kouts)
        depth = {}
        for c in tc:
            d = type_depth(c["ts"])
            depth[d] = depth.get(d, 0) + 1
        rep.extra["schema_text_level"] = dict(SCHEMA_TEXT_STATS)      # schema constants whose initialiser text was compared with the model
        rep.extra["distribution"] = {
            "type_cases": len(tc), "type_depth_histogram": depth,
            "types_outside_every_class": sum(1 for o in outs if o.ok),
            "types_inside_a_class": sum(1 for o in outs if o.kf),
            "with_enum": sum(1 for c in tc if c["enum"]), "with_memberless_struct": sum(1 for c in tc if c.get("unit")), "with_mappings": sum(1 for c in tc if c["mappings"]),
            "flag_structure_mismatch": sum(1 for c in tc if c["opt"] != (c["ts"][0] == "opt")),
            "malformed_cases": len(mouts), "malformed_outside_domain": sum(1 for o in mouts if o.detail.get("in_domain") != "true"),
            "knob_projects": len(kouts), "event_projects": sum(1 for c in pc if str(c["id"]).startswith("events")),
            "projects_with_mappings": sum(1 for c in pc if (c["project"].get("config") or {}).get("typeMappings")),
            "projects": len(pc), "projects_outside_every_class": sum(1 for o in pouts if o.ok),
            "projects_inside_a_class": sum(1 for o in pouts if o.kf),
        }
    finally:
        shutil.rmtree(SCRATCH, ignore_errors=True)


def replay(rep, payload):
    build()
    items = payload.get("disagreeing_cases") or [payload]
    try:
        for i, it in enumerate(items):
            c = dict(it["case"])
            c["id"] = "replay-%d" % i
            if "project" in c and c.get("knobs"):
                rep.add("knobs", eval_knobs([c]))
            elif "project" in c:
                rep.add("projects", eval_projects([c]))
            elif c.get("malformed"):
                rep.add("malformed", eval_malformed([c]))
            else:
                rep.add("types", eval_types([c]))
    finally:
        shutil.rmtree(SCRATCH, ignore_errors=True)
