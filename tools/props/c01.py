"""C01 - every generated file is syntactically valid TypeScript.

Oracle (extracted from Coq, Spec/C01Wf.v): each file the real CLI wrote parses with the
specification parser (Spec/TsModule.v) and satisfies wf_module_b. Correspondence: the lexed real
file equals, token for token, the prefix tokens followed by a sequence of items of the chunk model
(Model/C01Emit.v: template text with typed holes), each required item exactly once, each candidate
type declaration at most once. Known classes = classes of bad holes (bad_class, extracted)."""
import json
import os
import random
import sys

# type expressions nest up to 200 levels: the recursive encoders (projgen printers, vlib.sx, json) need room
sys.setrecursionlimit(max(sys.getrecursionlimit(), 20000))

from tools import vlib, projgen
from tools.vlib import Outcome, sx
from tools.props import c01_gen

MANIFEST = {
    "level_text": "Coq theorems (Properties/C01.v, no axioms) about a chunk model of the generator (template text with typed holes, every .tera template of both modes transcribed; naming, serde scanners, unraw identifiers, type printer / repaired top-level-comma parser / renderers / repaired array prefixing, Zod schema builder, the ts_key filter): for EVERY byte string the key printed by ts_key is an ECMAScript identifier name (C01_rust_ident_is_ident) or a well-formed quoted literal (C01_key_chunk_ok, C01_member_access_ok), listener names are legal identifiers for every event name, escape_js output is a well-formed literal body for every byte string (validator messages, enum literals), command / type names are legal outside the remaining recorded classes (reserved words, digit-first), and, at TEXT level, the three plain-mode files as a whole: for every project whose declared names are binding names and whose types have identifier leaves and nesting within the parser budget, the text of types.ts (channel import, params interfaces, interfaces, enum aliases), of commands.ts (imports, wrapper functions with their bodies) and of index.ts - the prefix followed by any selection of the items in any order - lexes chunk by chunk to the token rendering, is accepted by parse_module and is well formed (C01_plain_types_text_ok, C01_plain_commands_text_ok, C01_index_text_ok); the run-time oracle wf_module_b is proved equivalent to a Prop-level specification (C01_wf_module_reflect). Tied to the repository on every run: the real CLI generates both modes for adversarial projects; every written file must pass the extracted oracle (parse_module + wf_module_b incl. a statement grammar for function bodies) and equal the model's token stream token for token.",
    "design_ref": "DESIGN.md section 5 C01, section 12",
    "level_note": "Proved for all inputs: key printing (ts_key) and member access, listener names, escape_js literals, command / type names outside the remaining classes; the type-hole theorems - token level C01_type_hole_render (every TypeStructure with identifier leaves and nesting < 64 renders to tokens that the specification type parser consumes up to any stop token, with a well-formed result) and TEXT level C01_type_hole_lex / C01_type_hole_text (the specification lexer turns the rendered text into exactly those tokens in front of every admissible continuation, so the boolean hole predicate hole_ok HType holds; built on Proofs/LexFacts.v); token-level skeleton theorems with all hole premises discharged for the plain interface template (C01_interface_tokens_ok), the params interface incl. Channel<T> members and the index signature (C01_params_interface_tokens_ok), the enum alias (C01_enum_alias_ok) and the whole of index.ts (C01_index_tokens_ok). Round 7: the plain-mode command wrapper at token level, signature AND body through the statement grammar (C01_skeleton_wrapper; on the model with all hole premises discharged C01_wrapper_tokens_ok); the text function add_types_prefix applied to any rendered type with identifier leaves is the structural prefixing and lexes to its token rendering (C01_prefix_text_structural, C01_ret_text_lex, C01_type_hole_prefixed_render); lexing of name / key / literal holes for every good hole in front of every admissible continuation - literal holes for every well-formed body incl. escapes (C01_str_hole_lex, C01_name_key_hole_lex, C01_hole_chunk_lex) - and the chain rule C01_lex_compositional_chain; TEXT level for whole items and files: C01_interface_text_ok, C01_enum_item_text_ok, C01_params_item_text_ok, C01_wrapper_item_text_ok, C01_items_text_ok (any sequence of good items is an accepted well-formed module), and C01_skeleton_full_statement for the plain-mode types.ts, commands.ts and index.ts with the hole premises replaced by budget predicates (C01_plain_types_text_ok, C01_plain_commands_text_ok, C01_index_text_ok); reflection: str_body_ok = the inductive literal grammar StrBody, tok_ok, item_ok and wf_module_b = the Prop-level WfModule of Spec/C01WfProp.v (C01_str_body_reflect, C01_tok_ok_reflect, C01_item_ok_reflect, C01_wf_module_reflect; ty_ok = the inductive TyOk, C01_ty_ok_reflect; ex_ok / body_ok have no Prop-level counterpart). Still partial (C01_skeleton_remaining_statement): the Zod item templates and Zod wrappers (zod-mode types.ts / commands.ts) and the listeners of events.ts have no skeleton theorem - for those the run-time oracle and the token-for-token correspondence decide every generated case. Both full statements as originally stated are REFUTED inside Coq: C01_lex_compositional_general_refuted (two good name holes side by side merge; the provable form is the chain rule, proved for all chunks of the three plain-mode files and per hole class incl. numeric keys C01_key_hole_lex_all; Zod expression holes have no lexing lemma) and C01_skeleton_hole_premise_refuted (hole_ok of every hole is not enough: a type_mappings target ending in a line comment is a good type hole on its own and swallows the rest of the wrapper line; the theorems use budget predicates instead and the remainder is restated with a no-comment premise). The budget predicates exclude the recorded classes (reserved-word / digit-first names, path-qualified leaves). The parsed type is proved well formed, not proved to be the intended type (C05). Non-ASCII identifier characters are judged by an explicit ID_Start / ID_Continue table (ranges in Spec/C01Wf.v). The TypeScript grammar subset (Spec/TsLex.v, TsModule.v, C01Wf.v) is a specification written from the language definition; no TypeScript compiler exists in the sandbox. Validator attributes and the event list are observed from the real analysis (public API) and fed to the model (C11/C12's subject).",
    "technique": "Rocq/Coq proof over hand-written model + correspondence check (extracted OCaml oracle and model vs real CLI binary and Rust harness)"
}

RULE = ("adversarial projects (tools/props/c01_gen.py over tools/projgen.py): 1-4 types (structs / unit-variant enums) with serde rename / rename_all (8 conventions) / skip, "
        "validators with hostile messages, README types nested to depth 3 at field / parameter / return / channel sites, 1-4 commands, channels, events, "
        "non-ASCII names (event names over every category char::is_alphanumeric accepts, renames and Rust identifiers in several scripts), output-directory states (fresh / stale files under every generated name / a larger earlier generation in the other mode), type mappings, 8 x 8 naming-case settings (kebab cases give quoted keys and bracket member access), raw identifiers, comma-carrying Result / tuple shapes, 1-3 files, repeated event names (one listener each), untyped payload variables incl. raw identifiers, skipped variants (any, also all of them) and enums without variants, ipc::Channel; each project generated by the real CLI in both modes; one evaluation = one written file "
        "(types.ts, commands.ts, events.ts, index.ts) judged by the extracted oracle and compared token for token with the model. Non-trivial = file has at least one hole; "
        "distinct = distinct (project, cfg, mode, file)")
TRUSTED = ["Spec/TsLex.v + Spec/TsModule.v + Spec/C01Wf.v: specification of the TypeScript subset (lexer, item/type/expression grammar, statement grammar for bodies, reserved words, literal well-formedness); not validated against tsc (none available)",
           "python: projgen Rust printer, c01_gen generators, sandboxed CLI runs; harness/src/bin/c01.rs (validator attributes, events through the public API)"]
ASSUMPTIONS = ["a project is 'accepted' when the CLI exits 0; runs that exit non-zero or panic are outside C01 (C15/C17 judge them)",
               "which candidate types are declared in types.ts is C07's subject: the correspondence accepts any subset of the model's candidate declarations, each at most once"]

FILES = ("types.ts", "commands.ts", "events.ts", "index.ts")
KF_ORDER = ["C01-digit-first", "C01-reserved-fn", "C01-path-leak"]


# ---------------------------------------------------------------- model input
def is_cmd(it):
    return any((not isinstance(a, str)) and list(a) in (["tauri", "command"], ["command"]) for a in it.get("attrs", []))


def vattr_sx(va):
    if va is None:
        return None

    def bound(b):
        if b is None:
            return None
        return [[[b["min"]] if b.get("min") is not None else None,
                 [b["max"]] if b.get("max") is not None else None,
                 [b["message"]] if b.get("message") is not None else None]]
    return [[bool(va["email"]), bool(va["url"]), bound(va.get("length")), bound(va.get("range"))]]


def model_inputs(case, analysis):
    structs, cmds = [], []
    proj = case["project"]
    for rel in sorted(proj["files"]):
        for it in proj["files"][rel]:
            k = it["kind"]
            if k in ("struct", "enum"):
                if not any(("Serialize" in d) or ("Deserialize" in d) for d in it.get("derives", [])):
                    continue
                if k == "struct":
                    fields = [[f["name"], projgen.sx_type(f["ty"]), projgen.sx_serde(f.get("serde")),
                               vattr_sx(analysis["validators"].get("%s.%s" % (it["name"], f["name"])))]
                              for f in ([] if it.get("unit") else it.get("fields", []))]
                    structs.append([it["name"], False, projgen.sx_serde(it.get("serde")), fields])
                else:
                    fields = [[v["name"], ["tuple", []], projgen.sx_serde(v.get("serde")), None] for v in it["variants"]]
                    structs.append([it["name"], True, projgen.sx_serde(it.get("serde")), fields])
            elif k == "fn" and is_cmd(it):
                cmds.append([it["name"], [], [[p["name"], projgen.sx_type(p["ty"])] for p in it.get("params", [])],
                             [projgen.sx_type(it["ret"])] if it.get("ret") is not None else None])
    events = [[e[0], e[1]] for e in analysis["events"]]
    return structs, cmds, events


def runner_case(case, mode, analysis, files):
    cfg = case["cfg"]
    structs, cmds, events = model_inputs(case, analysis)
    return sx([mode == "zod", cfg["param_case"], cfg["field_case"], [[k, v] for k, v in sorted(cfg["mappings"].items())],
               structs, cmds, events, [[n, files[n]] for n in FILES if n in files]])


# ---------------------------------------------------------------- implementation side
STALE = ("// stale file left by an earlier run\n" * 1500) + "export const STALE_TAIL_OF_AN_EARLIER_RUN = 1;\n"


def _generate(sb, case, mode, under):
    sb.write_files(projgen.render_project(case["project"]), under=under)
    cfg = case["cfg"]
    conf = {"project_path": under, "output_path": "out", "validation_library": mode,
            "default_parameter_case": cfg["param_case"], "default_field_case": cfg["field_case"]}
    if cfg["mappings"]:
        conf["type_mappings"] = cfg["mappings"]
    sb.write("cfg-%s.json" % under, json.dumps(conf))
    return sb.cli(["generate", "-c", "cfg-%s.json" % under, "--force"])


def run_cli(case, mode, pre=None):
    """pre = None: fresh output directory; "stale": the directory already holds a long file under every generated
    name; "earlier": a different, larger project was generated into it first, in the other mode.
    The files judged are index.ts and every module index.ts re-exports, as they are after the LAST run."""
    with vlib.Sandbox("c01") as sb:
        if pre == "stale":
            for n in FILES:
                sb.write(os.path.join("out", n), STALE)
        elif pre == "earlier":
            st0, log0 = _generate(sb, c01_gen.big_project(), "zod" if mode == "none" else "none", "earlier")
            if st0 != 0:
                return {"status": st0, "log": "earlier generation failed: " + log0[-800:], "files": {}}
        status, log = _generate(sb, case, mode, "proj")
        files = {}
        od = sb.path("out")
        if os.path.isdir(od):
            for n in sorted(os.listdir(od)):
                p = os.path.join(od, n)
                if os.path.isfile(p) and n.endswith(".ts"):
                    files[n] = open(p, "rb").read().decode("utf-8", "replace")
        if pre and "index.ts" in files:
            import re
            keep = {"index.ts"} | {m + ".ts" for m in re.findall(r"export \* from '\./(\w+)'", files["index.ts"])}
            keep |= {"types.ts", "commands.ts"}
            files = {n: t for n, t in files.items() if n in keep}
        return {"status": status, "log": log[-1500:], "files": files}


def parse_result(r):
    """runner 'files' result for one file -> dict"""
    ok, problems, corr, left, missing, bad, lexcomp, nonempty, holes = r
    return {"ok": ok == "true", "problems": problems, "corr": corr == "true", "leftover": left, "missing": missing,
            "bad_holes": [{"class": b[0], "hole": b[1], "text": b[2]} for b in bad], "lex_compositional": lexcomp == "true",
            "holes": list(holes), "nonempty": nonempty == "nonempty"}


def kf_of(res):
    if res["ok"]:
        return None
    classes = [b["class"] for b in res["bad_holes"]]
    if not classes or any(c == "" for c in classes):
        return None
    for k in KF_ORDER:
        if k in classes:
            return k
    return None


def evaluate(rep, cases, stream, stats):
    """cases: list of {"project", "cfg", ...}. Both modes, every written file."""
    hcases = [{"id": i, "files": projgen.render_project(c["project"])} for i, c in enumerate(cases)]
    analyses = vlib.run_harness("c01-analyze", hcases, per_case_timeout=30)
    jobs = [(i, mode) for i in range(len(cases)) for mode in ("none", "zod")]
    gens = vlib.pmap(lambda j: run_cli(cases[j[0]], j[1], cases[j[0]].get("pre")), jobs)
    sexps, index = [], []
    outs = []
    for (i, mode), g in zip(jobs, gens):
        a = analyses[i]
        if g["status"] != 0 or "panic" in a or a.get("errors"):
            stats["rejected_runs"] = stats.get("rejected_runs", 0) + 1
            why = "cli-exit-%s" % g["status"] if g["status"] != 0 else "harness"
            stats.setdefault("rejected_why", {}).setdefault(why, 0)
            stats["rejected_why"][why] += 1
            continue
        if not all(n in g["files"] for n in ("types.ts", "commands.ts", "index.ts")):
            # the tool reported success but did not write its files: nothing to parse; report as correspondence failure
            outs.append(Outcome({"project": cases[i]["project"], "cfg": cases[i]["cfg"], "pre": cases[i].get("pre"), "mode": mode, "file": "<missing>"}, False, True,
                                detail={"written": sorted(g["files"]), "log": g["log"]}))
            continue
        sexps.append(runner_case(cases[i], mode, a, g["files"]))
        index.append((i, mode, g, a))
    results = vlib.run_runner("c01-files", sexps)
    for (i, mode, g, a), res in zip(index, results):
        if res and res[0] == "runner-error":
            raise vlib.BuildError("runner: %s" % res)
        expect_events = bool(a["events"])
        for name, r in res:
            pr = parse_result(r)
            corr = pr["corr"]
            if name == "events.ts" and not expect_events:
                corr = False
            kf = kf_of(pr)
            case = {"project": cases[i]["project"], "cfg": cases[i]["cfg"], "pre": cases[i].get("pre"), "mode": mode, "file": name}
            det = {"oracle_ok": pr["ok"], "problems": pr["problems"][:6], "corr": corr, "bad_holes": pr["bad_holes"][:6],
                   "lex_compositional": pr["lex_compositional"], "tags": cases[i].get("tags"), "output_directory": cases[i].get("pre") or "fresh"}
            if not corr:
                det["leftover_real_tokens"] = pr["leftover"]
                det["missing_model_items"] = pr["missing"]
            if not pr["ok"] or not corr:
                det["file_text"] = g["files"][name][-3000:]
            stats["files_compared"][mode + "/" + name] = stats["files_compared"].get(mode + "/" + name, 0) + 1
            for h in pr["holes"]:
                stats["holes"][h] = stats["holes"].get(h, 0) + 1
            if not pr["lex_compositional"]:
                stats["lex_noncompositional"] = stats.get("lex_noncompositional", 0) + 1
            if pr["ok"] and pr["bad_holes"]:
                stats["bad_hole_but_accepted"] = stats.get("bad_hole_but_accepted", 0) + 1
            if pr["ok"] is False and kf is None:
                pass
            stats["outside_classes" if not pr["bad_holes"] else "inside_classes"] += 1
            outs.append(Outcome(case, corr, pr["ok"], kf, det, nontrivial=bool(pr["holes"])))
        if expect_events and "events.ts" not in g["files"]:
            outs.append(Outcome({"project": cases[i]["project"], "cfg": cases[i]["cfg"], "pre": cases[i].get("pre"), "mode": mode, "file": "events.ts"}, False, True,
                                detail={"why": "analysis found events but events.ts was not written"}))
        for t in cases[i].get("tags") or ["clean"]:
            stats["tags"][t] = stats["tags"].get(t, 0) + 1
        k = cases[i].get("pre") or "fresh"
        ods = stats.setdefault("output_directory_state", {})
        ods[k] = ods.get(k, 0) + 1
    rep.add(stream, outs)
    return outs


def new_stats():
    return {"files_compared": {}, "holes": {}, "tags": {}, "outside_classes": 0, "inside_classes": 0}


def build_all():
    vlib.build_repo_bin()
    vlib.build_harness("c01")
    vlib.build_runner("c01")


def corpus_cases():
    out = []
    for name, c in sorted(c01_gen.witnesses().items()):
        c = dict(c)
        c["tags"] = ["witness:" + name]
        out.append(c)
    # output-directory state: two small regression projects regenerated over a larger earlier generation / stale files
    for name in ("C01-bare-key", "regression:unicode-events"):
        for pre in ("stale", "earlier"):
            c = dict(c01_gen.witnesses()[name])
            c["tags"] = ["dirstate:%s:%s" % (pre, name)]
            c["pre"] = pre
            out.append(c)
    cdir = os.path.join(vlib.VERIF, "corpus", "C01")
    if os.path.isdir(cdir):
        for n in sorted(os.listdir(cdir)):
            if n.endswith(".json"):
                c = json.load(open(os.path.join(cdir, n)))
                c.setdefault("tags", ["corpus:" + n])
                out.append(c)
    return out


def run(rep):
    build_all()
    rng = random.Random(rep.seed)
    stats = new_stats()
    evaluate(rep, corpus_cases(), "corpus", stats)
    n = 320 if rep.tier == "quick" else 4000
    cases = []
    for i in range(n):
        profile = "clean" if rng.random() < 0.6 else "adversarial"
        c = c01_gen.gen_case(rng, profile, i)
        c["pre"] = rng.choice([None] * 5 + ["stale"] * 3 + ["earlier"] * 2)
        cases.append(c)
    # graph projects of the shared generator (the end-to-end projects of C05/C07/C12)
    m = 40 if rep.tier == "quick" else 500
    for i in range(m):
        pc, meta = projgen.gen_graph_project(rng, ntypes=rng.randint(2, 6), nfiles=rng.randint(1, 3), ncmds=rng.randint(1, 4),
                                             events=True, channel=True, contexts=list(projgen.CONTEXTS))
        cases.append({"project": pc, "cfg": dict(c01_gen.DEFAULT_CFG), "tags": ["projgen-graph"], "profile": "graph"})
    for k in range(0, len(cases), 200):
        evaluate(rep, cases[k:k + 200], "generated", stats)
    rep.extra["distribution"] = stats
    rep.extra["files_compared_token_for_token"] = "all four files in both modes (types.ts, commands.ts, events.ts, index.ts)"


def replay(rep, payload):
    build_all()
    items = payload.get("disagreeing_cases") or [payload]
    stats = new_stats()
    seen = set()
    cases = []
    for it in items:
        c = it["case"]
        key = json.dumps([c["project"], c["cfg"], c.get("pre")], sort_keys=True)
        if key in seen:
            continue
        seen.add(key)
        cases.append({"project": c["project"], "cfg": c["cfg"], "pre": c.get("pre"), "tags": ["replay"]})
    evaluate(rep, cases, "replay", stats)
    rep.extra["distribution"] = stats
