"""C06 through every way a configuration reaches the generator: the wire-name oracle applied to what each
route emits, with the default_field_case the route is SUPPOSED to carry (what was written into the
configuration source, or the default when the source does not mention it).
  init            `init` with its defaults in a project root holding src-tauri/tauri.conf.json: writes the
                  plugins.typegen section and runs its own first generation
  init-generate   the same, followed by a plain `generate --force` in that root: the configuration is READ BACK
                  from what the tool itself wrote
  init-zod        init -v zod, then generate --force (Zod mode keys)
  init-file       init -o typegen.json (standalone file written by save_to_file), then generate -c typegen.json
  cli-c           generate -c cfg.json (standalone format, snake_case keys)
  cli-cwd / cli-src-tauri / cli-parent   generate with tauri.conf.json in ./, ./src-tauri/, ../
  lib-tauri       GenerateConfig::from_tauri_config + generate_from_config
  build-tauri / build-typegen   BuildSystem::generate_at_build_time() with tauri.conf.json / typegen.json
(the library API with an explicit GenerateConfig is the ordinary harness stream). There is no command-line
flag for the two case settings."""
import json
import os
import subprocess

from tools import vlib
from tools.props import c06_gen as gen

INIT_ROUTES = ["init", "init-generate", "init-zod", "init-file"]
CONF_ROUTES = ["cli-c", "cli-cwd", "cli-src-tauri", "cli-parent", "lib-tauri", "build-tauri", "build-typegen"]


def harness_route(payload):
    r = subprocess.run([vlib.harness_bin("c06"), "route"], input=json.dumps(payload) + "\n", stdout=subprocess.PIPE,
                       stderr=subprocess.DEVNULL, text=True, timeout=120, env=vlib.ENV)
    lines = [l for l in r.stdout.splitlines() if l.startswith("{")]
    return json.loads(lines[-1]) if lines else {"error": "driver died (exit %s)" % r.returncode}


def run_route(c):
    """returns {"mode": "plain"|"zod", "types": text | None, "error": ..}"""
    route, dfc = c["route"], c.get("dfc_written")
    mode = "zod" if route == "init-zod" else "plain"
    lib = "zod" if mode == "zod" else "none"
    with vlib.Sandbox("c06r") as sb:
        sb.write("root/src-tauri/src/lib.rs", gen.rust_source(c))
        src = sb.path("root/src-tauri/src")
        out = sb.path("root/src/generated")
        h = None
        r = None
        if route in INIT_ROUTES:
            sb.write("root/src-tauri/tauri.conf.json", json.dumps({"productName": "demo", "plugins": {"other": {"keep": 1}}}))
            if route == "init-file":
                r = sb.cli(["init", "-o", "typegen.json"], cwd=sb.path("root"))
                if r[0] == 0:
                    r = sb.cli(["generate", "-c", "typegen.json", "--force"], cwd=sb.path("root"))
            else:
                r = sb.cli(["init"] + (["-v", "zod"] if mode == "zod" else []), cwd=sb.path("root"))
                if r[0] == 0 and route != "init":
                    r = sb.cli(["generate", "--force"], cwd=sb.path("root"))
        else:
            snake = {"project_path": src, "output_path": out, "validation_library": lib, "force": True}
            camel = {"projectPath": src, "outputPath": out, "validationLibrary": lib, "force": True}
            if dfc is not None:
                snake["default_field_case"] = dfc
                camel["defaultFieldCase"] = dfc
                # the parameter setting takes a DIFFERENT value so that the two cannot be mixed up unnoticed
                other = "snake_case" if dfc != "snake_case" else "PascalCase"
                snake["default_parameter_case"] = other
                camel["defaultParameterCase"] = other
            tconf = json.dumps({"productName": "demo", "plugins": {"typegen": camel}})
            if route == "cli-c":
                sb.write("cfg.json", json.dumps(snake))
                r = sb.cli(["generate", "-c", sb.path("cfg.json"), "--force"], cwd=sb.path("root"))
            elif route == "cli-cwd":
                sb.write("root/tauri.conf.json", tconf)
                r = sb.cli(["generate", "--force"], cwd=sb.path("root"))
            elif route == "cli-src-tauri":
                sb.write("root/src-tauri/tauri.conf.json", tconf)
                r = sb.cli(["generate", "--force"], cwd=sb.path("root"))
            elif route == "cli-parent":
                sb.write("root/tauri.conf.json", tconf)
                r = sb.cli(["generate", "--force"], cwd=sb.path("root/src-tauri"))
            elif route == "lib-tauri":
                sb.write("root/tauri.conf.json", tconf)
                h = harness_route({"id": 0, "cwd": sb.path("root"), "kind": "lib-tauri", "conf": sb.path("root/tauri.conf.json")})
            elif route == "build-tauri":
                sb.write("root/tauri.conf.json", tconf)
                h = harness_route({"id": 0, "cwd": sb.path("root/src-tauri"), "kind": "build"})
            elif route == "build-typegen":
                sb.write("root/typegen.json", json.dumps(snake))
                h = harness_route({"id": 0, "cwd": sb.path("root/src-tauri"), "kind": "build"})
            else:
                raise vlib.BuildError("unknown route " + route)
        if r is not None:
            rc, text = r
            h = {"error": text[-400:]} if rc != 0 else {"ok": True}
        res = {"mode": mode, "types": None}
        if "error" in h or "panic" in h:
            res["error"] = h.get("error") or h.get("panic")
            return res
        p = os.path.join(out, "types.ts")
        res["types"] = open(p, encoding="utf-8").read() if os.path.exists(p) else None
        written = sb.path("root/src-tauri/tauri.conf.json")
        if route in INIT_ROUTES and os.path.exists(written):
            try:
                res["section_written"] = json.load(open(written)).get("plugins", {}).get("typegen")
            except ValueError:
                pass
        return res


def route_cases(thorough):
    """a few containers whose names depend on the field case x every route x the setting"""
    fields = lambda ids: [{"ident": i, "attrs": []} for i in ids]
    conts = [
        {"kind": "struct", "cattrs": [], "items": fields(["user_id", "display_name", "a"])},
        {"kind": "struct", "cattrs": [], "items": [{"ident": "user_id", "attrs": [[["rename", "uid"]]]}, {"ident": "first_last_name", "attrs": [[["other", "default"]]]},
                                                    {"ident": "tmp_val", "attrs": [[["skip"]]]}]},
        {"kind": "struct", "cattrs": [[["ra", "kebab-case"]]], "items": fields(["user_id", "display_name"])},
        {"kind": "enum", "cattrs": [], "items": [{"ident": "TaskStarted", "attrs": [], "shape": "tuple"}, {"ident": "Idle", "attrs": [], "shape": "unit"}]},
    ]
    settings = [None, "camelCase", "snake_case", "PascalCase"] + (["SCREAMING_SNAKE_CASE", "kebab-case", "bogusCase"] if thorough else ["bogusCase"])
    cases = []
    for c in conts:
        for route in INIT_ROUTES:
            cases.append(dict(c, route=route, dfc_written=None, dfc="snake_case"))
        for route in CONF_ROUTES:
            for s in settings:
                # the setting the route is supposed to carry: what was written, the default when absent
                cases.append(dict(c, route=route, dfc_written=s, dfc=s if s is not None else "snake_case"))
    # a container rule must win over the configured case whatever it is (seed C06-13): structs WITH rename_all,
    # the setting coming from a -c file and from tauri.conf.json
    ruled = [{"kind": "struct", "cattrs": [[["ra", "snake_case"]]], "items": fields(["user_id", "display_name", "a"])},
             {"kind": "struct", "cattrs": [[["ra", "camelCase"]]], "items": fields(["user_id", "display_name"])}]
    for c in ruled:
        for route in ("cli-c", "cli-cwd") + (("build-tauri", "build-typegen") if thorough else ()):
            for s in settings:
                cases.append(dict(c, route=route, dfc_written=s, dfc=s if s is not None else "snake_case"))
    return cases


# ---------------------------------------------------------------- multi-run histories into one output directory
def run_history(h):
    """h = {"versions": [container, ...], "route": "cli" | "build", "mode": "plain" | "zod"}: every version is
    written over src/lib.rs in turn and followed by an UNFORCED run into the same output directory (the cache
    decides whether anything is written). Returns the types.ts text found after each run."""
    lib = "zod" if h["mode"] == "zod" else "none"
    steps = []
    with vlib.Sandbox("c06h") as sb:
        src = sb.path("root/src-tauri/src")
        out = sb.path("root/src/generated")
        section = {"projectPath": src, "outputPath": out, "validationLibrary": lib}
        if h.get("dfc", "snake_case") != "snake_case":
            section["defaultFieldCase"] = h["dfc"]
        sb.write("root/tauri.conf.json", json.dumps({"productName": "demo", "plugins": {"typegen": section}}))
        for v in h["versions"]:
            sb.write("root/src-tauri/src/lib.rs", gen.rust_source(v))
            if h["route"] == "cli":
                rc, text = sb.cli(["generate"], cwd=sb.path("root"))
                r = {"ok": True, "said": "up to date" if "up to date" in text.lower() else "generated"} if rc == 0 else {"error": text[-300:]}
            else:
                r = harness_route({"id": 0, "cwd": sb.path("root/src-tauri"), "kind": "build"})
            p = os.path.join(out, "types.ts")
            r["types"] = open(p, encoding="utf-8").read() if os.path.exists(p) else None
            steps.append(r)
    return steps


def history_cases(thorough):
    """edits of serde attributes between runs; history v1, v2, v1 (and v2, v1, v2), both modes, CLI and build route"""
    F = lambda ident, attrs=None, **kw: dict({"ident": ident, "attrs": attrs or []}, **kw)
    S = lambda cattrs, items: {"kind": "struct", "cattrs": cattrs, "items": items, "dfc": "snake_case"}
    E = lambda cattrs, items: {"kind": "enum", "cattrs": cattrs, "items": items, "dfc": "snake_case"}
    ra = lambda r: [[["ra", r]]]
    pairs = [
        # a rename equal to the item's own identifier, under a container rule (seed C06-10)
        (S(ra("camelCase"), [F("user_id"), F("a")]), S(ra("camelCase"), [F("user_id", [[["rename", "user_id"]]]), F("a")])),
        (E(ra("snake_case"), [F("TaskStarted", shape="tuple"), F("Idle")]), E(ra("snake_case"), [F("TaskStarted", [[["rename", "TaskStarted"]]], shape="tuple"), F("Idle")])),
        (S(ra("SCREAMING-KEBAB-CASE"), [F("first_last_name")]), S(ra("SCREAMING-KEBAB-CASE"), [F("first_last_name", [[["renamep", [["ser", "first_last_name"]]]]])])),
        # rename_all added / removed / changed / respelled
        (S([], [F("user_id"), F("display_name")]), S(ra("camelCase"), [F("user_id"), F("display_name")])),
        (S(ra("camelCase"), [F("user_id")]), S(ra("PascalCase"), [F("user_id")])),
        (E(ra("lowercase"), [F("InProgress"), F("Done")]), E([], [F("InProgress"), F("Done")])),
        (S(ra("kebab-case"), [F("user_id")]), S([[["rap", [["ser", "camelCase"], ["de", "kebab-case"]]]]], [F("user_id")])),
        # skip toggled, rename added / changed, on fields and variants
        (S([], [F("user_id"), F("secret")]), S([], [F("user_id"), F("secret", [[["skip"]]])])),
        (E([], [F("Active"), F("Gone")]), E([], [F("Active"), F("Gone", [[["skip"]]])])),
        (S([], [F("user_id", [[["rename", "uid"]]])]), S([], [F("user_id", [[["rename", "id"]]])])),
        (E(ra("UPPERCASE"), [F("Active"), F("Done")]), E(ra("UPPERCASE"), [F("Active"), F("Done", [[["rename", "fin"]]])])),
        (S([], [F("user_id", [[["other", "default"]]])]), S([], [F("user_id", [[["other", "default"]], [["rename", "userId"]]])])),
    ]
    cases = []
    for k, (v1, v2) in enumerate(pairs):
        for route in ("cli", "build"):
            for mode in ("plain", "zod"):
                if not thorough and (k + (route == "build") + (mode == "zod")) % 2 and k > 2:
                    continue
                cases.append({"versions": [v1, v2, v1], "route": route, "mode": mode})
                if thorough or k < 3:
                    cases.append({"versions": [v2, v1, v2], "route": route, "mode": mode})
    # a non-identity defaultFieldCase and a rename equal to the identifier
    v1, v2 = S([], [F("user_id")]), S([], [F("user_id", [[["rename", "user_id"]]])])
    cases.append({"versions": [v1, v2, v1], "route": "cli", "mode": "plain", "dfc": "camelCase"})
    return cases
