"""C06 through every way a configuration reaches the generator: the wire-name oracle applied to what each
route emits, with the default_field_case the route is SUPPOSED to carry (what was written into the
configuration source, or the default when the source does not mention it).
  init            `init` with its defaults in a project root holding src-tauri/tauri.conf.json: writes the
                  plugins.typegen section and runs its own first generation
  init-generate   the same, followed by a plain `generate --force` in that root: the configuration is READ BACK
                  from what the tool itself wrote
  init-zod        init -v zod, then generate --force (Zod mode keys)
  init-file       init -o typegen.json (standalone file written by save_to_file), then generate -c typegen.json
  cli-c           generate -c cfg.json (standalone format, snake_case keys)
  cli-cwd / cli-src-tauri / cli-parent   generate with tauri.conf.json in ./, ./src-tauri/, ../
  lib-tauri       GenerateConfig::from_tauri_config + generate_from_config
  build-tauri / build-typegen   BuildSystem::generate_at_build_time() with tauri.conf.json / typegen.json
(the library API with an explicit GenerateConfig is the ordinary harness stream). There is no command-line
flag for the two case settings."""
import json
import os
import subprocess

from tools import vlib
from tools.props import c06_gen as gen

INIT_ROUTES = ["init", "init-generate", "init-zod", "init-file"]
CONF_ROUTES = ["cli-c", "cli-cwd", "cli-src-tauri", "cli-parent", "lib-tauri", "build-tauri", "build-typegen"]


def harness_route(payload):
    r = subprocess.run([vlib.harness_bin("c06"), "route"], input=json.dumps(payload) + "\n", stdout=subprocess.PIPE,
                       stderr=subprocess.DEVNULL, text=True, timeout=120, env=vlib.ENV)
    lines = [l for l in r.stdout.splitlines() if l.startswith("{")]
    return json.loads(lines[-1]) if lines else {"error": "driver died (exit %s)" % r.returncode}


def run_route(c):
    """returns {"mode": "plain"|"zod", "types": text | None, "error": ..}"""
    route, dfc = c["route"], c.get("dfc_written")
    mode = "zod" if route == "init-zod" else "plain"
    lib = "zod" if mode == "zod" else "none"
    with vlib.Sandbox("c06r") as sb:
        sb.write("root/src-tauri/src/lib.rs", gen.rust_source(c))
        src = sb.path("root/src-tauri/src")
        out = sb.path("root/src/generated")
        h = None
        r = None
        if route in INIT_ROUTES:
            sb.write("root/src-tauri/tauri.conf.json", json.dumps({"productName": "demo", "plugins": {"other": {"keep": 1}}}))
            if route == "init-file":
                r = sb.cli(["init", "-o", "typegen.json"], cwd=sb.path("root"))
                if r[0] == 0:
                    r = sb.cli(["generate", "-c", "typegen.json", "--force"], cwd=sb.path("root"))
            else:
                r = sb.cli(["init"] + (["-v", "zod"] if mode == "zod" else []), cwd=sb.path("root"))
                if r[0] == 0 and route != "init":
                    r = sb.cli(["generate", "--force"], cwd=sb.path("root"))
        else:
            snake = {"project_path": src, "output_path": out, "validation_library": lib, "force": True}
            camel = {"projectPath": src, "outputPath": out, "validationLibrary": lib, "force": True}
            if dfc is not None:
                snake["default_field_case"] = dfc
                camel["defaultFieldCase"] = dfc
                # the parameter setting takes a DIFFERENT value so that the two cannot be mixed up unnoticed
                other = "snake_case" if dfc != "snake_case" else "PascalCase"
                snake["default_parameter_case"] = other
                camel["defaultParameterCase"] = other
            tconf = json.dumps({"productName": "demo", "plugins": {"typegen": camel}})
            if route == "cli-c":
                sb.write("cfg.json", json.dumps(snake))
                r = sb.cli(["generate", "-c", sb.path("cfg.json"), "--force"], cwd=sb.path("root"))
            elif route == "cli-cwd":
                sb.write("root/tauri.conf.json", tconf)
                r = sb.cli(["generate", "--force"], cwd=sb.path("root"))
            elif route == "cli-src-tauri":
                sb.write("root/src-tauri/tauri.conf.json", tconf)
                r = sb.cli(["generate", "--force"], cwd=sb.path("root"))
            elif route == "cli-parent":
                sb.write("root/tauri.conf.json", tconf)
                r = sb.cli(["generate", "--force"], cwd=sb.path("root/src-tauri"))
            elif route == "lib-tauri":
                sb.write("root/tauri.conf.json", tconf)
                h = harness_route({"id": 0, "cwd": sb.path("root"), "kind": "lib-tauri", "conf": sb.path("root/tauri.conf.json")})
            elif route == "build-tauri":
                sb.write("root/tauri.conf.json", tconf)
                h = harness_route({"id": 0, "cwd": sb.path("root/src-tauri"), "kind": "build"})
            elif route == "build-typegen":
                sb.write("root/typegen.json", json.dumps(snake))
                h = harness_route({"id": 0, "cwd": sb.path("root/src-tauri"), "kind": "build"})
            else:
                raise vlib.BuildError("unknown route " + route)
        if r is not None:
            rc, text = r
            h = {"error": text[-400:]} if rc != 0 else {"ok": True}
        res = {"mode": mode, "types": None}
        if "error" in h or "panic" in h:
            res["error"] = h.get("error") or h.get("panic")
            return res
        p = os.path.join(out, "types.ts")
        res["types"] = open(p, encoding="utf-8").read() if os.path.exists(p) else None
        written = sb.path("root/src-tauri/tauri.conf.json")
        if route in INIT_ROUTES and os.path.exists(written):
            try:
                res["section_written"] = json.load(open(written)).get("plugins", {}).get("typegen")
            except ValueError:
                pass
        return res


def route_cases(thorough):
    """a few containers whose names depend on the field case x every route x the setting"""
    fields = lambda ids: [{"ident": i, "attrs": []} for i in ids]
    conts = [
        {"kind": "struct", "cattrs": [], "items": fields(["user_id", "display_name", "a"])},
        {"kind": "struct", "cattrs": [], "items": [{"ident": "user_id", "attrs": [[["rename", "uid"]]]}, {"ident": "first_last_name", "attrs": [[["other", "default"]]]},
                                                    {"ident": "tmp_val", "attrs": [[["skip"]]]}]},
        {"kind": "struct", "cattrs": [[["ra", "kebab-case"]]], "items": fields(["user_id", "display_name"])},
        {"kind": "enum", "cattrs": [], "items": [{"ident": "TaskStarted", "attrs": [], "shape": "tuple"}, {"ident": "Idle", "attrs": [], "shape": "unit"}]},
    ]
    settings = [None, "camelCase", "snake_case", "PascalCase"] + (["SCREAMING_SNAKE_CASE", "kebab-case", "bogusCase"] if thorough else ["bogusCase"])
    cases = []
    for c in conts:
        for route in INIT_ROUTES:
            cases.append(dict(c, route=route, dfc_written=None, dfc="snake_case"))
        for route in CONF_ROUTES:
            for s in settings:
                # the setting the route is supposed to carry: what was written, the default when absent
                cases.append(dict(c, route=route, dfc_written=s, dfc=s if s is not None else "snake_case"))
    return cases
