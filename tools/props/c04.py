"""C04 - the object passed to invoke has exactly the keys Tauri deserialises.
Each case is one command. Implementation side: the Rust driver writes the source, loads the
configuration with GenerateConfig::from_file and runs generate_from_config in both modes (a smaller
stream goes through the real CLI binary with -c); types.ts and commands.ts are read back by the
extracted observation (Spec/C04Obs.v over Spec/TsLex.v) and resolved by Model/C04Model.invoke_keys
to (key, omittable, validated?) entries. Model side: Model/C04Model.generate + the same resolution.
Oracle: Spec/C04TauriCase.v (keys_ok, optional_ok, zod_src_ok, modes_ok) on the implementation's
observation; the spec's camelCase / snake_case are cross-checked against heck::ToLowerCamelCase / ToSnakeCase on every name."""
import itertools
import json
import os
import random

from tools import vlib
from tools.vlib import Outcome, sx

MANIFEST = {
    "level_text": "Coq theorems (Properties/C04.v, no axioms) about a Gallina transcription of is_tauri_parameter_type, channel extraction (incl. the repaired ipc::Channel and Request<'_>), Option detection, compute_parameter_name over serde-rename-rule's apply_to_field behind the call-site guard of apply_naming_convention, and the five template shapes that decide the second argument of invoke, for every project (files of commands and helper functions with arbitrary name overlap), every parameter list, every name over [a-z0-9_], all eight configured cases and both modes: generation never panics; every command gets exactly its own keys (C04_project_keys), after every run of every history of runs (C04_history_keys); outside four narrow recorded classes the (key, omittable) pairs reaching invoke are a permutation of Tauri's (one per non-injected parameter incl. channels, named by heck's lowerCamelCase / snake_case rule or the configured serde rule, omittable iff Option), Zod mode validates exactly the value keys and re-attaches exactly the channel keys, both modes deliver the same entries (unconditionally), and the guarded camelCase equals Tauri's word rule. Tied to /repo on every run: both generators run on generated commands, the written files are read back by the extracted observation and compared with the model and the spec.",
    "design_ref": "DESIGN.md section 5 C04, section 11 camel_agrees",
    "level_note": "The model represents the generated module by what the key set depends on (schema keys, Params declaration, call-site shape), not by its text; the reading of the real files (Spec/C04Obs.v, token level, tolerant of non-identifier keys) is trusted, not proved against a TypeScript grammar. Commands carrying #[serde(..)] attributes on the function or its parameters (a mechanism of the tool, rejected by rustc/Tauri) are outside the model. Four known classes are premises of C04_keys/C04_optional (bare Window, rename_all in the command attribute, underscore-only names under camelCase, keyed parameters bound by a wildcard or destructuring pattern); C04-2 (ipc::Channel), C04-3 (Request<'_> / ipc::Request<'_>) and C04-5 (panic on underscore-only names) are repaired and their witnesses are regression cases. A Request that is neither fully qualified nor written with its lifetime is outside the domain (indistinguishable from a user type).",
    "technique": "Rocq/Coq proof over hand-written model + correspondence check (extracted OCaml vs Rust harness and real CLI)"
}

RULE = ("single-command cases: 0-6 parameters mixing value types, every listed spelling of the injected types and of channels, "
        "names over [a-z0-9_] with leading/double/trailing underscores and digits (some written as raw identifiers r#name, incl. keywords), optional rename_all in the command attribute, "
        "default_parameter_case absent or one of the eight conventions, both modes; plus exhaustive streams (every name over {a,1,_} "
        "up to length 4 x 8 cases; every spelling alone and next to a value parameter in both orders). A case is non-trivial when it "
        "has at least one parameter; distinct = distinct (project, configuration) pairs. Project cases: 1-3 files with 2-7 functions (commands and helpers) "
        "whose names are prefixes / suffixes / infixes of one another or repeat across files, channels on some of them, every order; every "
        "command of the project is judged. Types of values and of channel messages range over the README table and over types the resolver "
        "cannot render (slices, arrays, fn pointers, impl/dyn Trait, unit, raw pointers, nested channels). Configuration routes: a few commands x absent + eight "
        "parameter cases x {CLI -c file, CLI with tauri.conf.json discovered in ./, ./src-tauri/, ../, library from_tauri_config, build-script entry "
        "point with tauri.conf.json, with typegen.json}, both modes. Run histories: 2-4 runs into one output directory (unforced / --force / \"force\": true, "
        "returning to an earlier state; states differ in parameter case, a renamed parameter, channels, an injected type; CLI -c, CLI with discovered "
        "tauri.conf.json, build-script with tauri.conf.json / typegen.json), judged after every run; the same on one long-lived generator object (and analyzer) through generate_models. Pair-of-commands edits between unforced runs: a channel / value / Option parameter moves from one command to another (same name and type, the sequence of all channels unchanged), "
        "two commands exchange their channels or values or swap their whole parameter lists, a channel moves to a helper; the two commands adjacent, in either order, around a third command, or in two files; CLI and build-script routes. Parameter bindings: plain, "
        "r#, mut, ref, ref mut, wildcard, struct and tuple-struct patterns at every position relative to value / channel / injected parameters. Source layout: the same items on one line, a whole file on one line, "
        "attribute and fn apart (blank lines, comments), CRLF, tabs, signatures split over lines")
TRUSTED = ["Spec/C04Obs.v: token-level reading of types.ts/commands.ts (Params declaration, z.object keys, the invoke argument) - a model of TypeScript, not proved",
           "Spec/C04TauriCase.v: Tauri's argument naming and the list of injected types, transcribed from the property text and tauri-macros; lowerCamelCase and snake_case cross-checked against heck 0.5 on every generated name",
           "python printer of the Rust source; its type abstraction is cross-checked against syn on every case"]
ASSUMPTIONS = ["z.object(..).safeParse strips keys that are not in the schema (Zod default), so result.data carries exactly the schema keys",
               "a key of the Params type is omittable by the caller iff it is declared with ? (interface) or its schema ends in .optional() (z.infer)"]

CASES8 = ["lowercase", "UPPERCASE", "PascalCase", "camelCase", "snake_case", "SCREAMING_SNAKE_CASE", "kebab-case", "SCREAMING-KEBAB-CASE"]
KF_IDS = ["C04-1", "C04-4", "C04-6", "C04-7"]                     # order of ExC04.c04_classes
KF_PRIORITY = [3, 2, 1, 0]                                         # underscore-only name first, then macro case, ...
KEYWORDS = {"as", "do", "fn", "if", "in", "mod", "mut", "pub", "ref", "use", "box", "dyn", "for", "let", "try", "type", "self",
            "impl", "loop", "move", "enum", "else", "true", "false", "super", "crate", "async", "await", "const", "match", "priv",
            "static", "struct", "trait", "unsafe", "where", "while", "yield", "final", "macro", "break", "return", "extern",
            "continue", "abstract", "become", "override", "typeof", "unsized", "virtual", "gen", "_"}

# (rust text, abstraction) ; abstraction = ["other"] | ["path", [segs], None | [arg kinds]]
def P(segs, args=None):
    return ["path", segs, args]

VALUE_TYPES = [
    ("String", P(["String"])), ("i32", P(["i32"])), ("u64", P(["u64"])), ("bool", P(["bool"])), ("f64", P(["f64"])),
    ("Vec<String>", P(["Vec"], ["T"])), ("Vec<i32>", P(["Vec"], ["T"])), ("Vec<Item>", P(["Vec"], ["T"])),
    ("Item", P(["Item"])), ("HashMap<String, i32>", P(["HashMap"], ["T", "T"])), ("(i32, String)", ["other"]),
    ("&str", ["other"]), ("State", P(["State"])), ("Channel", P(["Channel"])), ("Manager", P(["Manager"])),
    ("std::string::String", P(["std", "string", "String"])),
    ("std::collections::HashMap<String, bool>", P(["std", "collections", "HashMap"], ["T", "T"])),
    # the rest of the README table, and types the resolver cannot render: the key does not depend on the type
    ("HashSet<String>", P(["HashSet"], ["T"])), ("BTreeMap<String, Vec<i32>>", P(["BTreeMap"], ["T", "T"])),
    ("Result<i32, String>", P(["Result"], ["T", "T"])), ("(i32, (String, bool))", ["other"]), ("()", ["other"]),
    ("&[u8]", ["other"]), ("[u8; 4]", ["other"]), ("fn()", ["other"]), ("fn(i32) -> String", ["other"]), ("impl Fn()", ["other"]),
    ("Box<dyn Fn()>", P(["Box"], ["T"])), ("&dyn Send", ["other"]), ("Vec<&[u8]>", P(["Vec"], ["T"])), ("*const u8", ["other"]),
]
OPTION_TYPES = [
    ("Option<String>", P(["Option"], ["T"])), ("Option<i32>", P(["Option"], ["T"])), ("Option<Item>", P(["Option"], ["T"])),
    ("Option<Vec<String>>", P(["Option"], ["T"])), ("Option<bool>", P(["Option"], ["T"])),
    ("std::option::Option<String>", P(["std", "option", "Option"], ["T"])),
    ("Option<HashMap<String, i32>>", P(["Option"], ["T"])), ("Option<&[u8]>", P(["Option"], ["T"])), ("Option<()>", P(["Option"], ["T"])),
    ("Option<(i32, String)>", P(["Option"], ["T"])),
]
INJECTED_TYPES = [
    ("AppHandle", P(["AppHandle"])), ("tauri::AppHandle", P(["tauri", "AppHandle"])), ("AppHandle<R>", P(["AppHandle"], ["T"])),
    ("tauri::AppHandle<R>", P(["tauri", "AppHandle"], ["T"])),
    ("State<'_, Db>", P(["State"], ["L", "T"])), ("tauri::State<'_, Db>", P(["tauri", "State"], ["L", "T"])),
    ("State<'a, Mutex<Db>>", P(["State"], ["L", "T"])), ("State<Db>", P(["State"], ["T"])),
    ("Window<R>", P(["Window"], ["T"])), ("tauri::Window", P(["tauri", "Window"])), ("tauri::Window<R>", P(["tauri", "Window"], ["T"])),
    ("WebviewWindow", P(["WebviewWindow"])), ("tauri::WebviewWindow", P(["tauri", "WebviewWindow"])),
    ("WebviewWindow<R>", P(["WebviewWindow"], ["T"])), ("tauri::WebviewWindow<R>", P(["tauri", "WebviewWindow"], ["T"])),
    ("tauri::ipc::Request<'_>", P(["tauri", "ipc", "Request"], ["L"])), ("tauri::ipc::Request<'a>", P(["tauri", "ipc", "Request"], ["L"])),
    ("Request<'_>", P(["Request"], ["L"])), ("ipc::Request<'_>", P(["ipc", "Request"], ["L"])), ("Request<'a>", P(["Request"], ["L"])),
    ("tauri::ipc::Request", P(["tauri", "ipc", "Request"])),
]
CHANNEL_TYPES = [
    ("Channel<String>", P(["Channel"], ["T"])), ("Channel<Item>", P(["Channel"], ["T"])), ("Channel<i32>", P(["Channel"], ["T"])),
    ("tauri::ipc::Channel<String>", P(["tauri", "ipc", "Channel"], ["T"])), ("tauri::ipc::Channel<Item>", P(["tauri", "ipc", "Channel"], ["T"])),
    ("Channel<Vec<u8>>", P(["Channel"], ["T"])),
    ("ipc::Channel<String>", P(["ipc", "Channel"], ["T"])), ("ipc::Channel<Item>", P(["ipc", "Channel"], ["T"])),
    # message types over the README table and beyond what the resolver renders
    ("Channel<Option<String>>", P(["Channel"], ["T"])), ("Channel<Vec<Item>>", P(["Channel"], ["T"])),
    ("Channel<HashMap<String, i32>>", P(["Channel"], ["T"])), ("Channel<(i32, String)>", P(["Channel"], ["T"])),
    ("Channel<Result<i32, String>>", P(["Channel"], ["T"])), ("Channel<HashSet<String>>", P(["Channel"], ["T"])),
    ("Channel<()>", P(["Channel"], ["T"])), ("Channel<&[u8]>", P(["Channel"], ["T"])), ("Channel<[u8; 4]>", P(["Channel"], ["T"])),
    ("Channel<fn()>", P(["Channel"], ["T"])), ("Channel<Box<dyn Fn()>>", P(["Channel"], ["T"])), ("Channel<&str>", P(["Channel"], ["T"])),
    ("Channel<Channel<i32>>", P(["Channel"], ["T"])), ("tauri::ipc::Channel<&[u8]>", P(["tauri", "ipc", "Channel"], ["T"])),
    ("ipc::Channel<fn()>", P(["ipc", "Channel"], ["T"])), ("Channel<impl Fn()>", P(["Channel"], ["T"])),
    ("Channel<&dyn Send>", P(["Channel"], ["T"])), ("Channel<*const u8>", P(["Channel"], ["T"])),
]
KF_TYPES = {
    0: [("Window", P(["Window"]))],
}
# outside the quantifier: faithfulness of the model only
ODD_TYPES = [
    ("tauri::Channel<u8>", P(["tauri", "Channel"], ["T"])), ("my::Window<R>", P(["my", "Window"], ["T"])),
    ("tauri::window::Window", P(["tauri", "window", "Window"])), ("tauri::Manager", P(["tauri", "Manager"])),
    ("State<'_>", P(["State"], ["L"])), ("Window<>", P(["Window"], [])), ("Channel<'a, String>", P(["Channel"], ["L", "T"])),
    ("Webview", P(["Webview"])), ("tauri::State", P(["tauri", "State"])), ("my::Channel<String>", P(["my", "Channel"], ["T"])),
    ("tauri::ipc::Channel", P(["tauri", "ipc", "Channel"])), ("tauri::x::AppHandle", P(["tauri", "x", "AppHandle"])),
    ("Request", P(["Request"])), ("ipc::Request", P(["ipc", "Request"])), ("Request<Item>", P(["Request"], ["T"])),
    ("Request<'a, Item>", P(["Request"], ["L", "T"])), ("my::Request<'_>", P(["my", "Request"], ["L"])),
]
RAW_KEYWORDS = ["type", "match", "ref", "loop", "in", "fn", "async", "move", "box", "dyn", "use", "mod"]
WORDS = ["user", "id", "name", "x", "a", "b", "on", "ev", "data", "item", "count", "b1", "v2", "is", "ok", "path", "q", "max", "len"]
LATER_WORDS = WORDS + ["2fa", "1", "3d", "0"]


def gen_name(rng, used):
    for _ in range(200):
        n = rng.randint(1, 3)
        ws = [rng.choice(WORDS)] + [rng.choice(LATER_WORDS) for _ in range(n - 1)]
        seps = [rng.choice(["_", "_", "_", "__", "___"]) for _ in range(n - 1)]
        s = ws[0] + "".join(a + b for a, b in zip(seps, ws[1:]))
        r = rng.random()
        if r < 0.15:
            s = "_" + s
        elif r < 0.22:
            s = "__" + s
        if rng.random() < 0.08:
            s += rng.choice(["_", "__"])
        if s not in used and s not in KEYWORDS:
            used.add(s)
            return s
    raise RuntimeError("no fresh name")


def mk_case(name, params, macro=None, default_case=None, attr="tauri::command"):
    return {"name": name, "macro": macro, "attr": attr, "default_case": default_case,
            "params": [{"name": n, "ty": t[0], "abs": t[1]} for n, t in params]}


def random_case(rng, kf_class=None):
    used = set()
    n = rng.choice([0, 1, 1, 2, 2, 3, 3, 4, 5, 6])
    params = []
    for _ in range(n):
        r = rng.random()
        if r < 0.30:
            t = rng.choice(VALUE_TYPES)
        elif r < 0.50:
            t = rng.choice(OPTION_TYPES)
        elif r < 0.80:
            t = rng.choice(INJECTED_TYPES)
        else:
            t = rng.choice(CHANNEL_TYPES)
        params.append((gen_name(rng, used), t))
    default_case = rng.choice([None, None, "camelCase", "camelCase"] + CASES8)
    macro = None
    if kf_class == 0:
        params.insert(rng.randint(0, len(params)), (gen_name(rng, used), rng.choice(KF_TYPES[kf_class])))
    elif kf_class == 1:
        macro = "snake_case"
    elif kf_class == 2:
        default_case = rng.choice([None, "camelCase"])
        params.insert(rng.randint(0, len(params)), (rng.choice(["__", "___", "____"]), rng.choice(VALUE_TYPES + CHANNEL_TYPES)))
    else:
        r = rng.random()
        if r < 0.08:
            macro = "camelCase"          # agrees with the default; differs from the configured case only rarely
        elif r < 0.14 and default_case == "snake_case":
            macro = "snake_case"
    cname = gen_name(rng, set(p[0] for p in params))
    c = mk_case(cname, params, macro, default_case, rng.choice(["tauri::command", "tauri::command", "command"]))
    # bindings other than a bare identifier that Tauri treats alike: mut / ref, and the wildcard on an injected parameter
    for p in c["params"]:
        r = rng.random()
        if r < 0.06 and set(p["name"]) != {"_"}:
            p["mods"] = rng.choice(["mut ", "ref ", "ref mut "])
        elif r < 0.14 and any(p["ty"] == t[0] for t in INJECTED_TYPES):
            p["pat"] = "wild"
            p["name"] = "w"
    if kf_class == 3:
        c["params"].insert(rng.randint(0, len(c["params"])), pat_param(rng.choice(PAT_KINDS_KF)))
    # raw identifiers: a keyword as the name of a keyed or injected parameter, or r# in front of an ordinary name
    if c["params"] and rng.random() < 0.12:
        p = rng.choice([q for q in c["params"] if q.get("pat", "ident") == "ident"] or c["params"])
        if p.get("pat", "ident") != "ident":
            pass
        elif rng.random() < 0.6:
            kw = rng.choice(RAW_KEYWORDS)
            if all(q["name"] != kw for q in c["params"]) and set(p["name"]) != {"_"}:
                p["name"] = kw
                p["raw"] = True
        elif set(p["name"]) != {"_"}:
            p["raw"] = True
    return c


def random_fn(rng, name, command):
    """parameter list of one function, drawn like random_case (no class member on purpose)"""
    c = random_case(rng)
    return {"name": name, "command": command, "macro": c["macro"] if command else None, "attr": c["attr"], "params": c["params"]}


def overlapping_names(rng, k):
    """k distinct function names with suffix / prefix / infix relations between them"""
    base = rng.choice(["download", "sync", "load_user", "export", "job", "send_msg", "scan"])
    pool = [base, "start_" + base, base + "_all", "re" + base, base + "s", "pre_" + base + "_x", base + "_" + base,
            "do_" + base + "_now", "x" + base, base + "2", base + "_v2"]
    rng.shuffle(pool)
    return pool[:k]


def project_case(rng):
    nfiles = rng.choice([1, 1, 2, 2, 3])
    names = overlapping_names(rng, rng.randint(2, 7))
    files = [{"path": ["a_cmds.rs", "lib.rs", "sub/z_more.rs"][i], "fns": []} for i in range(nfiles)]
    cmd_names = set()
    for n in names:
        fl = rng.choice(files)
        command = rng.random() < 0.65
        fl["fns"].append(random_fn(rng, n, command))
        if command:
            cmd_names.add(n)
        # the same name once more in another file, as a helper (a second command of that name is C02/C03 business)
        if nfiles > 1 and rng.random() < 0.3:
            other = rng.choice([f for f in files if f is not fl])
            if all(g["name"] != n for g in other["fns"]):
                other["fns"].append(random_fn(rng, n, False if command else rng.random() < 0.5 and n not in cmd_names))
                if other["fns"][-1]["command"]:
                    cmd_names.add(n)
    for fl in files:
        rng.shuffle(fl["fns"])
    files = [f for f in files if f["fns"]]
    default_case = rng.choice([None, None, "camelCase", "snake_case", "kebab-case", "PascalCase"])
    # the macro attribute is judged against the project's configuration: keep only agreeing ones here
    for fl in files:
        for f in fl["fns"]:
            if f["macro"] == "camelCase" and default_case not in (None, "camelCase"):
                f["macro"] = None
            if f["macro"] == "snake_case" and default_case != "snake_case":
                f["macro"] = None
    return {"default_case": default_case, "files": files, "layout": rng.choice(LAYOUTS + ["normal"] * 5)}


def overlap_matrix():
    """Deterministic: two functions a, b whose names are related (b suffix / prefix / infix of a, or equal in another
    file), channels on a / b / both / none, both orders, b or a being a helper or a command."""
    S, O, C, C2 = VALUE_TYPES[0], OPTION_TYPES[0], CHANNEL_TYPES[0], CHANNEL_TYPES[3]
    rel = {"suffix": ("start_download", "download"), "prefix": ("download_all", "download"),
           "infix": ("pre_download_x", "download"), "glued-suffix": ("redownload", "download"),
           "same-other-file": ("download", "download")}
    cases = []
    for rname, (a, b) in rel.items():
        for cha, chb in ((1, 0), (0, 1), (1, 1), (0, 0)):
            for order in (0, 1):
                for kinds in ((True, True), (True, False), (False, True)):
                    if rname == "same-other-file" and kinds == (True, True):
                        continue
                    fa = {"name": a, "command": kinds[0], "macro": None, "attr": "tauri::command",
                          "params": [{"name": n, "ty": t[0], "abs": t[1]} for n, t in
                                     ([("url", S)] + ([("on_progress", C)] if cha else []) + [("retry_count", O)])]}
                    fb = {"name": b, "command": kinds[1], "macro": None, "attr": "command",
                          "params": [{"name": n, "ty": t[0], "abs": t[1]} for n, t in
                                     ([("file_id", VALUE_TYPES[1])] + ([("on_chunk", C2)] if chb else []) + [("dest_path", S)])]}
                    if rname == "same-other-file":
                        files = [{"path": "a.rs", "fns": [fa]}, {"path": "b.rs", "fns": [fb]}]
                        if order:
                            files[0]["path"], files[1]["path"] = "b.rs", "a.rs"
                    else:
                        files = [{"path": "lib.rs", "fns": [fa, fb] if order == 0 else [fb, fa]}]
                    cases.append({"default_case": None, "files": files})
    return cases


def small_names():
    out = []
    for n in range(1, 5):
        for t in itertools.product("a1_", repeat=n):
            s = "".join(t)
            if s[0] != "1" and s != "_":
                out.append(s)
    return out


def exhaustive_names():
    cases = []
    for s in small_names():
        for dc in CASES8:
            if set(s) == {"_"} and dc == "camelCase":
                continue                  # class C04-6, exercised by its own stream
            cases.append(mk_case("cmd", [(s, VALUE_TYPES[0])], None, dc))
        cases.append(mk_case("cmd", [(s, CHANNEL_TYPES[0]), ("v", OPTION_TYPES[0])], None, None) if set(s) != {"_"} else
                     mk_case("cmd", [(s, CHANNEL_TYPES[0]), ("v", OPTION_TYPES[0])], None, "snake_case"))
    return cases


def exhaustive_spellings():
    cases = []
    allt = VALUE_TYPES + OPTION_TYPES + INJECTED_TYPES + CHANNEL_TYPES
    for t in allt:
        cases.append(mk_case("one_cmd", [("the_arg", t)]))
        for v in (VALUE_TYPES[0], OPTION_TYPES[1], CHANNEL_TYPES[1]):
            cases.append(mk_case("two_cmd", [("the_arg", t), ("other_one", v)]))
            cases.append(mk_case("two_cmd", [("other_one", v), ("the_arg", t)], default_case="snake_case"))
    for kw in RAW_KEYWORDS:
        for t in (VALUE_TYPES[0], OPTION_TYPES[0], CHANNEL_TYPES[0], INJECTED_TYPES[0]):
            c = mk_case("raw_cmd", [(kw, t), ("user_id", VALUE_TYPES[1])], default_case=None if kw < "m" else "SCREAMING_SNAKE_CASE")
            c["params"][0]["raw"] = True
            cases.append(c)
    # every pair of an injected spelling and a channel spelling, with a value in between
    for i in INJECTED_TYPES:
        for c in CHANNEL_TYPES[:4]:
            cases.append(mk_case("mix_cmd", [("app_h", i), ("user_id", VALUE_TYPES[1]), ("on_event", c)]))
        cases.append(mk_case("mix_cmd", [("on_event", CHANNEL_TYPES[6]), ("app_h", i), ("user_id", OPTION_TYPES[0])], default_case="kebab-case"))
    return cases


def odd_cases(rng, n):
    """Outside the quantifier: names with upper-case / non-ASCII letters, spellings nobody promised."""
    cases = []
    odd_names = ["userId", "UserName", "X", "aB_c", "été", "aé", "x_é", "_é", "über_id", "aßb"]
    for _ in range(n):
        used = set()
        params = []
        for _ in range(rng.randint(1, 4)):
            if rng.random() < 0.5:
                nm = rng.choice(odd_names)
                if nm in used:
                    continue
                used.add(nm)
                params.append((nm, rng.choice(VALUE_TYPES + OPTION_TYPES + CHANNEL_TYPES)))
            else:
                params.append((gen_name(rng, used), rng.choice(ODD_TYPES)))
        cases.append(mk_case("odd_cmd", params, None, rng.choice([None] + CASES8)))
    return cases


def to_project(case):
    """A single-command case {name, macro, attr, default_case, params} is the project with one file and one function."""
    if "files" in case:
        return case
    return {"default_case": case["default_case"],
            "files": [{"path": "lib.rs", "fns": [{"name": case["name"], "command": True, "macro": case["macro"],
                                                    "attr": case.get("attr") or "tauri::command", "params": case["params"]}]}]}


def all_fns(proj):
    return [f for fl in sorted(proj["files"], key=lambda x: x["path"]) for f in fl["fns"]]


def render_binding(p):
    """how the parameter is bound: plain identifier (r#, mut, ref), wildcard, or a destructuring pattern"""
    pat = p.get("pat", "ident")
    if pat == "wild":
        return "_"
    if pat == "destructure":
        return p["bind"]
    return "%s%s%s" % (p.get("mods", ""), "r#" if p.get("raw") else "", p["name"])


def pat_param(kind):
    """parameters that are not bound by a plain identifier; kind -> param dict (name is what the model carries)"""
    if kind == "wild-injected":
        t = INJECTED_TYPES[0]
        return {"name": "w", "ty": t[0], "abs": t[1], "pat": "wild"}
    if kind == "wild-state":
        t = INJECTED_TYPES[4]
        return {"name": "w", "ty": t[0], "abs": t[1], "pat": "wild"}
    if kind == "wild-value":
        return {"name": "w", "ty": "String", "abs": P(["String"]), "pat": "wild"}
    if kind == "wild-channel":
        return {"name": "w", "ty": "Channel<String>", "abs": P(["Channel"], ["T"]), "pat": "wild"}
    if kind == "struct-pattern":
        return {"name": "item", "ty": "Item", "abs": P(["Item"]), "pat": "destructure", "bind": "Item { id, label }", "heck_src": "Item"}
    if kind == "tuple-struct-pattern":
        return {"name": "wrapper", "ty": "Wrapper", "abs": P(["Wrapper"]), "pat": "destructure", "bind": "Wrapper(inner)", "heck_src": "Wrapper"}
    if kind == "mut-value":
        return {"name": "buf_size", "ty": "i32", "abs": P(["i32"]), "mods": "mut "}
    if kind == "mut-channel":
        return {"name": "on_tick", "ty": "Channel<i32>", "abs": P(["Channel"], ["T"]), "mods": "mut "}
    if kind == "ref-value":
        return {"name": "file_name", "ty": "String", "abs": P(["String"]), "mods": "ref "}
    if kind == "ref-mut-option":
        return {"name": "maybe_x", "ty": "Option<String>", "abs": P(["Option"], ["T"]), "mods": "ref mut "}
    raise KeyError(kind)


PAT_KINDS_OK = ["wild-injected", "wild-state", "mut-value", "mut-channel", "ref-value", "ref-mut-option"]
PAT_KINDS_KF = ["wild-value", "wild-channel", "struct-pattern", "tuple-struct-pattern"]


def pattern_matrix():
    """every kind of binding at every position relative to a value, a channel and an injected parameter"""
    S, C, I = VALUE_TYPES[0], CHANNEL_TYPES[0], INJECTED_TYPES[8]
    others = [{"name": "user_id", "ty": S[0], "abs": S[1]}, {"name": "on_event", "ty": C[0], "abs": C[1]},
              {"name": "win", "ty": I[0], "abs": I[1]}]
    cases = []
    for kind in PAT_KINDS_OK + PAT_KINDS_KF:
        for pos in range(4):
            for rot in range(3):
                rest = [dict(o) for o in (others[rot:] + others[:rot])]
                ps = rest[:pos] + [pat_param(kind)] + rest[pos:]
                for dc in (None, "snake_case"):
                    if dc and (pos + rot) % 2:
                        continue
                    cases.append({"name": "pat_cmd", "macro": None, "attr": "tauri::command", "default_case": dc, "params": ps})
        # two of them in one signature
        cases.append({"name": "pat_cmd", "macro": None, "attr": "command", "default_case": None,
                      "params": [pat_param("wild-injected"), pat_param(kind), dict(others[1]), pat_param("wild-state"), dict(others[0])]})
    return cases


def render_fn(f):
    uses_r = any("<R>" in p["ty"] for p in f["params"])
    uses_a = any("'a" in p["ty"] for p in f["params"])
    gens = ", ".join((["'a"] if uses_a else []) + (["R: tauri::Runtime"] if uses_r else []))
    head = ""
    if f["command"]:
        attr = f.get("attr") or "tauri::command"
        if f.get("macro"):
            attr += '(rename_all = "%s")' % f["macro"]
        head = "#[%s]\n" % attr
    # a raw identifier r#name is the parameter called name (repair C01-raw-ident-strip; tauri-macros unraws as well)
    ps = ", ".join("%s: %s" % (render_binding(p), p["ty"]) for p in f["params"])
    return "%spub async fn %s%s(%s) {\n}\n" % (head, f["name"], ("<" + gens + ">") if gens else "", ps)


MODELS_RS = ("use serde::{Deserialize, Serialize};\n\n#[derive(Debug, Serialize, Deserialize)]\npub struct Item {\n"
             "    pub id: i32,\n    pub label: String,\n}\n\n#[derive(Debug, Serialize, Deserialize)]\npub struct Wrapper(pub i32);\n")


def render_files(case):
    """[[relative path, text], ...]; the struct the value types mention lives in a file of its own."""
    proj = to_project(case)
    out = [["zz_models.rs", MODELS_RS]]
    layout = case.get("layout") or "normal"
    for fl in proj["files"]:
        out.append([fl["path"], apply_layout(layout, "use std::collections::HashMap;\n\n", [render_fn(f) for f in fl["fns"]])])
    return out


LAYOUTS = ["normal", "file-on-one-line", "items-on-one-line", "attribute-apart", "crlf", "tabs", "fn-split-over-lines"]


def apply_layout(layout, header, fns):
    """The same items, laid out differently in the source text (the keys cannot depend on it)."""
    if layout == "normal":
        return header + "\n".join(fns)
    if layout == "file-on-one-line":
        return (header + " ".join(fns)).replace("\n", " ")
    if layout == "items-on-one-line":
        return header + " ".join(f.replace("\n", " ") for f in fns) + "\n"
    if layout == "attribute-apart":
        # blank lines, a line comment and a block comment between the attribute and the fn; a doc comment before it
        return header + "\n".join(("/// docs\n" + f).replace("]\npub", "]\n\n// note: kept apart\n/* block\n   comment */\n\npub", 1) for f in fns)
    if layout == "crlf":
        return (header + "\n".join(fns)).replace("\n", "\r\n")
    if layout == "tabs":
        return (header + "\n".join(fns)).replace(", ", ",\t").replace("pub async fn ", "pub\tasync\tfn\t").replace("\n}", "\n\t}")
    if layout == "fn-split-over-lines":
        return header + "\n".join(f.replace("pub async fn ", "pub\nasync\nfn\n").replace("(", "(\n    ", 1).replace(", ", ",\n    ") for f in fns)
    raise KeyError(layout)


def layout_matrix():
    """files with several commands whose channel sets differ, in every layout"""
    S, O, C, C2 = VALUE_TYPES[0], OPTION_TYPES[0], CHANNEL_TYPES[0], CHANNEL_TYPES[3]

    def fn(name, ps, command=True):
        return {"name": name, "command": command, "macro": None, "attr": "tauri::command",
                "params": [{"name": n, "ty": t[0], "abs": t[1]} for n, t in ps]}
    files3 = [fn("start_ticker", [("interval_ms", VALUE_TYPES[1]), ("on_tick", C)]), fn("stop", []),
              fn("helper_fn", [("ch", C2)], command=False), fn("read_chunks", [("file_path", S), ("on_chunk", C2), ("limit", O)]),
              fn("plain_cmd", [("user_id", VALUE_TYPES[1])])]
    cases = []
    for layout in LAYOUTS:
        for rot in range(len(files3)):
            fns = files3[rot:] + files3[:rot]
            cases.append({"default_case": None if rot % 2 else "snake_case", "layout": layout,
                          "files": [{"path": "lib.rs", "fns": json.loads(json.dumps(fns))}]})
        for i, c in enumerate(overlap_matrix()):
            if i % 4 == 0:
                c["layout"] = layout
                cases.append(c)
    return cases


def render_source(case):
    return "\n".join("// ---- src/%s\n%s" % (p, t) for p, t in render_files(case))


def case_sexp(case, impl):
    def ty(a):
        if a[0] == "other":
            return ["other"]
        return ["path", a[1], None if a[2] is None else [a[2]]]

    def side(o):
        if "panic" in o:
            return ["panic"]
        if o.get("types") is None or o.get("commands") is None:
            return ["nofiles"]
        return ["files", o["types"], o["commands"]]
    proj = to_project(case)
    dc = proj["default_case"] if proj["default_case"] is not None else "camelCase"   # config.rs default
    files = [[[f["name"], bool(f["command"]), [f["macro"]] if f.get("macro") else None,
               [[p["name"], ty(p["abs"]), p.get("pat", "ident")] for p in f["params"]]] for f in fl["fns"]]
             for fl in sorted(proj["files"], key=lambda x: x["path"])]
    return sx([dc, files, side(impl["plain"]), side(impl["zod"])])


def norm_abs(a):
    if a == "other":
        return ["other"]
    if isinstance(a, dict) and "path" in a:
        return ["path", a["path"], a["args"]]
    return a


def keyres(r):
    """runner keyres -> canonical python value"""
    if r[0] == "keys":
        return ("keys", tuple(sorted((e[0], e[1] == "true", e[2]) for e in r[1])))
    if r[0] == "err":
        return ("err", r[1])
    return (r[0],)


def impl_harness(cases):
    scratch = os.path.join(vlib.RUST_OUT, "sandbox", "c04")
    os.makedirs(scratch, exist_ok=True)
    payload = [{"id": c["id"], "scratch": scratch, "files": render_files(c), "default_case": to_project(c)["default_case"],
                "params": [{"name": p["name"], "ty": p["ty"], "heck_src": p.get("heck_src")} for f in all_fns(to_project(c)) for p in f["params"]]} for c in cases]
    return vlib.run_harness("c04-gen", payload, per_case_timeout=60)


def impl_cli(cases):
    """Same observation through the real binary: cargo-tauri-typegen tauri-typegen generate -c cfg.json --force."""
    def one(c):
        res = {"id": c["id"], "heck": None, "abs": None}
        dc = to_project(c)["default_case"]
        with vlib.Sandbox("c04") as sb:
            for path, text in render_files(c):
                sb.write("proj/src/" + path, text)
            for mode, key in (("none", "plain"), ("zod", "zod")):
                cfg = {"project_path": sb.path("proj/src"), "output_path": sb.path("out-" + mode), "validation_library": mode}
                if dc is not None:
                    cfg["default_parameter_case"] = dc
                sb.write("cfg-%s.json" % mode, json.dumps(cfg))
                rc, out = sb.cli(["generate", "-c", sb.path("cfg-%s.json" % mode), "--force"])
                if rc == 101 or "panicked at" in out:
                    res[key] = {"panic": out[-300:]}
                elif rc != 0:
                    res[key] = {"error": out[-300:]}
                else:
                    def rd(n):
                        p = sb.path("out-" + mode, n)
                        return open(p, encoding="utf-8").read() if os.path.exists(p) else None
                    res[key] = {"types": rd("types.ts"), "commands": rd("commands.ts")}
        return res
    return vlib.pmap(one, cases)


ROUTES = ["cli-c", "cli-cwd", "cli-src-tauri", "cli-parent", "lib-tauri", "build-tauri", "build-typegen"]


def impl_route(cases):
    """Every way a setting reaches the generator (each case names its route in case["route"]):
      cli-c          generate -c cfg.json (standalone file, snake_case keys)
      cli-cwd        generate, tauri.conf.json in the working directory
      cli-src-tauri  generate, src-tauri/tauri.conf.json below the working directory
      cli-parent     generate, ../tauri.conf.json (run from src-tauri/)
      lib-tauri      GenerateConfig::from_tauri_config + generate_from_config
      build-tauri    BuildSystem::generate_at_build_time() with tauri.conf.json in the project root
      build-typegen  the same with typegen.json (standalone format) and no tauri.conf.json
    (the library API with a standalone file is the ordinary harness stream)."""
    import subprocess

    def harness_route(payload):
        r = subprocess.run([vlib.harness_bin("c04"), "route"], input=json.dumps(payload) + "\n", stdout=subprocess.PIPE,
                           stderr=subprocess.DEVNULL, text=True, timeout=120, env=vlib.ENV)
        lines = [l for l in r.stdout.splitlines() if l.startswith("{")]
        return json.loads(lines[-1]) if lines else {"error": "driver died (exit %s)" % r.returncode}

    def one(c):
        res = {"id": c["id"], "heck": None, "abs": None}
        route = c["route"]
        dc = to_project(c)["default_case"]
        with vlib.Sandbox("c04r") as sb:
            for path, text in render_files(c):
                sb.write("root/src-tauri/src/" + path, text)
            src = sb.path("root/src-tauri/src")
            for mode, key in (("none", "plain"), ("zod", "zod")):
                out = sb.path("out-" + mode)
                snake = {"project_path": src, "output_path": out, "validation_library": mode, "force": True}
                camel = {"projectPath": src, "outputPath": out, "validationLibrary": mode, "force": True}
                if dc is not None:
                    snake["default_parameter_case"] = dc
                    camel["defaultParameterCase"] = dc
                tconf = json.dumps({"productName": "demo", "plugins": {"typegen": camel}})
                for stale in ("root/tauri.conf.json", "root/src-tauri/tauri.conf.json", "root/typegen.json", "cfg.json"):
                    if os.path.exists(sb.path(stale)):
                        os.remove(sb.path(stale))
                r = None
                if route == "cli-c":
                    sb.write("cfg.json", json.dumps(snake))
                    r = sb.cli(["generate", "-c", sb.path("cfg.json"), "--force"], cwd=sb.path("root"))
                elif route == "cli-cwd":
                    sb.write("root/tauri.conf.json", tconf)
                    r = sb.cli(["generate", "--force"], cwd=sb.path("root"))
                elif route == "cli-src-tauri":
                    sb.write("root/src-tauri/tauri.conf.json", tconf)
                    r = sb.cli(["generate", "--force"], cwd=sb.path("root"))
                elif route == "cli-parent":
                    sb.write("root/tauri.conf.json", tconf)
                    r = sb.cli(["generate", "--force"], cwd=sb.path("root/src-tauri"))
                elif route == "lib-tauri":
                    sb.write("root/tauri.conf.json", tconf)
                    h = harness_route({"id": 0, "cwd": sb.path("root"), "kind": "lib-tauri", "conf": sb.path("root/tauri.conf.json")})
                elif route == "build-tauri":
                    sb.write("root/tauri.conf.json", tconf)
                    h = harness_route({"id": 0, "cwd": sb.path("root/src-tauri"), "kind": "build"})
                elif route == "build-typegen":
                    sb.write("root/typegen.json", json.dumps(snake))
                    h = harness_route({"id": 0, "cwd": sb.path("root/src-tauri"), "kind": "build"})
                else:
                    raise vlib.BuildError("unknown route " + route)
                if r is not None:
                    rc, text = r
                    h = {"panic": text[-300:]} if (rc == 101 or "panicked at" in text) else ({"error": text[-300:]} if rc != 0 else {"ok": True})
                if "panic" in h or "error" in h:
                    res[key] = h
                else:
                    def rd(n):
                        p = os.path.join(out, n)
                        return open(p, encoding="utf-8").read() if os.path.exists(p) else None
                    res[key] = {"types": rd("types.ts"), "commands": rd("commands.ts")}
        return res
    return vlib.pmap(one, cases)


def route_cases(rng, thorough):
    """a few commands x every route x the parameter case (absent + the eight)"""
    S, O, C = VALUE_TYPES[0], OPTION_TYPES[0], CHANNEL_TYPES[0]
    cmds = [[("user_id", VALUE_TYPES[1]), ("display_name", O), ("on_event", C), ("app", INJECTED_TYPES[1])],
            [("_lead", S), ("a__b", S)],
            [("only_ch", CHANNEL_TYPES[3])]]
    if thorough:
        cmds += [[(p["name"], (p["ty"], p["abs"])) for p in random_case(rng)["params"]] for _ in range(12)]
    cases = []
    for i, ps in enumerate(cmds):
        for dc in [None] + CASES8:
            if dc in (None, "camelCase") and any(set(n) == {"_"} for n, _ in ps):
                continue
            for route in ROUTES:
                c = mk_case("route_cmd_%d" % i, ps, None, dc)
                c["route"] = route
                cases.append(c)
    return cases


def evaluate(cases, via="harness", in_domain=True):
    for i, c in enumerate(cases):
        c["id"] = i
    obs = impl_harness(cases) if via == "harness" else impl_route(cases) if via == "route" else impl_cli(cases)
    return judge(cases, obs, via, in_domain)


def judge(cases, obs, via, in_domain=True):
    """cases (with ids) and the implementation's observation of each: model, oracle, class matcher -> Outcomes"""
    sexps, idx = [], []
    for c, o in zip(cases, obs):
        if o.get("skipped") or "crash" in o or ("panic" in o and "plain" not in o):
            continue
        if o.get("abs") is not None:
            ps = [p for f in all_fns(to_project(c)) for p in f["params"]]
            for p, a in zip(ps, o["abs"]):
                if norm_abs(a) != p["abs"]:
                    raise vlib.BuildError("generator abstraction of %r is %r but syn sees %r" % (p["ty"], p["abs"], a))
        sexps.append(case_sexp(c, o))
        idx.append(c["id"])
    res = dict(zip(idx, vlib.run_runner("c04-project", sexps)))
    # spec's camelCase / snake_case against heck on every name
    heck = {}
    for c, o in zip(cases, obs):
        if o.get("heck"):
            ps = [p for f in all_fns(to_project(c)) for p in f["params"]]
            for p, h in zip(ps, o["heck"]):
                if p.get("pat", "ident") != "wild":
                    heck[p["name"]] = h
    if heck and in_domain:
        ns = sorted(heck)
        for n, r in zip(ns, vlib.run_runner("c04-camel", [sx(n) for n in ns])):
            if list(r) != list(heck[n]):
                raise vlib.BuildError("Spec (tauri_camel, tauri_snake)(%r) = %r but heck gives %r" % (n, r, heck[n]))
    names6 = ["keys_plain", "optional_plain", "keys_zod", "optional_zod", "zod_validated_split", "modes_agree"]
    outs = []
    for c, o in zip(cases, obs):
        case = {k: c[k] for k in c if k != "id"}
        case["via"] = via
        if o.get("skipped"):
            continue
        if c["id"] not in res:
            outs.append(Outcome(case, False, False, detail={"impl": "driver crashed: %s" % (o.get("panic") or o.get("crash"))}))
            continue
        r = res[c["id"]]
        if r and r[0] == "runner-error":
            raise vlib.BuildError("runner: %s" % r)
        ncmds = sum(1 for f in all_fns(to_project(c)) if f["command"])
        if len(r) != ncmds:
            raise vlib.BuildError("runner answered %d commands for %d" % (len(r), ncmds))
        corr = ok = True
        failing_kf = []
        percmd = {}
        for name, dom, classes, mp, mz, op, oz, oracle, spec in r:
            if in_domain and dom != "true":
                raise vlib.BuildError("generated case outside the domain of the theorems: %s" % json.dumps(case))
            classes = [x == "true" for x in classes]
            kf = None
            for k in KF_PRIORITY:
                if classes[k]:
                    kf = KF_IDS[k]
                    break
            mp, mz, op, oz = keyres(mp), keyres(mz), keyres(op), keyres(oz)
            c_corr = (mp == op) and (mz == oz)
            verdict = dict(zip(names6, [x == "true" for x in oracle])) if oracle else {}
            c_ok = (bool(oracle) and all(verdict.values())) if in_domain else True
            corr &= c_corr
            ok &= c_ok
            if not c_ok:
                failing_kf.append(kf)
            percmd[name] = {"impl": {"plain": op, "zod": oz}, "model": {"plain": mp, "zod": mz}, "spec_keys": spec,
                            "oracle": verdict, "classes": [KF_IDS[i] for i, x in enumerate(classes) if x],
                            "corr": c_corr, "ok": c_ok}
        # a recorded class explains the case only if every failing command lies in one
        kf = failing_kf[0] if failing_kf and all(failing_kf) else None
        bad = {n: d for n, d in percmd.items() if not (d["corr"] and d["ok"])}
        det = {"commands": bad if bad else dict(list(percmd.items())[:2]), "source": render_source(c)}
        for m in ("plain", "zod"):
            if "error" in o.get(m, {}):
                det["impl_error_" + m] = o[m]["error"]
            if "panic" in o.get(m, {}):
                det["impl_panic_" + m] = str(o[m]["panic"])[:300]
        outs.append(Outcome(case, corr, ok, kf if in_domain else None, detail=det,
                            nontrivial=any(f["params"] for f in all_fns(to_project(c)))))
    return outs


# ---- multi-run histories into one output directory ----
HIST_ROUTES = ["cli-c", "cli-cwd", "build-tauri", "build-typegen"]
REUSE_ROUTES = ["lib-reuse-generator", "lib-reuse-generator-and-analyzer"]     # one long-lived generator object (watch mode)


def impl_history(hists):
    """hist = {"route", "history": [{"state": case, "force": None | "flag" | "config"}, ...]}. For each mode one output
    directory receives every run of the history in turn; sources and configuration files are rewritten before each run;
    after EVERY run types.ts / commands.ts are read back. Returns per history the list of per-step observations."""
    import shutil
    import subprocess

    def harness_route(payload):
        r = subprocess.run([vlib.harness_bin("c04"), "route"], input=json.dumps(payload) + "\n", stdout=subprocess.PIPE,
                           stderr=subprocess.DEVNULL, text=True, timeout=120, env=vlib.ENV)
        lines = [l for l in r.stdout.splitlines() if l.startswith("{")]
        return json.loads(lines[-1]) if lines else {"error": "driver died (exit %s)" % r.returncode}

    def one(h):
        route = h["route"]
        steps = [{"plain": None, "zod": None, "log": {}} for _ in h["history"]]
        if route in REUSE_ROUTES:
            scratch = os.path.join(vlib.RUST_OUT, "sandbox", "c04")
            os.makedirs(scratch, exist_ok=True)
            for mode, key in (("none", "plain"), ("zod", "zod")):
                payload = {"id": 0, "scratch": scratch, "mode": mode, "reuse_analyzer": route.endswith("analyzer"),
                           "rounds": [{"files": render_files(st["state"]), "default_case": to_project(st["state"])["default_case"]}
                                      for st in h["history"]]}
                r = subprocess.run([vlib.harness_bin("c04"), "reuse"], input=json.dumps(payload) + "\n", stdout=subprocess.PIPE,
                                   stderr=subprocess.DEVNULL, text=True, timeout=180, env=vlib.ENV)
                lines = [l for l in r.stdout.splitlines() if l.startswith("{")]
                got = json.loads(lines[-1]) if lines else {}
                for i in range(len(steps)):
                    rounds = got.get("rounds") or []
                    steps[i][key] = rounds[i] if i < len(rounds) else {"error": "driver died: %s" % (got.get("panic") or r.returncode)}
            return steps
        with vlib.Sandbox("c04h") as sb:
            src = sb.path("root/src-tauri/src")
            for mode, key in (("none", "plain"), ("zod", "zod")):
                out = sb.path("out-" + mode)
                for i, st in enumerate(h["history"]):
                    c = st["state"]
                    shutil.rmtree(src, ignore_errors=True)
                    for path, text in render_files(c):
                        sb.write("root/src-tauri/src/" + path, text)
                    dc = to_project(c)["default_case"]
                    snake = {"project_path": src, "output_path": out, "validation_library": mode}
                    camel = {"projectPath": src, "outputPath": out, "validationLibrary": mode}
                    if dc is not None:
                        snake["default_parameter_case"] = dc
                        camel["defaultParameterCase"] = dc
                    if st["force"] == "config":
                        snake["force"] = True
                        camel["force"] = True
                    flag = ["--force"] if st["force"] == "flag" else []
                    tconf = json.dumps({"productName": "demo", "plugins": {"typegen": camel}})
                    r = None
                    if route == "cli-c":
                        sb.write("cfg.json", json.dumps(snake))
                        r = sb.cli(["generate", "-c", sb.path("cfg.json")] + flag, cwd=sb.path("root"))
                    elif route == "cli-cwd":
                        sb.write("root/tauri.conf.json", tconf)
                        r = sb.cli(["generate"] + flag, cwd=sb.path("root"))
                    elif route == "build-tauri":
                        sb.write("root/tauri.conf.json", tconf)
                        hr = harness_route({"id": 0, "cwd": sb.path("root/src-tauri"), "kind": "build"})
                    elif route == "build-typegen":
                        sb.write("root/typegen.json", json.dumps(snake))
                        hr = harness_route({"id": 0, "cwd": sb.path("root/src-tauri"), "kind": "build"})
                    else:
                        raise vlib.BuildError("unknown history route " + route)
                    if r is not None:
                        rc, text = r
                        steps[i]["log"][key] = ("up-to-date" if "up to date" in text else "generated") if rc == 0 else "exit %s" % rc
                        hr = {"panic": text[-300:]} if (rc == 101 or "panicked at" in text) else ({"error": text[-300:]} if rc != 0 else {"ok": True})
                    if "panic" in hr or "error" in hr:
                        steps[i][key] = hr
                    else:
                        def rd(n):
                            p = os.path.join(out, n)
                            return open(p, encoding="utf-8").read() if os.path.exists(p) else None
                        steps[i][key] = {"types": rd("types.ts"), "commands": rd("commands.ts")}
        return steps
    return vlib.pmap(one, hists)


def evaluate_histories(hists):
    """One Outcome per history: after every run the keys reaching invoke must be those the CURRENT sources and
    settings demand (judged exactly like a single run of that state)."""
    obs = impl_history(hists)
    flat, fobs, where = [], [], []
    for hi, (h, steps) in enumerate(zip(hists, obs)):
        for si, (st, o) in enumerate(zip(h["history"], steps)):
            c = json.loads(json.dumps(st["state"]))
            c["id"] = len(flat)
            flat.append(c)
            fobs.append({"id": c["id"], "plain": o["plain"], "zod": o["zod"], "heck": None, "abs": None})
            where.append((hi, si))
    outs = judge(flat, fobs, "history")
    per = {}
    for (hi, si), o in zip(where, outs):
        per.setdefault(hi, []).append((si, o))
    res = []
    for hi, h in enumerate(hists):
        so = per.get(hi, [])
        corr = all(o.corr for _, o in so) and len(so) == len(h["history"])
        ok = all(o.ok for _, o in so) and len(so) == len(h["history"])
        failing = [o.kf for _, o in so if not o.ok]
        kf = failing[0] if failing and all(failing) else None
        det = {"runs": [{"run": si + 1, "force": h["history"][si]["force"], "default_case": to_project(h["history"][si]["state"])["default_case"],
                         "cli_said": obs[hi][si]["log"], "corr": o.corr, "ok": o.ok,
                         "commands": o.detail.get("commands") if not (o.corr and o.ok) else None} for si, o in so]}
        case = {"route": h["route"], "history": h["history"], "via": "history"}
        res.append(Outcome(case, corr, ok, kf, detail=det, nontrivial=True))
    return res


def history_states(rng=None):
    """pairs (X, Y) of states differing in what decides the keys"""
    S, O, C, C2 = VALUE_TYPES[0], OPTION_TYPES[0], CHANNEL_TYPES[0], CHANNEL_TYPES[3]
    base = [("file_path", S), ("retry_count", O), ("app", INJECTED_TYPES[1])]
    pairs = {
        "parameter-case": (mk_case("save_file", base, None, None), mk_case("save_file", base, None, "snake_case")),
        "renamed-parameter": (mk_case("save_file", base, None, None),
                              mk_case("save_file", [("target_path", S)] + base[1:], None, None)),
        "channel-added": (mk_case("save_file", base, None, "kebab-case"),
                          mk_case("save_file", base + [("on_progress", C)], None, "kebab-case")),
        "channel-renamed-and-option": (mk_case("save_file", [("on_chunk", C2), ("file_path", S)], None, None),
                                       mk_case("save_file", [("on_data", C2), ("file_path", O)], None, None)),
        "injected-becomes-value": (mk_case("save_file", [("win", ("Window<R>", P(["Window"], ["T"]))), ("file_path", S)], None, None),
                                   mk_case("save_file", [("win", ("Item", P(["Item"]))), ("file_path", S)], None, None)),
    }
    if rng is not None:
        a, b = random_case(rng), random_case(rng)
        b["name"] = a["name"]
        pairs["random"] = (a, b)
        pj = project_case(rng)
        for fl in pj["files"]:
            for f in fl["fns"]:
                f["macro"] = None          # the attribute's case is judged against one configuration; here it changes
        pj2 = json.loads(json.dumps(pj))
        pj2["default_case"] = rng.choice([x for x in [None, "snake_case", "PascalCase", "kebab-case"] if x != pj["default_case"]])
        pairs["random-project-case"] = (pj, pj2)
    return pairs


HIST_SHAPES = [            # (state, force) per run; n = unforced, f = forced
    [("X", "n"), ("Y", "f"), ("X", "n")],
    [("X", "n"), ("Y", "n"), ("X", "n")],
    [("X", "n"), ("Y", "f"), ("Y", "n"), ("X", "n")],
    [("X", "f"), ("Y", "n"), ("X", "n"), ("Y", "n")],
    [("X", "n"), ("X", "f"), ("Y", "f"), ("X", "n")],
    [("X", "n"), ("Y", "f")],
    [("X", "n"), ("X", "n")],
]


def history_cases(rng, thorough):
    hists = []

    def build(pair, shape, route, fkind):
        x, y = pair
        steps = []
        for st, f in shape:
            force = None if f == "n" else ("config" if (route.startswith("build") or fkind == "config") else "flag")
            steps.append({"state": json.loads(json.dumps(x if st == "X" else y)), "force": force})
        return {"route": route, "history": steps}
    pairs = history_states()
    k = 0
    for pname, pair in pairs.items():
        for shape in HIST_SHAPES:
            for route in HIST_ROUTES:
                k += 1
                if not thorough and len(shape) != 3 and k % 3:      # quick: every 3-run shape, a third of the others
                    continue
                hists.append(build(pair, shape, route, "config" if k % 2 else "flag"))
    for _ in range(400 if thorough else 30):
        pr = history_states(rng)
        pair = pr[rng.choice(["random", "random-project-case"])]
        n = rng.randint(2, 4)
        shape = [(rng.choice("XY"), rng.choice("nnf")) for _ in range(n)]
        hists.append(build(pair, shape, rng.choice(HIST_ROUTES), rng.choice(["flag", "config"])))
    return hists


# ---- histories whose edit touches TWO commands at once (a parameter / channel changes its owner) ----
PAIR_EDIT_KINDS = ["move-channel", "move-channel-one-of-two", "move-channel-next-to-another", "exchange-channels", "move-value",
                   "move-option", "swap-parameter-lists", "move-channel-to-helper", "exchange-values"]
PAIR_PLACEMENTS = ["one-file-a-b", "one-file-b-a", "two-files-a-first", "two-files-b-first", "one-file-a-c-b", "one-file-c-b-a"]


def _mkfn(name, ps, command=True, attr="tauri::command"):
    return {"name": name, "command": command, "macro": None, "attr": attr,
            "params": [{"name": n, "ty": t[0], "abs": t[1]} for n, t in ps]}


def pair_edit_pair(kind, placement, default_case=None):
    """(X, Y): two project states that differ ONLY in which of the two functions a, b owns a parameter (or in an exchange
    between them); every other function, the file set and the settings stay as they are. For the channel moves the sequence
    of (name, message type) over all commands in file order is the same in X and Y."""
    S, I, B, O = VALUE_TYPES[0], VALUE_TYPES[1], VALUE_TYPES[3], OPTION_TYPES[0]
    C, C2, C3 = CHANNEL_TYPES[2], CHANNEL_TYPES[3], CHANNEL_TYPES[1]
    a0, b0 = [("job_id", S)], [("job_id", S)]
    b_cmd = True
    if kind == "move-channel":
        ax, bx, ay, by = a0 + [("on_progress", C)], b0, a0, b0 + [("on_progress", C)]
    elif kind == "move-channel-one-of-two":
        ax, bx = a0 + [("on_progress", C), ("on_done", C2)], b0
        ay, by = a0 + [("on_progress", C)], b0 + [("on_done", C2)]
    elif kind == "move-channel-next-to-another":
        ax, bx = [("on_progress", C)] + a0, [("on_done", C2)] + b0 + [("limit", O)]
        ay, by = a0, [("on_progress", C), ("on_done", C2)] + b0 + [("limit", O)]
    elif kind == "exchange-channels":
        ax, bx = a0 + [("on_progress", C)], [("on_chunk", C3)] + b0
        ay, by = a0 + [("on_chunk", C3)], [("on_progress", C)] + b0
    elif kind == "move-value":
        ax, bx, ay, by = a0 + [("dry_run", B)], b0, a0, b0 + [("dry_run", B)]
    elif kind == "move-option":
        ax, bx = [("retry_count", O)] + a0 + [("app", INJECTED_TYPES[1])], b0 + [("on_progress", C)]
        ay, by = a0 + [("app", INJECTED_TYPES[1])], [("retry_count", O)] + b0 + [("on_progress", C)]
    elif kind == "swap-parameter-lists":
        ax, bx = [("file_path", S), ("on_chunk", C2), ("limit", O)], [("user_id", I), ("state", INJECTED_TYPES[4])]
        ay, by = bx, ax
    elif kind == "move-channel-to-helper":
        b_cmd = False
        ax, bx, ay, by = a0 + [("on_progress", C)], b0, a0, b0 + [("on_progress", C)]
    elif kind == "exchange-values":
        ax, bx = a0 + [("max_len", I)], b0 + [("user_name", S)]
        ay, by = a0 + [("user_name", S)], b0 + [("max_len", I)]
    else:
        raise KeyError(kind)
    cfn = _mkfn("cancel_all", [("reason", O), ("on_cancelled", CHANNEL_TYPES[0])], attr="command")

    def state(pa, pb):
        fa, fb = _mkfn("start_job", pa), _mkfn("watch_job", pb, command=b_cmd)
        if placement == "one-file-a-b":
            files = [{"path": "lib.rs", "fns": [fa, fb]}]
        elif placement == "one-file-b-a":
            files = [{"path": "lib.rs", "fns": [fb, fa]}]
        elif placement == "two-files-a-first":
            files = [{"path": "a_cmds.rs", "fns": [fa]}, {"path": "lib.rs", "fns": [fb, cfn]}]
        elif placement == "two-files-b-first":
            files = [{"path": "a_cmds.rs", "fns": [fb]}, {"path": "sub/z_more.rs", "fns": [cfn, fa]}]
        elif placement == "one-file-a-c-b":
            files = [{"path": "lib.rs", "fns": [fa, cfn, fb]}]
        elif placement == "one-file-c-b-a":
            files = [{"path": "lib.rs", "fns": [cfn, fb, fa]}]
        else:
            raise KeyError(placement)
        return json.loads(json.dumps({"default_case": default_case, "files": files}))
    return state(ax, bx), state(ay, by)


def keyed(p):
    """a parameter that gets a key (value, Option or channel) and is bound by a plain identifier"""
    return p.get("pat", "ident") == "ident" and not any(p["ty"] == t[0] for t in INJECTED_TYPES + KF_TYPES[0])


def random_pair_edit(rng):
    """A random project with at least two commands and ONE edit between two of its functions: a keyed parameter moves from one
    to the other, the two exchange their channels, or they swap their whole parameter lists. None if the draw does not fit."""
    x = project_case(rng)
    fns = [f for fl in x["files"] for f in fl["fns"]]
    cmds = [i for i, f in enumerate(fns) if f["command"]]
    if len(cmds) < 2:
        return None
    y = json.loads(json.dumps(x))
    yf = [f for fl in y["files"] for f in fl["fns"]]
    i, j = rng.sample(cmds, 2)
    if rng.random() < 0.25:
        j = rng.choice([k for k in range(len(fns)) if k != i])          # the other one may be a helper
    op = rng.choice(["move", "move", "move-channel", "move-channel", "exchange-channels", "swap-lists"])
    a, b = yf[i], yf[j]
    if op == "swap-lists":
        a["params"], b["params"] = b["params"], a["params"]
    elif op == "exchange-channels":
        def is_ch(p):
            return any(p["ty"] == t[0] for t in CHANNEL_TYPES)
        ca, cb = [p for p in a["params"] if is_ch(p)], [p for p in b["params"] if is_ch(p)]
        a["params"] = [p for p in a["params"] if not is_ch(p)] + cb
        b["params"] = [p for p in b["params"] if not is_ch(p)] + ca
    else:
        cand = [p for p in a["params"] if keyed(p) and (op == "move" or any(p["ty"] == t[0] for t in CHANNEL_TYPES))]
        if not cand:
            return None
        p = rng.choice(cand)
        a["params"].remove(p)
        b["params"].insert(rng.randint(0, len(b["params"])), p)
    for f in (a, b):
        names = [p["name"] for p in f["params"] if p.get("pat", "ident") != "wild"]
        if len(set(names)) != len(names):
            return None
    if json.dumps(x) == json.dumps(y):
        return None
    return x, y, op


PAIR_SHAPES = [[("X", "n"), ("Y", "n")], [("X", "n"), ("Y", "n"), ("X", "n")], [("Y", "n"), ("X", "n")],
               [("X", "f"), ("Y", "n"), ("Y", "n")], [("Y", "n"), ("X", "n"), ("Y", "n")]]


def pair_edit_cases(rng, thorough):
    """every kind of two-command edit x every placement of the two commands x every history route (unforced runs, so that
    whatever decides 'up to date' has to notice the edit); the same on one long-lived generator; random projects with one
    such edit. Returns (histories, tally)."""
    hists, tally = [], {}

    def build(x, y, shape, route):
        steps = []
        for st, f in shape:
            force = None if f == "n" else ("config" if route.startswith("build") else "flag")
            steps.append({"state": json.loads(json.dumps(x if st == "X" else y)), "force": force})
        return {"route": route, "history": steps}
    k = 0
    for kind in PAIR_EDIT_KINDS:
        for pi, placement in enumerate(PAIR_PLACEMENTS):
            x, y = pair_edit_pair(kind, placement, [None, "snake_case", None, "kebab-case", None, "PascalCase"][pi])
            for route in HIST_ROUTES:
                k += 1
                if thorough:
                    shapes = PAIR_SHAPES
                else:
                    shapes = [PAIR_SHAPES[0]] if route in ("cli-c", "build-tauri") else [PAIR_SHAPES[1 + k % 4]]
                    if route in ("cli-cwd", "build-typegen") and (k // 4) % 2:
                        continue                                      # quick: the two main routes always, the twins every other pair
                for shape in shapes:
                    hists.append(build(x, y, shape, route))
                    tally[kind] = tally.get(kind, 0) + 1
            if thorough or pi in (0, 2):
                hists.append(build(x, y, PAIR_SHAPES[1], REUSE_ROUTES[pi % 2]))
                tally[kind] = tally.get(kind, 0) + 1
    want = 400 if thorough else 40
    got = 0
    for _ in range(want * 20):
        if got >= want:
            break
        r = random_pair_edit(rng)
        if r is None:
            continue
        x, y, op = r
        got += 1
        hists.append(build(x, y, rng.choice(PAIR_SHAPES), rng.choice(HIST_ROUTES + HIST_ROUTES + REUSE_ROUTES[:1])))
        tally["random-" + op] = tally.get("random-" + op, 0) + 1
    return hists, tally


def reuse_cases(rng, thorough):
    """2-3 rounds on one generator object; signatures or the parameter case differ between rounds (same file set)"""
    hists = []
    for pname, (x, y) in history_states().items():
        for route in REUSE_ROUTES:
            for seq in ("XY", "XYX", "YXY"):
                hists.append({"route": route, "history": [{"state": json.loads(json.dumps(x if s_ == "X" else y)), "force": None} for s_ in seq]})
    for _ in range(300 if thorough else 30):
        pr = history_states(rng)
        x, y = pr[rng.choice(["random", "random-project-case"])]
        seq = rng.choice(["XY", "XYX", "XYY", "YX"])
        hists.append({"route": rng.choice(REUSE_ROUTES),
                      "history": [{"state": json.loads(json.dumps(x if s_ == "X" else y)), "force": None} for s_ in seq]})
    return hists


def load_witnesses():
    return [(e["id"], dict(e["witness"])) for e in vlib.load_known_findings("C04")]


def cfg_default_probe():
    """The model is fed camelCase when the configuration file does not mention default_parameter_case;
    that this is what config.rs does is itself observed here (a change of the default is caught by the
    ordinary cases, whose configuration mostly omits the key)."""
    return None


def distribution(rep, name, cases):
    d = rep.extra.setdefault("distribution", {})
    st = {"cases": len(cases), "files": {}, "functions": {}, "commands": {}, "params": {}, "default_case": {}, "macro": {}, "kinds": {}}

    def inc(m, k):
        m[k] = m.get(k, 0) + 1
    for c in cases:
        pr = to_project(c)
        fns = all_fns(pr)
        inc(st["files"], len(pr["files"]))
        inc(st["functions"], len(fns))
        inc(st["commands"], sum(1 for f in fns if f["command"]))
        inc(st["default_case"], str(pr["default_case"]))
        for f in fns:
            inc(st["params"], len(f["params"]))
            inc(st["macro"], str(f.get("macro")))
            for p in f["params"]:
                k = ("option" if any(p["ty"] == t[0] for t in OPTION_TYPES) else "injected" if any(p["ty"] == t[0] for t in INJECTED_TYPES)
                     else "channel" if any(p["ty"] == t[0] for t in CHANNEL_TYPES) else "value" if any(p["ty"] == t[0] for t in VALUE_TYPES) else "other")
                inc(st["kinds"], k)
    d[name] = st


def run(rep):
    vlib.build_harness("c04")
    vlib.build_runner("c04")
    vlib.build_repo_bin()
    rng = random.Random(rep.seed)
    thorough = rep.tier == "thorough"
    # corpus first: witnesses of the recorded findings, through the library and through the real binary
    wit = [w for _, w in load_witnesses()]
    corpus_dir = os.path.join(vlib.VERIF, "corpus", "C04")
    extra = []
    if os.path.isdir(corpus_dir):
        for f in sorted(os.listdir(corpus_dir)):
            if f.endswith(".json"):
                extra.append(json.load(open(os.path.join(corpus_dir, f))))
    rep.add("corpus", evaluate([dict(w) for w in wit] + [dict(e["case"]) for e in extra if "case" in e and e.get("in_domain", True)]))
    rep.add("corpus-cli", evaluate([dict(w) for w in wit], via="cli"))
    hist_corpus = [e["history_case"] for e in extra if "history_case" in e]
    if hist_corpus:
        rep.add("corpus-histories", evaluate_histories(hist_corpus))
    odd_corpus = [dict(e["case"]) for e in extra if "case" in e and not e.get("in_domain", True)]
    if odd_corpus:
        rep.add("corpus-outside-domain", evaluate(odd_corpus, in_domain=False))
    # exhaustive small scope
    ex1 = exhaustive_names()
    distribution(rep, "exhaustive-names", ex1)
    rep.add("exhaustive-names", evaluate(ex1))
    ex2 = exhaustive_spellings()
    distribution(rep, "exhaustive-spellings", ex2)
    rep.add("exhaustive-spellings", evaluate(ex2))
    # several functions per file and per project, names overlapping
    om = overlap_matrix()
    distribution(rep, "overlap-matrix", om)
    rep.add("overlap-matrix", evaluate(om))
    pj = [project_case(rng) for _ in range(6000 if thorough else 500)]
    distribution(rep, "random-projects", pj)
    rep.add("random-projects", evaluate(pj))
    pjc = [project_case(rng) for _ in range(600 if thorough else 40)]
    rep.add("random-projects-cli", evaluate(pjc, via="cli"))
    # every way a setting reaches the generator
    rc = route_cases(rng, thorough)
    rep.extra.setdefault("distribution", {})["config-routes"] = {"cases": len(rc), "routes": ROUTES, "parameter_case": [None] + CASES8}
    rep.add("config-routes", evaluate(rc, via="route"))
    # histories of 2-4 runs into one output directory
    hs = history_cases(rng, thorough)
    rep.extra.setdefault("distribution", {})["run-histories"] = {
        "histories": len(hs), "runs": sum(len(h["history"]) for h in hs) * 2, "routes": HIST_ROUTES,
        "forced_runs": sum(1 for h in hs for s_ in h["history"] if s_["force"])}
    rep.add("run-histories", evaluate_histories(hs))
    # histories whose edit moves a parameter / channel from one command to another (or exchanges between two commands)
    pe, pe_tally = pair_edit_cases(rng, thorough)
    rep.extra.setdefault("distribution", {})["pair-edit-histories"] = {
        "histories": len(pe), "runs": sum(len(h["history"]) for h in pe) * 2, "routes": HIST_ROUTES + REUSE_ROUTES,
        "kinds": pe_tally, "placements": PAIR_PLACEMENTS}
    rep.add("pair-edit-histories", evaluate_histories(pe))
    # the library API as long-lived objects: one generator (and analyzer) for several rounds
    ru = reuse_cases(rng, thorough)
    rep.extra.setdefault("distribution", {})["reused-objects"] = {"histories": len(ru), "rounds": sum(len(h["history"]) for h in ru) * 2,
                                                                  "routes": REUSE_ROUTES}
    rep.add("reused-objects", evaluate_histories(ru))
    # parameter patterns
    pm = pattern_matrix()
    distribution(rep, "pattern-matrix", pm)
    rep.add("pattern-matrix", evaluate(pm))
    # source layout
    lm = layout_matrix()
    rep.extra.setdefault("distribution", {})["layout-matrix"] = {"cases": len(lm), "layouts": LAYOUTS}
    rep.add("layout-matrix", evaluate(lm))
    # random, outside every class (where the theorems speak) and inside each class
    n = 40000 if thorough else 1500
    main = [random_case(rng) for _ in range(n)]
    distribution(rep, "random", main)
    rep.add("random", evaluate(main))
    nk = 400 if thorough else 40
    inside = [random_case(rng, k) for k in range(4) for _ in range(nk)]
    distribution(rep, "random-inside-classes", inside)
    rep.add("random-inside-classes", evaluate(inside))
    ncli = 3000 if thorough else 120
    cli = [random_case(rng) for _ in range(ncli)]
    distribution(rep, "random-cli", cli)
    rep.add("random-cli", evaluate(cli, via="cli"))
    odd = odd_cases(rng, 3000 if thorough else 250)
    rep.add("outside-domain", evaluate(odd, in_domain=False))
    rep.extra["sizes"] = {k: v["cases"] for k, v in rep.streams.items()}


def replay(rep, payload):
    vlib.build_harness("c04")
    vlib.build_runner("c04")
    vlib.build_repo_bin()
    items = payload.get("disagreeing_cases") or [payload]
    for it in items:
        c = dict(it["case"])
        via = c.pop("via", "harness")
        stream = it.get("stream", "replay")
        if via == "history":
            rep.add(stream, evaluate_histories([c]))
        else:
            rep.add(stream, evaluate([c], via=via, in_domain=("outside-domain" not in stream)))
