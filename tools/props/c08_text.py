"""C08 round 7: the text level against the real tool. For struct-only projects inside the feature set of the text-level
generator models (Model/Pipeline.v, Events.v; default naming, plain mode) the files of a forced generation by the real
tool are compared with the model's text computed from the analysed data the fingerprint is computed from
(Spec/C08TextSpec.v: token streams of types.ts, commands.ts, events.ts through the specification lexer).
This is the run-time tie for `view determines text` (C08_text_function_of_view / C08_types_ts_of_analysis)."""
import copy

from tools import vlib
from tools.vlib import Outcome, sx
from tools.props import c08_common as C


def _f(name, ty, rename=None, skip=False):
    return {"name": name, "type": ty, "public": True, "rename": rename, "skip": skip, "validator": None}


def rich_project(variant):
    """the sample of Model/Pipeline.v as a c08 description (+ variants: rename_all, renames, skip, options, channels)"""
    user = {"name": "User", "is_enum": False, "rename_all": ["camelCase", None, "PascalCase", "camelCase"][variant % 4], "fields": [
        _f("user_id", "i32"), _f("nick", "Option<String>"), _f("tags", "Vec<String>", rename="allTags" if variant % 2 == 0 else None),
        _f("secret", "String", skip=(variant % 3 != 1)), _f("pair", "(String, i32)"),
        _f("inner", "HashMap<String, Vec<u8>>")]}
    prog = {"name": "Progress", "is_enum": False, "rename_all": None, "fields": [_f("percent", "u32"), _f("note_text", "Option<String>")]}
    cmds = [
        {"name": "get_user", "async": True, "rename_all": None,
         "params": [{"name": "user_id", "type": "i32"}, {"name": "opt_x", "type": "Option<i32>"}],
         "ret": "Result<User, String>", "channels": []},
        {"name": "stream", "async": False, "rename_all": None, "params": [{"name": "m", "type": "HashMap<String, i32>"}],
         "ret": "Vec<User>", "channels": [{"name": "on_ev", "msg": "Progress"}] if variant % 2 == 0 else []},
        {"name": "nothing", "async": False, "rename_all": None, "params": [], "ret": "Option<User>", "channels": []},
    ]
    if variant >= 4:
        cmds.append({"name": "only_chan", "async": False, "rename_all": None, "params": [], "ret": "()",
                     "channels": [{"name": "ch", "msg": "String"}]})
    files = [{"path": "lib.rs", "structs": [user, prog], "commands": cmds[:2],
              "events": [{"name": "status-changed", "payload": "Progress"}] if variant % 3 == 0 else []},
             {"path": "more.rs", "structs": [], "commands": cmds[2:],
              "events": [{"name": "tick", "payload": "String"}, {"name": "status-changed", "payload": "Progress"}] if variant % 2 else []}]
    if variant % 5 == 4:
        files.reverse()
    return {"files": files, "cfg": C.default_cfg()}


def text_cases(tier):
    cases = []
    for n in (1, 2, 3):
        for structs in (True, False):
            for ev in (False, True):
                cases.append({"kind": "multi", "n": n, "structs": structs, "events": ev})
    for v in range(8 if tier == "quick" else 20):
        cases.append({"kind": "rich", "variant": v})
    return [dict(c, entry=e) for c in cases for e in ("cli", "build")]


def desc_of(case):
    if case["kind"] == "multi":
        return C.multi_project(case["n"], case["structs"], events_each=case["events"])
    return rich_project(case["variant"])


def run_text(case):
    desc = desc_of(case)
    ref = C.reference(desc, case["entry"])
    files = ref["files"]
    txt = lambda n: files[n].decode("utf-8") if isinstance(files.get(n), bytes) else files.get(n)
    return desc, ref["decision"], txt("types.ts"), txt("commands.ts"), txt("events.ts")


def eval_text(cases):
    res = vlib.pmap(run_text, cases)
    qs = []
    for desc, dec, t, k, e in res:
        n = len(desc["files"])
        # files are analysed in sorted path order (analysis/mod.rs file_paths.sort())
        order = sorted(range(n), key=lambda i: desc["files"][i]["path"])
        qs.append(sx([[order, []], C.sx_project(desc), C.sx_cfg(desc["cfg"]), t or "", k or "", [e] if e is not None else []]))
    ms = vlib.run_runner("c08-text", qs)
    outs = []
    for case, (desc, dec, t, k, e), m in zip(cases, res, ms):
        dt, dc, ev = m[0], m[1], m[2] == "true"
        has_ev = any(f["events"] for f in desc["files"])
        corr = (dec == "regenerated" and t is not None and k is not None and dt == [] and dc == [] and ev
                and (e is not None) == has_ev)
        outs.append(Outcome(case, corr, True, kf=None, nontrivial=True,
                            detail={"decision": dec, "types_first_diff": dt, "commands_first_diff": dc, "events_equal": ev,
                                    "events_written": e is not None}))
    return outs
