"""C06 - property keys and enum literals equal serde's wire names.
One case = one container `T0` (struct with named fields or enum with unit variants) with serde
attributes. Implementation side (harness/src/bin/c06.rs): token strings of every #[serde(..)]
(proc_macro2 printing), the serialized names computed by StructParser + FieldContext (both visitors),
and the keys / literals read back from the types.ts that generate_from_config writes in plain and in
Zod mode. Model side (coq/Model/C06Serde.v, extracted): token strings, emitted names. Oracle
(coq/Spec/C06SerdeRule.v, extracted): serde's names. types.ts is read through the extracted module
parser (Spec/TsModule.v via Spec/C06Keys.v), with a line reader (c06_ts.py) when a key makes the file
leave the TypeScript grammar (kebab-case keys and the like - that is C01's subject, not C06's)."""
import json
import os
import random

from tools import vlib
from tools.vlib import Outcome, sx
from tools.props import c06_gen as gen
from tools.props import c06_ts as tsread
from tools.props import c06_routes as routes

MANIFEST = {
    "level_text": "Coq theorems (Properties/C06.v, 44 theorems, no axioms) about a Gallina transcription of serde_parser.rs (skip by substring test, rename / rename_all by the whole-key scanner find_key / written_value on the proc_macro2 token string), struct_parser.rs (unraw names, skip filter for fields and variants), NamingContext::apply_naming_convention / compute_field_name / compute_variant_name and serde-rename-rule's apply_to_field / apply_to_variant: for every configured default_field_case, container kind, container rename_all, identifier (plain or raw; ASCII under every rule, UTF-8 under every field rule and the PascalCase / lowercase / UPPERCASE variant rules and under camelCase with an ASCII first character) and attribute list (rename = any string, skip, any other name / name = any string, in any order, in one or several #[serde] attributes) in every legal serde spelling (rename = v, rename(serialize = v, deserialize = w), likewise rename_all, other container keys anywhere), for unit / tuple / struct variants, outside four narrow recorded classes (C06-2, -3, -4, -5) and the configuration class C06-7 the emitted names are exactly serde's wire names (serde_derive case.rs apply_to_field / apply_to_variant, item rename wins, absent iff skip) (C06_names_cfg; C06_names for the default configuration, where C06-7 is empty); other attributes are inert there; each class has a computed counterexample; the run-time oracle is proved exact (C06_oracle_exact). String level, every byte string: js_unescape inverts escape_js, a quoted key or enum literal lexes (Spec/TsLex) to one string token whose decoded body is the name, the key token before the colon decodes to the name whichever form ts_key chose, and for the enum alias template the text of any non-empty literal list lexes to its tokens and the type parser plus lits_of_ty read exactly the names back; the five sequential replaces of the escape functions are proved to be the character-wise map (C06_escape_code_charwise); whole declarations: for every identifier N, every member list (key bare or quoted as ts_key chose, optional marker, any value text that lexes before the separator and is read as one unit by the type / expression parser) and every non-empty name list, the text of the interface, of the enum alias, of the z.object constant and of the z.enum constant as the templates print them is read by lex_module + parse_module + read_keys (the reader the run-time check applies to types.ts) as exactly the serialized names (C06_read_interface / _alias / _zobject / _zenum, with the list-level lemmas C06_interface_members_read through p_members, C06_zobject_props_read through p_props, C06_zenum_array_read through p_exlist). Tied to /repo on every run (library API, the real CLI binary through init / generate / -c / tauri.conf.json, and the build-script entry point): ~10^4 containers through the real StructParser, FieldContext and both generators (keys read back from types.ts) against the extracted model and oracle, the printed declaration of every case compared byte for byte with the extracted model text, and the specification against the real serde_derive on 45 containers (20 of them with non-ASCII identifiers).",
    "design_ref": "DESIGN.md section 5 C06",
    "level_note": "Non-ASCII identifiers are in the domain exactly where serde_derive computes with ASCII operations (every field rule; PascalCase / lowercase / UPPERCASE variant rules; camelCase when the first character of the PascalCase form / variant name is ASCII - otherwise the derive macro panics and the type does not compile); the four SnakeCase-based variant rules call char::is_uppercase (Unicode), for which no table exists in the development, and stay ASCII-only. String level: ts_key's Unicode test is_identifier_name is a parameter (the bare flag of a member, constrained only by bare -> identifier bytes); the text after a colon (TypeScript type, Zod expression) is abstract - any text that lexes before the separator and is read as one unit by ptype / p_expr 62, of which the parsing half is discharged for every normal-form type tree / Zod expression by C10's round trips (C06_reads_type, C06_reads_expr) while the lexing half stays a premise (C10's lexing lemmas use a boundary that does not admit the semicolon); an enum without literals (never / z.never()) and the rest of the file (header, imports, z.infer alias, other declarations) are outside the four declaration texts and covered by the run-time reader only. The declaration texts of the model are compared with the real types.ts byte for byte on every case (differential). The specification of serde's rules is a transcription of serde_derive's case.rs, compared on every run with types derived by the real serde_derive on 45 fixed containers (finite validation). The tie between model and code is differential (bounded).",
    "technique": "Rocq/Coq proof over hand-written model + correspondence check (extracted OCaml vs Rust harness)"
}

RULE = ("unicode: {struct, enum} x 8 rules and none x 10 / 9 non-ASCII identifiers (accented, CJK, raw, non-ASCII head, inner underscore) x 5 attribute shapes, in the domain where serde uses ASCII operations, correspondence only elsewhere; every case: the printed declaration of T0 (plain and Zod) equals the model text; gated: 128 containers whose rename_all / rename / skip sit behind cfg_attr with a predicate that is false in the oracle's build (5 predicates), alone and beside real attributes, also drawn in random; histories: 12 edits of serde attributes (rename equal to the identifier under a rule, rename_all added / removed / changed / respelled, skip toggled, rename added / changed, fields and variants) as histories v1 v2 v1 of unforced runs into one output directory, CLI and build route, both modes, keys judged after every run; routes: 4 containers x 11 configuration routes (init, init then generate, init -v zod, init -o file then generate -c, generate -c, tauri.conf.json in three places, from_tauri_config, BuildSystem with tauri.conf.json / typegen.json) x the default_field_case written (absent / 4 values incl. an unknown one), real CLI binary in a sandbox; types: 17 field types x 3 rules x 4 attribute shapes; spellings: {struct, enum} x 9 container rules x 12 spellings of the container attributes (rename_all = .., rename_all(serialize = .., deserialize = ..) same / one-sided / different / either order, other keys before and after, split attributes) x unit / tuple / struct variants on multi-word identifiers; every stream: three white-space styles, variant shapes, rename(serialize = .., deserialize = ..); exhaustive: 9 container rules x {struct, enum} x every item-attribute shape of the generator (none, rename, skip, "
        "skip_serializing_if, default, default = s, pairs in both orders, split over two #[serde]) x 16 identifier shapes, one "
        "item per container (quick: every third (shape, identifier) pair per rule; thorough: all); random: containers of 1-5 items with 0-3 attributes each over a value alphabet containing skip / "
        "rename / quotes / backslashes / non-ASCII; malformed: out-of-domain attribute text (correspondence only); real-serde: the "
        "specification against 45 containers derived by the real serde_derive (20 with non-ASCII identifiers). A case is "
        "non-trivial when it has a container rule or an item attribute; distinct = distinct (container, config) pairs")
TRUSTED = [
    "Spec/C06SerdeRule.v is a transcription of serde_derive-1.0.228 src/internals/case.rs (identical in 1.0.219/1.0.229) and of the rename/skip rules of attr.rs; validated on every run (stream real-serde) against the serde_derive + serde_json the harness is compiled with: 8 rules and none x {struct, enum} x 16 identifier shapes plus rename / skip / default / skip_serializing_if items, and 20 types with non-ASCII identifiers under the rules of the widened domain",
    "Spec/TsModule.v + Spec/C06Keys.v read types.ts (quoted keys and literals decoded by js_unescape); tools/props/c06_ts.py (line reader) only when the file is outside the module grammar",
    "tools/props/c06_gen.py prints the Rust source of a case; the printed attribute text is validated on every case against proc_macro2 (token strings equal the model's)",
]
ASSUMPTIONS = ["identifiers are ASCII (plain or raw), or UTF-8 under the rules serde computes with ASCII operations (see level_note)"]

PRINT_STATS = {"decls": 0, "bytewise": 0}
KF_IDS = ["C06-2", "C06-3", "C06-4", "C06-5", "C06-7"]      # order of ExC06.c06_classes; C06-1, -6, -8, -9 are repaired      # order of ExC06.c06_classes; C06-1 and C06-6 are repaired


def container_sx(c):
    return [c["kind"], c.get("cattrs", []), [[it["ident"], it.get("attrs", [])] for it in c["items"]]]


def read_ts(kind, mode, text, runner_decls):
    """names read from one types.ts. Returns (names|None, how).
    Since C01-bare-key-quote / C01-enum-literal-escape every key that is not an identifier name and every
    enum literal is printed as a double-quoted escaped literal, so the file is in the module grammar and
    the extracted module parser (Spec/C06Keys.v, which decodes the escapes) is the reader; the line
    reader (also decoding) is only the fall-back when the file cannot be parsed."""
    want = {("struct", "plain"): "interface", ("enum", "plain"): "literals",
            ("struct", "zod"): "zobject", ("enum", "zod"): "zenum"}[(kind, mode)]
    if runner_decls:
        for d in runner_decls[0]:
            if d[0] == want:
                return list(d[1]), "parser"
    return tsread.read(kind, mode, text), "lines"


def is_raw(c):
    return any(m[0] == "raw" for g in c.get("cattrs", []) for m in g) or \
        any(m[0] == "raw" for it in c["items"] for g in it.get("attrs", []) for m in g)


def evaluate_raw(cases):
    """out-of-domain attribute text: the model is run on the token strings proc_macro2 printed;
    correspondence of the scanners and of the naming only (the property does not speak here)."""
    hin = [{"id": i, "src": gen.rust_source(c), "dfc": c.get("dfc", "snake_case"), "e2e": False} for i, c in enumerate(cases)]
    obs = vlib.run_harness("c06-names", hin, per_case_timeout=60)
    req, idx = [], []
    for i, (c, o) in enumerate(zip(cases, obs)):
        if "tokens" in o:
            req.append(sx([c.get("dfc", "snake_case"), c["kind"], o["ctokens"],
                           [[it["ident"], t] for it, t in zip(c["items"], o["tokens"])]]))
            idx.append(i)
    res = dict(zip(idx, vlib.run_runner("c06-eval-raw", req)))
    outs = []
    for i, (c, o) in enumerate(zip(cases, obs)):
        case = {k: c[k] for k in ("kind", "cattrs", "cgated", "items", "dfc", "ws") if k in c}
        if o.get("skipped"):
            continue
        if "syn_error" in o or o.get("no_info"):
            continue                    # attribute text that is not a token stream: nothing to compare
        if "panic" in o:
            # a panic of the scanners would be C15's subject; here it is only a disagreement with the model
            outs.append(Outcome(case, False, True, None, {"impl": "PANIC " + str(o["panic"]), "rust": gen.rust_source(c)}, False))
            continue
        m = res[i]
        if m and m[0] == "runner-error":
            raise vlib.BuildError("runner: %s (case %s)" % (m, json.dumps(c)))
        model_names = list(m[1]) if m[0] == "ok" else None
        corr = model_names is not None and o["names"] == model_names and o["names_zod"] == model_names
        outs.append(Outcome(case, corr, True, None, {"impl": {"names": o["names"]}, "model": model_names, "in_domain": False,
                                                     "tokens_impl": o["tokens"], "rust": gen.rust_source(c)}, False))
    return outs



# ---------------------------------------------------------------- printed declarations (deepening round 7)
def _split_key(line):
    """line = 'KEY[?]: VALUE' as the templates print it; returns (bare, opt, value) or None"""
    if line.startswith('"'):
        i = 1
        while i < len(line) and line[i] != '"':
            i += 2 if line[i] == "\\" else 1
        if i >= len(line):
            return None
        bare, end = False, i + 1
    else:
        idx = [j for j in (line.find("?"), line.find(":")) if j >= 0]
        if not idx:
            return None
        bare, end = True, min(idx)
    opt = line[end:end + 1] == "?"
    if opt:
        end += 1
    if line[end:end + 2] != ": ":
        return None
    return bare, opt, line[end + 2:]


def printed_decl(kind, mode, text, names):
    """the declaration of T0 cut out of the real file and the request that makes the model
    (Model/C06Print.v interface_text / zobject_text / alias_text / zenum_text) print it again from the
    serialized names, the choice ts_key made (bare or quoted) and the text after each colon.
    Returns (real_text, request) or None when the declaration is one the model texts do not cover
    (an enum without literals prints never / z.never())."""
    if kind == "struct":
        head, tail, what, sep = (("export interface T0 {", "\n}", "interface", ";") if mode == "plain"
                                 else ("export const T0Schema = z.object({", "\n});", "zobject", ","))
        a = text.find(head)
        b = text.find(tail, a) if a >= 0 else -1
        if a < 0 or b < 0:
            return None
        real = text[a:b + len(tail)]
        lines = [ln for ln in real[len(head):len(real) - len(tail)].split("\n") if ln]
        if len(lines) != len(names):
            return real, None
        members = []
        for ln, name in zip(lines, names):
            if not ln.startswith("  ") or not ln.endswith(sep):
                return real, None
            k = _split_key(ln[2:-1])
            if k is None:
                return real, None
            members.append([name, k[0], k[1], k[2]])
        return real, sx([what, "T0", members, real])
    if not names:
        return None
    head, what = ("export type T0 = ", "alias") if mode == "plain" else ("export const T0Schema = z.enum([", "zenum")
    a = text.find(head)
    if a < 0:
        return None
    b = text.find("\n", a)
    real = text[a:b if b >= 0 else len(text)]
    return real, sx([what, "T0", [[n, False, False, ""] for n in names], real])


def evaluate(cases, e2e=True):
    raw = [c for c in cases if is_raw(c)]
    if raw:
        return evaluate_raw(raw) + evaluate([c for c in cases if not is_raw(c)], e2e)
    if not cases:
        return []
    """cases: list of {"kind","cattrs","items","dfc"}; returns Outcomes."""
    hin = [{"id": i, "src": gen.rust_source(c), "dfc": c.get("dfc", "snake_case"), "e2e": e2e} for i, c in enumerate(cases)]
    obs = vlib.run_harness("c06-names", hin, per_case_timeout=60)
    # read the generated files
    key_req, key_idx = [], []
    for i, o in enumerate(obs):
        for mode in ("plain", "zod"):
            t = o.get("ts_" + mode)
            if isinstance(t, str):
                key_req.append(sx(["T0", t]))
                key_idx.append((i, mode))
    key_res = dict(zip(key_idx, vlib.run_runner("c06-keys", key_req)))
    impl = []
    for i, (c, o) in enumerate(zip(cases, obs)):
        d = {"names": o.get("names"), "names_zod": o.get("names_zod"), "how": {}}
        for mode in ("plain", "zod"):
            t = o.get("ts_" + mode)
            if isinstance(t, str):
                d["keys_" + mode], d["how"][mode] = read_ts(c["kind"], mode, t, key_res.get((i, mode)))
            elif t is not None:
                d["keys_" + mode] = None
                d["how"][mode] = "error: %s" % t
        impl.append(d)
    # the printed declarations against the model texts
    pr_req, pr_idx, pr_real = [], [], {}
    for i, (c, o) in enumerate(zip(cases, obs)):
        for mode, nk in (("plain", "names"), ("zod", "names_zod")):
            t = o.get("ts_" + mode)
            if isinstance(t, str) and isinstance(o.get(nk), list):
                pd = printed_decl(c["kind"], mode, t, o[nk])
                if pd is None:
                    continue
                pr_real[(i, mode)] = pd[0]
                if pd[1] is not None:
                    pr_req.append(pd[1])
                    pr_idx.append((i, mode))
    pr_res = dict(zip(pr_idx, vlib.run_runner("c06-print", pr_req))) if pr_req else {}
    req = []
    for c, o, d in zip(cases, obs, impl):
        lists = [d[k] if d.get(k) is not None else ["<unreadable>"] for k in ("names", "names_zod", "keys_plain", "keys_zod") if k in d]
        req.append(sx([c.get("dfc", "snake_case"), container_sx(c), lists]))
    res = vlib.run_runner("c06-eval", req)
    outs = []
    for ci, (c, o, d, m) in enumerate(zip(cases, obs, impl, res)):
        if o.get("skipped"):
            continue
        if m and m[0] == "runner-error":
            raise vlib.BuildError("runner: %s (case %s)" % (m, json.dumps(c)))
        model, in_dom, classes, spec, oks, mtoks, mctoks = m
        print_bad = {}
        for mode in ("plain", "zod"):
            if (ci, mode) in pr_real:
                PRINT_STATS["decls"] += 1
                got = pr_res.get((ci, mode))
                # equal as text, or at least the same token sequence (a change of white space in a template is not a disagreement)
                if not isinstance(got, list) or len(got) != 2 or (got[0] != pr_real[(ci, mode)] and got[1] != "true"):
                    print_bad[mode] = {"real": pr_real[(ci, mode)], "model": got}
                elif got[0] == pr_real[(ci, mode)]:
                    PRINT_STATS["bytewise"] += 1
        in_dom = in_dom == "true"
        model_names = list(model[1]) if model[0] == "ok" else None
        kf = None
        for kid, flag in zip(KF_IDS, classes):
            if flag == "true":
                kf = kid
                break
        nontrivial = bool(c.get("cattrs")) or any(it.get("attrs") for it in c["items"])
        case = {k: c[k] for k in ("kind", "cattrs", "cgated", "items", "dfc", "ws") if k in c}
        if "panic" in o:
            corr = model_names is None
            outs.append(Outcome(case, corr, (not in_dom) and corr, kf, {"impl": "PANIC " + str(o["panic"]), "model": model, "in_domain": in_dom}, nontrivial))
            continue
        if "syn_error" in o or o.get("no_info"):
            raise vlib.BuildError("generator printed Rust that the harness cannot use: %s\n%s" % (o, gen.rust_source(c)))
        tok_ok = o["tokens"] == [list(x) for x in mtoks] and o["ctokens"] == list(mctoks)
        observed = [d.get(k) for k in ("names", "names_zod", "keys_plain", "keys_zod") if k in d]
        corr = tok_ok and model_names is not None and all(x == model_names for x in observed) and not print_bad
        if in_dom:
            ok = all(x == "true" for x in oks) and all(x is not None for x in observed)
        else:
            ok = True          # the property does not speak about this input; correspondence only
        det = {"impl": {k: d.get(k) for k in ("names", "names_zod", "keys_plain", "keys_zod") if k in d},
               "read_by": d["how"], "model": model_names, "serde": list(spec), "in_domain": in_dom,
               "tokens_impl": o["tokens"], "tokens_model": [list(x) for x in mtoks],
               "classes": dict(zip(KF_IDS, classes)), "rust": gen.rust_source(c)}
        if print_bad:
            det["printed_declaration_mismatch"] = print_bad
        if not tok_ok:
            det["token_mismatch"] = {"impl": [o["tokens"], o["ctokens"]], "model": [[list(x) for x in mtoks], list(mctoks)]}
        outs.append(Outcome(case, corr, ok, kf, det, nontrivial and in_dom))
    return outs


REAL_FIELDS = ["id", "user_id", "first_last_name", "a", "x1", "user_2fa", "http_url", "_private", "a__b", "trailing_",
               "userName", "myHTTPServer", "URL", "x_y_z", "field1_name2", "i", "r#type", "r#match_arm"]
REAL_VARIANTS = ["Active", "InProgress", "A", "HTTPError", "V2", "Ok", "MyHTTPServer", "Snake_Case", "lower", "X_Y", "ABC",
                 "A1B2", "NotFound404", "IoError", "x", "UserID", "r#type", "r#Match"]


def real_serde_outcomes():
    """Spec/C06SerdeRule.v against the real serde_derive + serde_json the harness is built with:
    8 rules (and none) x {struct, enum} on the identifier shapes above plus rename, skip and
    default/skip_serializing_if items (types are compiled into harness/src/bin/c06.rs)."""
    real = vlib.run_harness("c06-real-serde", [{"id": 0}], shards=1)[0]
    cases, seen = [], []
    for kind in ("struct", "enum"):
        for rule, names in sorted(real[kind].items()):
            if rule == "":
                idents = ["id", "user_id", "userName", "URL", "_private"] if kind == "struct" else ["Active", "InProgress", "Snake_Case", "lower"]
                items = [{"ident": i, "attrs": []} for i in idents]
            elif kind == "struct":
                items = [{"ident": i, "attrs": []} for i in REAL_FIELDS] + [
                    {"ident": "r", "attrs": [[["rename", "re-named"]]]}, {"ident": "s", "attrs": [[["skip"]]]},
                    {"ident": "kept", "attrs": [[["other", "default"], ["other", "skip_serializing_if", "is_one"]]]}]
            else:
                items = [{"ident": i, "attrs": []} for i in REAL_VARIANTS] + [{"ident": "R", "attrs": [[["rename", "re-named"]]]}]
            cases.append({"kind": kind, "cattrs": [[["ra", rule]]] if rule else [], "items": items, "dfc": "snake_case"})
            seen.append(names)
    plain = lambda ids: [{"ident": i, "attrs": []} for i in ids]
    extra = {
        "paren": {"kind": "struct", "cattrs": [[["rap", [["ser", "camelCase"], ["de", "SCREAMING_SNAKE_CASE"]]]]], "items": [
            {"ident": "user_id", "attrs": []}, {"ident": "a", "attrs": [[["renamep", [["ser", "ser_name"], ["de", "de_name"]]]]]},
            {"ident": "b_c", "attrs": [[["renamep", [["de", "de_only"]]]]]}, {"ident": "d_e", "attrs": [[["renamep", [["de", "d2"], ["ser", "s2"]]]]]}]},
        "deonly": {"kind": "struct", "cattrs": [[["rap", [["de", "camelCase"]]]]], "items": plain(["user_id", "first_last_name"])},
        "data": {"kind": "enum", "cattrs": [[["ra", "snake_case"], ["kv", "rename_all_fields", "camelCase"]]], "items": [
            {"ident": "TaskStarted", "attrs": []}, {"ident": "Moved", "attrs": []}, {"ident": "QueueEmpty", "attrs": []},
            {"ident": "Finished", "attrs": [[["rename", "DONE"]]]}]},
        "types": {"kind": "struct", "cattrs": [[["ra", "camelCase"]]], "items": plain(
            ["plain_field", "marker_a", "marker_b", "unit_field", "empty_arr", "boxed_val", "cow_val", "str_ref", "opt_unit", "bytes_vec", "pair_val"])
            + [{"ident": "skipped_marker", "attrs": [[["skip"]]]}]},
        "gated_s": {"kind": "struct", "cattrs": [], "items": plain(["first_name", "legacy_id", "debug_info"])},
        "gated_e": {"kind": "enum", "cattrs": [], "items": plain(["InProgress", "Done"])},
        "fieldsonly": {"kind": "enum", "cattrs": [[["kv", "rename_all_fields", "camelCase"]]], "items": plain(["TaskStarted", "Idle"])},
    }
    for k, c in extra.items():
        c["dfc"] = "snake_case"
        cases.append(c)
        seen.append(real["extra"][k])
    # non-ASCII identifiers under the rules of the widened domain (types compiled into the harness)
    uni_items = {
        "s": plain(["größe_x", "naïve_été", "x_ß", "a_名前"]) + [{"ident": "r_ü", "attrs": [[["rename", "ü-named"]]]}, {"ident": "s_é", "attrs": [[["skip"]]]}],
        "h": plain(["名前", "été_x", "_ö_b"]),
        "e": plain(["Été", "Naïve", "Größe", "A名", "Snake_Ünder"]),
        "n": plain(["größe_x", "名前"]),
    }
    for key, names in sorted(real.get("uni", {}).items()):
        tag, rule = key.split(":", 1)
        items = uni_items[tag]
        if key == "e:camelCase":
            items = plain(["Naïve", "Größe", "A名"])
        cases.append({"kind": "enum" if tag == "e" else "struct", "cattrs": [[["ra", rule]]] if rule else [], "items": items,
                      "dfc": "snake_case", "uni": True})
        seen.append(names)
    res = vlib.run_runner("c06-eval", [sx(["snake_case", container_sx(c), [n]]) for c, n in zip(cases, seen)], shards=1)
    outs = []
    for c, n, m in zip(cases, seen, res):
        agrees = m[4][0] == "true" and (not c.get("uni") or m[1] == "true")     # the non-ASCII types must lie inside the domain
        outs.append(Outcome(c, agrees, True, None, {"real_serde": n, "spec": list(m[3]), "note": "specification vs real serde_derive"}, True))
    return outs


def evaluate_routes(cases):
    """configuration routes (tools/props/c06_routes.py): the real CLI binary / BuildSystem / library run in a
    sandbox project; keys read back from the types.ts each route wrote; model and oracle evaluated with the
    default_field_case the route is supposed to carry."""
    if not cases:
        return []
    res = vlib.pmap(routes.run_route, cases)
    key_req, key_idx = [], []
    for i, r in enumerate(res):
        if isinstance(r.get("types"), str):
            key_req.append(sx(["T0", r["types"]]))
            key_idx.append(i)
    key_res = dict(zip(key_idx, vlib.run_runner("c06-keys", key_req)))
    req, obs = [], []
    for i, (c, r) in enumerate(zip(cases, res)):
        names = None
        if isinstance(r.get("types"), str):
            names, _how = read_ts(c["kind"], r["mode"], r["types"], key_res.get(i))
        obs.append(names)
        req.append(sx([c["dfc"], container_sx(c), [names if names is not None else ["<unreadable>"]]]))
    outs = []
    for c, r, names, m in zip(cases, res, obs, vlib.run_runner("c06-eval", req)):
        if m and m[0] == "runner-error":
            raise vlib.BuildError("runner: %s (case %s)" % (m, json.dumps(c)))
        model, in_dom, classes, spec, oks, _mt, _mc = m
        model_names = list(model[1])
        kf = next((kid for kid, flag in zip(KF_IDS, classes) if flag == "true"), None)
        case = {k: c[k] for k in ("kind", "cattrs", "items", "dfc", "route", "dfc_written") if k in c}
        det = {"impl": {"keys": names}, "model": model_names, "serde": list(spec), "route": c["route"], "in_domain": in_dom == "true",
               "setting_written": c.get("dfc_written"), "error": r.get("error"), "section_written_by_init": r.get("section_written"),
               "classes": dict(zip(KF_IDS, classes)), "rust": gen.rust_source(c)}
        corr = names is not None and names == model_names
        ok = names is not None and oks[0] == "true"
        outs.append(Outcome(case, corr, ok, kf, det, True))
    return outs


def evaluate_histories(hists):
    """multi-run histories (c06_routes.run_history): after EVERY unforced run the keys / literals on disk must be
    what serde writes for the CURRENT source; the model says the same (any edit of a serde attribute reaches
    the cache hash, so the file is rewritten; an unchanged source leaves a correct file in place)."""
    if not hists:
        return []
    runs = vlib.pmap(routes.run_history, hists)
    key_req, key_idx = [], []
    for i, steps in enumerate(runs):
        for j, st in enumerate(steps):
            if isinstance(st.get("types"), str):
                key_req.append(sx(["T0", st["types"]]))
                key_idx.append((i, j))
    key_res = dict(zip(key_idx, vlib.run_runner("c06-keys", key_req)))
    req, idx, names_all = [], [], {}
    for i, (h, steps) in enumerate(zip(hists, runs)):
        for j, (v, st) in enumerate(zip(h["versions"], steps)):
            names = None
            if isinstance(st.get("types"), str):
                names, _ = read_ts(v["kind"], h["mode"], st["types"], key_res.get((i, j)))
            names_all[(i, j)] = names
            req.append(sx([h.get("dfc", "snake_case"), container_sx(v), [names if names is not None else ["<unreadable>"]]]))
            idx.append((i, j))
    res = dict(zip(idx, vlib.run_runner("c06-eval", req)))
    outs = []
    for i, (h, steps) in enumerate(zip(hists, runs)):
        corr = ok = True
        kf = None
        trace = []
        for j, (v, st) in enumerate(zip(h["versions"], steps)):
            m = res[(i, j)]
            if m and m[0] == "runner-error":
                raise vlib.BuildError("runner: %s" % m)
            model, _dom, classes, spec, oks, _a, _b = m
            names = names_all[(i, j)]
            corr &= names is not None and names == list(model[1])
            ok &= names is not None and oks[0] == "true"
            kf = kf or next((kid for kid, flag in zip(KF_IDS, classes) if flag == "true"), None)
            trace.append({"run": j + 1, "keys_on_disk": names, "model": list(model[1]), "serde": list(spec), "tool_said": st.get("said"),
                          "error": st.get("error"), "rust": gen.rust_source(v)})
        case = {k: h[k] for k in ("versions", "route", "mode", "dfc") if k in h}
        outs.append(Outcome(case, corr, ok, kf, {"history": trace}, True))
    return outs


def corpus_cases():
    cases = []
    for e in vlib.load_known_findings("C06"):
        cases.append(e["witness"])
    d = os.path.join(vlib.VERIF, "corpus", "C06")
    if os.path.isdir(d):
        for n in sorted(os.listdir(d)):
            if n.endswith(".json"):
                v = json.load(open(os.path.join(d, n)))
                cases.extend(v if isinstance(v, list) else [v])
    return cases


def summarise(rep, name, outs):
    dist = rep.extra.setdefault("distribution", {})
    s = dist.setdefault(name, {"cases": 0, "struct": 0, "enum": 0, "in_domain": 0, "outside_every_class": 0,
                               "with_container_rule": 0, "items": 0, "attrs": 0, "read_by_parser": 0, "read_by_lines": 0})
    for o in outs:
        c = o.case
        s["cases"] += 1
        s[c["kind"]] += 1
        s["in_domain"] += 1 if o.detail.get("in_domain") else 0
        s["outside_every_class"] += 1 if (o.detail.get("in_domain") and not o.kf) else 0
        s["with_container_rule"] += 1 if any(m[0] == "ra" for g in c.get("cattrs", []) for m in g) else 0
        s["items"] += len(c["items"])
        s["attrs"] += sum(len(g) for it in c["items"] for g in it.get("attrs", []))
        for how in (o.detail.get("read_by") or {}).values():
            if how == "parser":
                s["read_by_parser"] += 1
            elif how == "lines":
                s["read_by_lines"] += 1


class RunSandbox:
    """per-run scratch base under build/sandbox/ for the one-file projects the harness generates from;
    removed at the end (the harness processes are killed after their last answer and cannot clean up)."""

    def __enter__(self):
        import tempfile
        base = os.path.join(vlib.BUILD, "sandbox")
        os.makedirs(base, exist_ok=True)
        self.dir = tempfile.mkdtemp(prefix="c06run-", dir=base)
        vlib.ENV["C06_SANDBOX"] = self.dir
        return self

    def __exit__(self, *a):
        import shutil
        shutil.rmtree(self.dir, ignore_errors=True)


def run(rep):
    vlib.build_harness("c06")
    vlib.build_runner("c06")
    with RunSandbox():
        run_streams(rep)


def run_streams(rep):
    rng = random.Random(rep.seed)
    thorough = rep.tier == "thorough"
    streams = [
        ("corpus", corpus_cases()),
        ("spellings", gen.spellings()),
        ("types", gen.typed_fields()),
        ("gated", gen.gated_cases()),
        ("unicode", gen.unicode_cases()),
        ("sizes", gen.sized_cases()),
        ("exhaustive", gen.exhaustive(thorough)),
        ("random", gen.random_cases(rng, 60000 if thorough else 4000)),
        ("config", gen.config_grid() + gen.config_cases(rng, 2000 if thorough else 300)),
        ("malformed", gen.malformed_cases(rng, 5000 if thorough else 500)),
    ]
    for name, cases in streams:
        hist = [c for c in cases if "versions" in c]
        if hist:                            # corpus entries that are multi-run histories
            vlib.build_repo_bin()
            rep.add(name, evaluate_histories(hist))
            cases = [c for c in cases if "versions" not in c]
        route_cases = [c for c in cases if "route" in c]
        if route_cases:                     # corpus entries that name a configuration route
            vlib.build_repo_bin()
            rep.add(name, evaluate_routes(route_cases))
            cases = [c for c in cases if "route" not in c]
        outs = evaluate(cases)
        summarise(rep, name, outs)
        rep.add(name, outs)
    vlib.build_repo_bin()
    rep.add("routes", evaluate_routes(routes.route_cases(thorough)))
    rep.add("histories", evaluate_histories(routes.history_cases(thorough)))
    rep.add("real-serde", real_serde_outcomes())
    rep.extra["printed_declarations_compared_with_model_text"] = PRINT_STATS["decls"]
    rep.extra["printed_declarations_equal_byte_for_byte"] = PRINT_STATS["bytewise"]


def replay(rep, payload):
    vlib.build_harness("c06")
    vlib.build_runner("c06")
    items = payload.get("disagreeing_cases") or [payload]
    with RunSandbox():
        for it in items:
            if "versions" in it["case"]:
                vlib.build_repo_bin()
                rep.add("histories", evaluate_histories([it["case"]]))
                continue
            if "route" in it["case"]:
                vlib.build_repo_bin()
                rep.add("routes", evaluate_routes([it["case"]]))
                continue
            outs = evaluate([it["case"]])
            summarise(rep, it.get("stream", "replay"), outs)
            rep.add(it.get("stream", "replay"), outs)
