"""C06 - property keys and enum literals equal serde's wire names.
One case = one container `T0` (struct with named fields or enum with unit variants) with serde
attributes. Implementation side (harness/src/bin/c06.rs): token strings of every #[serde(..)]
(proc_macro2 printing), the serialized names computed by StructParser + FieldContext (both visitors),
and the keys / literals read back from the types.ts that generate_from_config writes in plain and in
Zod mode. Model side (coq/Model/C06Serde.v, extracted): token strings, emitted names. Oracle
(coq/Spec/C06SerdeRule.v, extracted): serde's names. types.ts is read through the extracted module
parser (Spec/TsModule.v via Spec/C06Keys.v), with a line reader (c06_ts.py) when a key makes the file
leave the TypeScript grammar (kebab-case keys and the like - that is C01's subject, not C06's)."""
import json
import os
import random

from tools import vlib
from tools.vlib import Outcome, sx
from tools.props import c06_gen as gen
from tools.props import c06_ts as tsread
from tools.props import c06_routes as routes

MANIFEST = {
    "level_text": "Coq theorems (Properties/C06.v, 28 theorems, no axioms) about a Gallina transcription of serde_parser.rs (skip by substring test, rename / rename_all by the whole-key scanner find_key / written_value on the proc_macro2 token string), struct_parser.rs (unraw names, skip filter for fields and variants), NamingContext::apply_naming_convention / compute_field_name / compute_variant_name and serde-rename-rule's apply_to_field / apply_to_variant: for every configured default_field_case, container kind, container rename_all, ASCII identifier (plain or raw) and attribute list (rename = any string, skip, any other name / name = any string, in any order, in one or several #[serde] attributes) in every legal serde spelling (rename = v, rename(serialize = v, deserialize = w), likewise rename_all, other container keys anywhere), for unit / tuple / struct variants, outside four narrow recorded classes (C06-2, -3, -4, -5) and the configuration class C06-7 the emitted names are exactly serde's wire names (serde_derive case.rs apply_to_field / apply_to_variant, item rename wins, absent iff skip) (C06_names_cfg; C06_names for the default configuration, where C06-7 is empty); other attributes are inert there; each class has a computed counterexample; the run-time oracle is proved exact (C06_oracle_exact). String level, every byte string: js_unescape inverts escape_js, a quoted key or enum literal lexes (Spec/TsLex) to one string token whose decoded body is the name, the key token before the colon decodes to the name whichever form ts_key chose, and for the enum alias template the text of any non-empty literal list lexes to its tokens and the type parser plus lits_of_ty read exactly the names back. Tied to /repo on every run (library API, the real CLI binary through init / generate / -c / tauri.conf.json, and the build-script entry point): ~10^4 containers through the real StructParser, FieldContext and both generators (keys read back from types.ts) against the extracted model and oracle, and the specification against the real serde_derive on 18 containers.",
    "design_ref": "DESIGN.md section 5 C06",
    "level_note": "Identifiers are ASCII: field rules and the PascalCase / lowercase / UPPERCASE / camelCase variant rules use only ASCII operations and the byte-level model is exact for them on any UTF-8 identifier, but SnakeCase-based variant rules call char::is_uppercase (Unicode), for which no table exists in the development; non-ASCII identifiers are therefore left out of the domain rather than half covered. String level: proved per token (key, literal) and for the whole enum alias right-hand side; the interface member list, the z.object property list and the z.enum array are not carried through p_members / p_exlist / p_item (the lexing of their keys and literals is covered by C06_key_token / C06_lex_literal, the rest is checked by the run-time read-back only). ts_key's Unicode test is_identifier_name is a parameter (bare only for identifier bytes). The five sequential replaces of escape_js are taken as the character-wise map (proved for the identical escape_js_string by C11's escape_charwise). The specification of serde's rules is a transcription of serde_derive's case.rs, compared on every run with types derived by the real serde_derive on 18 fixed containers (finite validation). The tie between model and code is differential (bounded).",
    "technique": "Rocq/Coq proof over hand-written model + correspondence check (extracted OCaml vs Rust harness)"
}

RULE = ("gated: 128 containers whose rename_all / rename / skip sit behind cfg_attr with a predicate that is false in the oracle's build (5 predicates), alone and beside real attributes, also drawn in random; histories: 12 edits of serde attributes (rename equal to the identifier under a rule, rename_all added / removed / changed / respelled, skip toggled, rename added / changed, fields and variants) as histories v1 v2 v1 of unforced runs into one output directory, CLI and build route, both modes, keys judged after every run; routes: 4 containers x 11 configuration routes (init, init then generate, init -v zod, init -o file then generate -c, generate -c, tauri.conf.json in three places, from_tauri_config, BuildSystem with tauri.conf.json / typegen.json) x the default_field_case written (absent / 4 values incl. an unknown one), real CLI binary in a sandbox; types: 17 field types x 3 rules x 4 attribute shapes; spellings: {struct, enum} x 9 container rules x 12 spellings of the container attributes (rename_all = .., rename_all(serialize = .., deserialize = ..) same / one-sided / different / either order, other keys before and after, split attributes) x unit / tuple / struct variants on multi-word identifiers; every stream: three white-space styles, variant shapes, rename(serialize = .., deserialize = ..); exhaustive: 9 container rules x {struct, enum} x every item-attribute shape of the generator (none, rename, skip, "
        "skip_serializing_if, default, default = s, pairs in both orders, split over two #[serde]) x 16 identifier shapes, one "
        "item per container (quick: every third (shape, identifier) pair per rule; thorough: all); random: containers of 1-5 items with 0-3 attributes each over a value alphabet containing skip / "
        "rename / quotes / backslashes / non-ASCII; malformed: out-of-domain attribute text (correspondence only); real-serde: the "
        "specification against 18 containers derived by the real serde_derive. A case is "
        "non-trivial when it has a container rule or an item attribute; distinct = distinct (container, config) pairs")
TRUSTED = [
    "Spec/C06SerdeRule.v is a transcription of serde_derive-1.0.228 src/internals/case.rs (identical in 1.0.219/1.0.229) and of the rename/skip rules of attr.rs; validated on every run (stream real-serde) against the serde_derive + serde_json the harness is compiled with: 8 rules and none x {struct, enum} x 16 identifier shapes plus rename / skip / default / skip_serializing_if items",
    "Spec/TsModule.v + Spec/C06Keys.v read types.ts (quoted keys and literals decoded by js_unescape); tools/props/c06_ts.py (line reader) only when the file is outside the module grammar",
    "tools/props/c06_gen.py prints the Rust source of a case; the printed attribute text is validated on every case against proc_macro2 (token strings equal the model's)",
]
ASSUMPTIONS = ["identifiers are ASCII (plain or raw)"]

KF_IDS = ["C06-2", "C06-3", "C06-4", "C06-5", "C06-7"]      # order of ExC06.c06_classes; C06-1, -6, -8, -9 are repaired      # order of ExC06.c06_classes; C06-1 and C06-6 are repaired


def container_sx(c):
    return [c["kind"], c.get("cattrs", []), [[it["ident"], it.get("attrs", [])] for it in c["items"]]]


def read_ts(kind, mode, text, runner_decls):
    """names read from one types.ts. Returns (names|None, how).
    Since C01-bare-key-quote / C01-enum-literal-escape every key that is not an identifier name and every
    enum literal is printed as a double-quoted escaped literal, so the file is in the module grammar and
    the extracted module parser (Spec/C06Keys.v, which decodes the escapes) is the reader; the line
    reader (also decoding) is only the fall-back when the file cannot be parsed."""
    want = {("struct", "plain"): "interface", ("enum", "plain"): "literals",
            ("struct", "zod"): "zobject", ("enum", "zod"): "zenum"}[(kind, mode)]
    if runner_decls:
        for d in runner_decls[0]:
            if d[0] == want:
                return list(d[1]), "parser"
    return tsread.read(kind, mode, text), "lines"


def is_raw(c):
    return any(m[0] == "raw" for g in c.get("cattrs", []) for m in g) or \
        any(m[0] == "raw" for it in c["items"] for g in it.get("attrs", []) for m in g)


def evaluate_raw(cases):
    """out-of-domain attribute text: the model is run on the token strings proc_macro2 printed;
    correspondence of the scanners and of the naming only (the property does not speak here)."""
    hin = [{"id": i, "src": gen.rust_source(c), "dfc": c.get("dfc", "snake_case"), "e2e": False} for i, c in enumerate(cases)]
    obs = vlib.run_harness("c06-names", hin, per_case_timeout=60)
    req, idx = [], []
    for i, (c, o) in enumerate(zip(cases, obs)):
        if "tokens" in o:
            req.append(sx([c.get("dfc", "snake_case"), c["kind"], o["ctokens"],
                           [[it["ident"], t] for it, t in zip(c["items"], o["tokens"])]]))
            idx.append(i)
    res = dict(zip(idx, vlib.run_runner("c06-eval-raw", req)))
    outs = []
    for i, (c, o) in enumerate(zip(cases, obs)):
        case = {k: c[k] for k in ("kind", "cattrs", "cgated", "items", "dfc", "ws") if k in c}
        if o.get("skipped"):
            continue
        if "syn_error" in o or o.get("no_info"):
            continue                    # attribute text that is not a token stream: nothing to compare
        if "panic" in o:
            # a panic of the scanners would be C15's subject; here it is only a disagreement with the model
            outs.append(Outcome(case, False, True, None, {"impl": "PANIC " + str(o["panic"]), "rust": gen.rust_source(c)}, False))
            continue
        m = res[i]
        if m and m[0] == "runner-error":
            raise vlib.BuildError("runner: %s (case %s)" % (m, json.dumps(c)))
        model_names = list(m[1]) if m[0] == "ok" else None
        corr = model_names is not None and o["names"] == model_names and o["names_zod"] == model_names
        outs.append(Outcome(case, corr, True, None, {"impl": {"names": o["names"]}, "model": model_names, "in_domain": False,
                                                     "tokens_impl": o["tokens"], "rust": gen.rust_source(c)}, False))
    return outs


def evaluate(cases, e2e=True):
    raw = [c for c in cases if is_raw(c)]
    if raw:
        return evaluate_raw(raw) + evaluate([c for c in cases if not is_raw(c)], e2e)
    if not cases:
        return []
    """cases: list of {"kind","cattrs","items","dfc"}; returns Outcomes."""
    hin = [{"id": i, "src": gen.rust_source(c), "dfc": c.get("dfc", "snake_case"), "e2e": e2e} for i, c in enumerate(cases)]
    obs = vlib.run_harness("c06-names", hin, per_case_timeout=60)
    # read the generated files
    key_req, key_idx = [], []
    for i, o in enumerate(obs):
        for mode in ("plain", "zod"):
            t = o.get("ts_" + mode)
            if isinstance(t, str):
                key_req.append(sx(["T0", t]))
                key_idx.append((i, mode))
    key_res = dict(zip(key_idx, vlib.run_runner("c06-keys", key_req)))
    impl = []
    for i, (c, o) in enumerate(zip(cases, obs)):
        d = {"names": o.get("names"), "names_zod": o.get("names_zod"), "how": {}}
        for mode in ("plain", "zod"):
            t = o.get("ts_" + mode)
            if isinstance(t, str):
                d["keys_" + mode], d["how"][mode] = read_ts(c["kind"], mode, t, key_res.get((i, mode)))
            elif t is not None:
                d["keys_" + mode] = None
                d["how"][mode] = "error: %s" % t
        impl.append(d)
    req = []
    for c, o, d in zip(cases, obs, impl):
        lists = [d[k] if d.get(k) is not None else ["<unreadable>"] for k in ("names", "names_zod", "keys_plain", "keys_zod") if k in d]
        req.append(sx([c.get("dfc", "snake_case"), container_sx(c), lists]))
    res = vlib.run_runner("c06-eval", req)
    outs = []
    for c, o, d, m in zip(cases, obs, impl, res):
        if o.get("skipped"):
            continue
        if m and m[0] == "runner-error":
            raise vlib.BuildError("runner: %s (case %s)" % (m, json.dumps(c)))
        model, in_dom, classes, spec, oks, mtoks, mctoks = m
        in_dom = in_dom == "true"
        model_names = list(model[1]) if model[0] == "ok" else None
        kf = None
        for kid, flag in zip(KF_IDS, classes):
            if flag == "true":
                kf = kid
                break
        nontrivial = bool(c.get("cattrs")) or any(it.get("attrs") for it in c["items"])
        case = {k: c[k] for k in ("kind", "cattrs", "cgated", "items", "dfc", "ws") if k in c}
        if "panic" in o:
            corr = model_names is None
            outs.append(Outcome(case, corr, (not in_dom) and corr, kf, {"impl": "PANIC " + str(o["panic"]), "model": model, "in_domain": in_dom}, nontrivial))
            continue
        if "syn_error" in o or o.get("no_info"):
            raise vlib.BuildError("generator printed Rust that the harness cannot use: %s\n%s" % (o, gen.rust_source(c)))
        tok_ok = o["tokens"] == [list(x) for x in mtoks] and o["ctokens"] == list(mctoks)
        observed = [d.get(k) for k in ("names", "names_zod", "keys_plain", "keys_zod") if k in d]
        corr = tok_ok and model_names is not None and all(x == model_names for x in observed)
        if in_dom:
            ok = all(x == "true" for x in oks) and all(x is not None for x in observed)
        else:
            ok = True          # the property does not speak about this input; correspondence only
        det = {"impl": {k: d.get(k) for k in ("names", "names_zod", "keys_plain", "keys_zod") if k in d},
               "read_by": d["how"], "model": model_names, "serde": list(spec), "in_domain": in_dom,
               "tokens_impl": o["tokens"], "tokens_model": [list(x) for x in mtoks],
               "classes": dict(zip(KF_IDS, classes)), "rust": gen.rust_source(c)}
        if not tok_ok:
            det["token_mismatch"] = {"impl": [o["tokens"], o["ctokens"]], "model": [[list(x) for x in mtoks], list(mctoks)]}
        outs.append(Outcome(case, corr, ok, kf, det, nontrivial and in_dom))
    return outs


REAL_FIELDS = ["id", "user_id", "first_last_name", "a", "x1", "user_2fa", "http_url", "_private", "a__b", "trailing_",
               "userName", "myHTTPServer", "URL", "x_y_z", "field1_name2", "i", "r#type", "r#match_arm"]
REAL_VARIANTS = ["Active", "InProgress", "A", "HTTPError", "V2", "Ok", "MyHTTPServer", "Snake_Case", "lower", "X_Y", "ABC",
                 "A1B2", "NotFound404", "IoError", "x", "UserID", "r#type", "r#Match"]


def real_serde_outcomes():
    """Spec/C06SerdeRule.v against the real serde_derive + serde_json the harness is built with:
    8 rules (and none) x {struct, enum} on the identifier shapes above plus rename, skip and
    default/skip_serializing_if items (types are compiled into harness/src/bin/c06.rs)."""
    real = vlib.run_harness("c06-real-serde", [{"id": 0}], shards=1)[0]
    cases, seen = [], []
    for kind in ("struct", "enum"):
        for rule, names in sorted(real[kind].items()):
            if rule == "":
                idents = ["id", "user_id", "userName", "URL", "_private"] if kind == "struct" else ["Active", "InProgress", "Snake_Case", "lower"]
                items = [{"ident": i, "attrs": []} for i in idents]
            elif kind == "struct":
                items = [{"ident": i, "attrs": []} for i in REAL_FIELDS] + [
                    {"ident": "r", "attrs": [[["rename", "re-named"]]]}, {"ident": "s", "attrs": [[["skip"]]]},
                    {"ident": "kept", "attrs": [[["other", "default"], ["other", "skip_serializing_if", "is_one"]]]}]
            else:
                items = [{"ident": i, "attrs": []} for i in REAL_VARIANTS] + [{"ident": "R", "attrs": [[["rename", "re-named"]]]}]
            cases.append({"kind": kind, "cattrs": [[["ra", rule]]] if rule else [], "items": items, "dfc": "snake_case"})
            seen.append(names)
    plain = lambda ids: [{"ident": i, "attrs": []} for i in ids]
    extra = {
        "paren": {"kind": "struct", "cattrs": [[["rap", [["ser", "camelCase"], ["de", "SCREAMING_SNAKE_CASE"]]]]], "items": [
            {"ident": "user_id", "attrs": []}, {"ident": "a", "attrs": [[["renamep", [["ser", "ser_name"], ["de", "de_name"]]]]]},
            {"ident": "b_c", "attrs": [[["renamep", [["de", "de_only"]]]]]}, {"ident": "d_e", "attrs": [[["renamep", [["de", "d2"], ["ser", "s2"]]]]]}]},
        "deonly": {"kind": "struct", "cattrs": [[["rap", [["de", "camelCase"]]]]], "items": plain(["user_id", "first_last_name"])},
        "data": {"kind": "enum", "cattrs": [[["ra", "snake_case"], ["kv", "rename_all_fields", "camelCase"]]], "items": [
            {"ident": "TaskStarted", "attrs": []}, {"ident": "Moved", "attrs": []}, {"ident": "QueueEmpty", "attrs": []},
            {"ident": "Finished", "attrs": [[["rename", "DONE"]]]}]},
        "types": {"kind": "struct", "cattrs": [[["ra", "camelCase"]]], "items": plain(
            ["plain_field", "marker_a", "marker_b", "unit_field", "empty_arr", "boxed_val", "cow_val", "str_ref", "opt_unit", "bytes_vec", "pair_val"])
            + [{"ident": "skipped_marker", "attrs": [[["skip"]]]}]},
        "gated_s": {"kind": "struct", "cattrs": [], "items": plain(["first_name", "legacy_id", "debug_info"])},
        "gated_e": {"kind": "enum", "cattrs": [], "items": plain(["InProgress", "Done"])},
        "fieldsonly": {"kind": "enum", "cattrs": [[["kv", "rename_all_fields", "camelCase"]]], "items": plain(["TaskStarted", "Idle"])},
    }
    for k, c in extra.items():
        c["dfc"] = "snake_case"
        cases.append(c)
        seen.append(real["extra"][k])
    # non-ASCII identifiers under the rules of the widened domain (types compiled into the harness)
    uni_items = {
        "s": plain(["größe_x", "naïve_été", "x_ß", "a_名前"]) + [{"ident": "r_ü", "attrs": [[["rename", "ü-named"]]]}, {"ident": "s_é", "attrs": [[["skip"]]]}],
        "h": plain(["名前", "été_x", "_ö_b"]),
        "e": plain(["Été", "Naïve", "Größe", "A名", "Snake_Ünder"]),
        "n": plain(["größe_x", "名前"]),
    }
    for key, names in sorted(real.get("uni", {}).items()):
        tag, rule = key.split(":", 1)
        items = uni_items[tag]
        if key == "e:camelCase":
            items = plain(["Naïve", "Größe", "A名"])
        cases.append({"kind": "enum" if tag == "e" else "struct", "cattrs": [[["ra", rule]]] if rule else [], "items": items,
                      "dfc": "snake_case", "uni": True})
        seen.append(names)
    res = vlib.run_runner("c06-eval", [sx(["snake_case", container_sx(c), [n]]) for c, n in zip(cases, seen)], shards=1)
    outs = []
    for c, n, m in zip(cases, seen, res):
        agrees = m[4][0] == "true" and (not c.get("uni") or m[1] == "true")     # the non-ASCII types must lie inside the domain
        outs.append(Outcome(c, agrees, True, None, {"real_serde": n, "spec": list(m[3]), "note": "specification vs real serde_derive"}, True))
    return outs


def evaluate_routes(cases):
    """configuration routes (tools/props/c06_routes.py): the real CLI binary / BuildSystem / library run in a
    sandbox project; keys read back from the types.ts each route wrote; model and oracle evaluated with the
    default_field_case the route is supposed to carry."""
    if not cases:
        return []
    res = vlib.pmap(routes.run_route, cases)
    key_req, key_idx = [], []
    for i, r in enumerate(res):
        if isinstance(r.get("types"), str):
            key_req.append(sx(["T0", r["types"]]))
            key_idx.append(i)
    key_res = dict(zip(key_idx, vlib.run_runner("c06-keys", key_req)))
    req, obs = [], []
    for i, (c, r) in enumerate(zip(cases, res)):
        names = None
        if isinstance(r.get("types"), str):
            names, _how = read_ts(c["kind"], r["mode"], r["types"], key_res.get(i))
        obs.append(names)
        req.append(sx([c["dfc"], container_sx(c), [names if names is not None else ["<unreadable>"]]]))
    outs = []
    for c, r, names, m in zip(cases, res, obs, vlib.run_runner("c06-eval", req)):
        if m and m[0] == "runner-error":
            raise vlib.BuildError("runner: %s (case %s)" % (m, json.dumps(c)))
        model, in_dom, classes, spec, oks, _mt, _mc = m
        model_names = list(model[1])
        kf = next((kid for kid, flag in zip(KF_IDS, classes) if flag == "true"), None)
        case = {k: c[k] for k in ("kind", "cattrs", "items", "dfc", "route", "dfc_written") if k in c}
        det = {"impl": {"keys": names}, "model": model_names, "serde": list(spec), "route": c["route"], "in_domain": in_dom == "true",
               "setting_written": c.get("dfc_written"), "error": r.get("error"), "section_written_by_init": r.get("section_written"),
               "classes": dict(zip(KF_IDS, classes)), "rust": gen.rust_source(c)}
        corr = names is not None and names == model_names
        ok = names is not None and oks[0] == "true"
        outs.append(Outcome(case, corr, ok, kf, det, True))
    return outs


def evaluate_histories(hists):
    """multi-run histories (c06_routes.run_history): after EVERY unforced run the keys / literals on disk must be
    what serde writes for the CURRENT source; the model says the same (any edit of a serde attribute reaches
    the cache hash, so the file is rewritten; an unchanged source leaves a correct file in place)."""
    if not hists:
        return []
    runs = vlib.pmap(routes.run_history, hists)
    key_req, key_idx = [], []
    for i, steps in enumerate(runs):
        for j, st in enumerate(steps):
            if isinstance(st.get("types"), str):
                key_req.append(sx(["T0", st["types"]]))
                key_idx.append((i, j))
    key_res = dict(zip(key_idx, vlib.run_runner("c06-keys", key_req)))
    req, idx, names_all = [], [], {}
    for i, (h, steps) in enumerate(zip(hists, runs)):
        for j, (v, st) in enumerate(zip(h["versions"], steps)):
            names = None
            if isinstance(st.get("types"), str):
                names, _ = read_ts(v["kind"], h["mode"], st["types"], key_res.get((i, j)))
            names_all[(i, j)] = names
            req.append(sx([h.get("dfc", "snake_case"), container_sx(v), [names if names is not None else ["<unreadable>"]]]))
            idx.append((i, j))
    res = dict(zip(idx, vlib.run_runner("c06-eval", req)))
    outs = []
    for i, (h, steps) in enumerate(zip(hists, runs)):
        corr = ok = True
        kf = None
        trace = []
        for j, (v, st) in enumerate(zip(h["versions"], steps)):
            m = res[(i, j)]
            if m and m[0] == "runner-error":
                raise vlib.BuildError("runner: %s" % m)
            model, _dom, classes, spec, oks, _a, _b = m
            names = names_all[(i, j)]
            corr &= names is not None and names == list(model[1])
            ok &= names is not None and oks[0] == "true"
            kf = kf or next((kid for kid, flag in zip(KF_IDS, classes) if flag == "true"), None)
            trace.append({"run": j + 1, "keys_on_disk": names, "model": list(model[1]), "serde": list(spec), "tool_said": st.get("said"),
                          "error": st.get("error"), "rust": gen.rust_source(v)})
        case = {k: h[k] for k in ("versions", "route", "mode", "dfc") if k in h}
        outs.append(Outcome(case, corr, ok, kf, {"history": trace}, True))
    return outs


def corpus_cases():
    cases = []
    for e in vlib.load_known_findings("C06"):
        cases.append(e["witness"])
    d = os.path.join(vlib.VERIF, "corpus", "C06")
    if os.path.isdir(d):
        for n in sorted(os.listdir(d)):
            if n.endswith(".json"):
                v = json.load(open(os.path.join(d, n)))
                cases.extend(v if isinstance(v, list) else [v])
    return cases


def summarise(rep, name, outs):
    dist = rep.extra.setdefault("distribution", {})
    s = dist.setdefault(name, {"cases": 0, "struct": 0, "enum": 0, "in_domain": 0, "outside_every_class": 0,
                               "with_container_rule": 0, "items": 0, "attrs": 0, "read_by_parser": 0, "read_by_lines": 0})
    for o in outs:
        c = o.case
        s["cases"] += 1
        s[c["kind"]] += 1
        s["in_domain"] += 1 if o.detail.get("in_domain") else 0
        s["outside_every_class"] += 1 if (o.detail.get("in_domain") and not o.kf) else 0
        s["with_container_rule"] += 1 if any(m[0] == "ra" for g in c.get("cattrs", []) for m in g) else 0
        s["items"] += len(c["items"])
        s["attrs"] += sum(len(g) for it in c["items"] for g in it.get("attrs", []))
        for how in (o.detail.get("read_by") or {}).values():
            if how == "parser":
                s["read_by_parser"] += 1
            elif how == "lines":
                s["read_by_lines"] += 1


class RunSandbox:
    """per-run scratch base under build/sandbox/ for the one-file projects the harness generates from;
    removed at the end (the harness processes are killed after their last answer and cannot clean up)."""

    def __enter__(self):
        import tempfile
        base = os.path.join(vlib.BUILD, "sandbox")
        os.makedirs(base, exist_ok=True)
        self.dir = tempfile.mkdtemp(prefix="c06run-", dir=base)
        vlib.ENV["C06_SANDBOX"] = self.dir
        return self

    def __exit__(self, *a):
        import shutil
        shutil.rmtree(self.dir, ignore_errors=True)


def run(rep):
    vlib.build_harness("c06")
    vlib.build_runner("c06")
    with RunSandbox():
        run_streams(rep)


def run_streams(rep):
    rng = random.Random(rep.seed)
    thorough = rep.tier == "thorough"
    streams = [
        ("corpus", corpus_cases()),
        ("spellings", gen.spellings()),
        ("types", gen.typed_fields()),
        ("gated", gen.gated_cases()),
        ("unicode", gen.unicode_cases()),
        ("exhaustive", gen.exhaustive(thorough)),
        ("random", gen.random_cases(rng, 60000 if thorough else 4000)),
        ("config", gen.config_cases(rng, 2000 if thorough else 300)),
        ("malformed", gen.malformed_cases(rng, 5000 if thorough else 500)),
    ]
    for name, cases in streams:
        hist = [c for c in cases if "versions" in c]
        if hist:                            # corpus entries that are multi-run histories
            vlib.build_repo_bin()
            rep.add(name, evaluate_histories(hist))
            cases = [c for c in cases if "versions" not in c]
        route_cases = [c for c in cases if "route" in c]
        if route_cases:                     # corpus entries that name a configuration route
            vlib.build_repo_bin()
            rep.add(name, evaluate_routes(route_cases))
            cases = [c for c in cases if "route" not in c]
        outs = evaluate(cases)
        summarise(rep, name, outs)
        rep.add(name, outs)
    vlib.build_repo_bin()
    rep.add("routes", evaluate_routes(routes.route_cases(thorough)))
    rep.add("histories", evaluate_histories(routes.history_cases(thorough)))
    rep.add("real-serde", real_serde_outcomes())


def replay(rep, payload):
    vlib.build_harness("c06")
    vlib.build_runner("c06")
    items = payload.get("disagreeing_cases") or [payload]
    with RunSandbox():
        for it in items:
            if "versions" in it["case"]:
                vlib.build_repo_bin()
                rep.add("histories", evaluate_histories([it["case"]]))
                continue
            if "route" in it["case"]:
                vlib.build_repo_bin()
                rep.add("routes", evaluate_routes([it["case"]]))
                continue
            outs = evaluate([it["case"]])
            summarise(rep, it.get("stream", "replay"), outs)
            rep.add(it.get("stream", "replay"), outs)
