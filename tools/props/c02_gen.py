"""C02 case construction: closed-world projects in the tools/projgen.py case format (wrapped, not
forked), their encoding for the extracted model, the adversarial naming cases, the structural
position matrix and the random stream."""
import copy
import random
import re

from tools import projgen as pg
from tools.projgen import P, Tup, Ref, CONTEXTS

SERDE = ["Serialize", "Deserialize"]
APP = {"name": "app", "ty": P("AppHandle", segs=["tauri"])}


def st(name, fields, derives=SERDE, skip=()):
    return {"kind": "struct", "name": name, "derives": list(derives), "serde": [],
            "fields": [{"name": n, "ty": t, "serde": ([{"skip": True}] if n in skip else []), "validate": []} for n, t in fields]}


def en(name, variants=("Active", "Done"), derives=SERDE):
    return {"kind": "enum", "name": name, "derives": list(derives), "serde": [],
            "variants": [{"name": v, "serde": []} for v in variants]}


def let(v, init, ty=None):
    """let statement of an emitting function. init: ["struct", N] | ["call", N] | ["var", w] | ["ref", init] |
    ["other", "<rust expression text>"]; ty: declared type (projgen type tree) or None."""
    return {"let": v, "init": list(init), "ty": ty}


def render_init(i):
    k = i[0]
    if k == "struct":
        return "%s { ..Default::default() }" % i[1]
    if k == "call":
        return "%s::new()" % i[1]
    if k == "var":
        return i[1]
    if k == "ref":
        return "&" + render_init(i[1])
    return i[1]


def render_let(s):
    return "let %s%s = %s;" % (s["let"], ": " + pg.rust_type(s["ty"]) if s.get("ty") else "", render_init(s["init"]))


def render_ready(case):
    """The case with its let statements printed (tools/projgen prints strings verbatim)."""
    c = copy.deepcopy(case)
    for its in c["files"].values():
        for it in its:
            if it["kind"] == "fn":
                it["body"] = [render_let(x) if isinstance(x, dict) and "let" in x else x for x in it.get("body", [])]
        for k, it in enumerate(its):
            if it["kind"] in ("struct", "enum") and it.get("derive_lines") is not None:
                plain = dict(it, derives=[])
                its[k] = {"kind": "raw", "text": "\n".join(list(it["derive_lines"]) + [pg.render_item(plain)])}
    return c


def emit(name, pl, recv="app", to=None, ref=False):
    """pl: ["var", n] | ["unit"] | ["str"] | ["int"] | ["bool"] | ["struct", N]"""
    k = pl[0]
    expr = {"var": lambda: pl[1], "unit": lambda: "()", "str": lambda: '"s"', "int": lambda: "1", "bool": lambda: "true",
            "struct": lambda: "%s { ..Default::default() }" % pl[1]}[k]()
    return {"emit": name, "recv": recv, "payload": ("&" if ref else "") + expr, "pl": list(pl), "to": to}


def fn(name, params, ret=None, body=(), command=True, attr=("tauri", "command"), is_async=False):
    return {"kind": "fn", "name": name, "attrs": [list(attr)] if command else [], "async": is_async, "vis": "pub",
            "params": [p if isinstance(p, dict) else {"name": p[0], "ty": p[1]} for p in params], "ret": ret, "body": list(body)}


def project(items, mappings=None, files=None):
    case = {"files": files or {"src/lib.rs": list(items)}, "config": {}}
    if mappings:
        set_mappings(case, mappings)
    return case


def set_mappings(case, mappings):
    """typeMappings are read from tauri.conf.json only when the file's section validates, which
    needs an existing projectPath (pg.generate writes the sources below proj/)."""
    case["config"]["typeMappings"] = dict(mappings)
    case["config"]["projectPath"] = "proj"


# ----------------------------------------------------------------------------- encoding for the model

def sx_ty(t):
    k = t["k"]
    if k == "ref":
        return ["r", sx_ty(t["t"])]
    if k == "tuple":
        return ["t", [sx_ty(x) for x in t["ts"]]]
    return ["p", list(t["segs"]), t["name"], bool(t["args"] or t.get("lt")), [sx_ty(a) for a in t["args"]]]


DERIVE_LINE = re.compile(r"^#\s*\[\s*derive\s*\(")


def is_serde(it):
    """struct_parser.rs should_include: some attribute whose path is `derive` and whose token text contains
    Serialize or Deserialize (a substring test: serde::Serialize, SerializeDisplay count; a derive inside
    cfg_attr(..) does not, its path is cfg_attr). `derive_lines`: the attributes spelled out verbatim."""
    if it.get("derive_lines") is not None:
        return any(DERIVE_LINE.match(l.strip()) and ("Serialize" in l or "Deserialize" in l) for l in it["derive_lines"])
    return any(("Serialize" in d) or ("Deserialize" in d) for d in it.get("derives", []))


def is_command(it):
    return any(list(a) in (["tauri", "command"], ["command"]) for a in it.get("attrs", []) if not isinstance(a, str))


IDENT = re.compile(r"^[A-Za-z_][A-Za-z0-9_]*$")


def stmt_pl(s):
    if "pl" in s:
        return s["pl"]
    e = s.get("payload", "()")
    if IDENT.match(e):
        return ["var", e]
    if e == "()":
        return ["unit"]
    return ["other"]


def sx_item(it):
    k = it["kind"]
    if k == "struct":
        return ["struct", it["name"], is_serde(it), True,
                [[sx_ty(f["ty"]), any(a.get("skip") for a in f.get("serde", []))] for f in it.get("fields", [])]]
    if k == "enum":
        return ["enum", it["name"], is_serde(it)]
    if k == "fn":
        def sx_init(i):
            return ["ref", sx_init(i[1])] if i[0] == "ref" else (["other"] if i[0] == "other" else [i[0], i[1]])
        emits = []
        for s in it.get("body", []):
            if not isinstance(s, dict):
                continue
            if "let" in s:
                emits.append(["letty", s["let"], sx_ty(s["ty"])] if s.get("ty") else ["let", s["let"], sx_init(s["init"])])
            else:
                emits.append(["emit", [s["emit"], s.get("recv", "app"), stmt_pl(s)]])
        return ["fn", it["name"], is_command(it), [[p["name"], sx_ty(p["ty"])] for p in it.get("params", [])],
                [sx_ty(it["ret"])] if it.get("ret") is not None else [], emits]
    return ["other"]


def model_sx(case, mode):
    """((item ..) ((rust ts) ..) zod): files concatenated in the order the implementation visits them."""
    # analyze_project visits the files in sorted PathBuf order (component-wise): the first emit site of an
    # event name decides its listener's payload type
    items = [sx_item(i) for rel in sorted(case["files"], key=lambda r: r.split("/")) for i in case["files"][rel]]
    maps = sorted((case.get("config") or {}).get("typeMappings", {}).items())
    return [items, [[k, v] for k, v in maps], mode == "zod"]


# ----------------------------------------------------------------------------- witnesses / adversarial cases

USER = st("User", [("id", P("i32")), ("name", P("String"))])
STATUS = en("Status")


def adversarial():
    """(label, case) list; every case is a closed-world project."""
    out = []
    out.append(("plain-baseline", project([
        USER, STATUS, st("Team", [("lead", P("User")), ("members", P("Vec", P("User"))), ("st", P("Option", P("Status")))]),
        fn("get_team", [("id", P("i32"))], P("Result", P("Team"), P("String"))),
        fn("save_user", [("user", P("User")), ("tags", P("HashMap", P("String"), P("Vec", P("User"))))], None),
        fn("list_users", [], P("Vec", P("User"))),
        fn("find_user", [("q", Ref(P("str")))], P("Option", P("User")))])))
    out.append(("enum-in-return", project([STATUS, fn("get_status", [], P("Status"))])))
    out.append(("enum-in-channel", project([STATUS, fn("watch", [("ch", P("Channel", P("Status")))], None)])))
    out.append(("enum-in-field-and-param", project([STATUS, st("Job", [("st", P("Status"))]), fn("run_job", [("j", P("Job")), ("s", P("Status"))], None)])))
    out.append(("return-map", project([USER, fn("by_name", [], P("HashMap", P("String"), P("User")))])))
    out.append(("return-tuple", project([USER, fn("pair", [], Tup(P("User"), P("i32")))])))
    out.append(("return-vec-vec-string", project([fn("grid", [], P("Vec", P("Vec", P("String"))))])))
    out.append(("return-vec-option", project([USER, fn("maybe_users", [], P("Vec", P("Option", P("User"))))])))
    out.append(("return-vec-tuple", project([USER, fn("pairs", [], P("Vec", Tup(P("User"), P("i32"))))])))
    out.append(("return-result-map", project([USER, fn("index", [], P("Result", P("HashMap", P("String"), P("User")), P("String")))])))
    out.append(("field-tuple-map", project([USER, st("Holder", [("both", Tup(P("HashMap", P("String"), P("User")), P("bool")))]),
                                            fn("hold", [("h", P("Holder"))], None)])))
    out.append(("result-one-arg", project([USER, {"kind": "raw", "text": "type Result<T> = std::result::Result<T, String>;"},
                                           fn("load_user", [], P("Result", P("User")))])))
    out.append(("event-nested", project([st("Leaf", [("x", P("i32"))]), st("Deep", [("leaf", P("Leaf"))]),
                                         fn("ping", [], None),
                                         fn("notify", [APP, ("d", P("Deep"))], None, [emit("deep-changed", ["var", "d"])], command=False)])))
    out.append(("two-helper-events", project([st("Alpha", [("x", P("i32"))]), st("Beta", [("y", P("String"))]), fn("ping", [], None),
                                              fn("notify_a", [APP, ("a", P("Alpha"))], None, [emit("alpha-changed", ["var", "a"])], command=False),
                                              fn("notify_b", [APP, ("b", P("Beta"))], None, [emit("beta-changed", ["var", "b"])], command=False)])))
    out.append(("event-generic-payload", project([USER, fn("broadcast", [APP, ("items", P("Vec", P("User")))], None, [emit("items", ["var", "items"])])])))
    out.append(("event-twice", project([USER, fn("touch", [APP, ("u", P("User"))], None, [emit("user-updated", ["var", "u"]), emit("user-updated", ["var", "u"])])])))
    out.append(("event-twice-two-fns", project([USER, fn("touch", [APP, ("u", P("User"))], None, [emit("user-updated", ["var", "u"])]),
                                                fn("poke", [APP, ("u", P("User"))], None, [emit("user-updated", ["var", "u"])])])))
    out.append(("events-mangle-to-one", project([fn("tick", [APP], None, [emit("user-updated", ["unit"]), emit("user_updated", ["str"])])])))
    out.append(("event-names-not-identifiers", project([USER, fn("announce", [APP, ("u", P("User"))], None,
                                                                 [emit("user:created/now", ["var", "u"]), emit("app://ready", ["unit"]), emit("2nd.try", ["str"])])])))
    out.append(("event-twice-different-payloads", project(None, files={
        "src/a.rs": [fn("first", [APP, ("u", P("User"))], None, [emit("changed", ["var", "u"])])],
        "src/a/b.rs": [fn("second", [APP, ("s", P("Status"))], None, [emit("changed", ["var", "s"])])],
        "src/lib.rs": [USER, STATUS]})))
    out.append(("events-mangle-colon-vs-dash", project([fn("tick2", [APP], None, [emit("job:done", ["unit"]), emit("job-done", ["str"])])])))
    out.append(("ipc-channel", project([USER, STATUS, fn("watch_ipc", [("on_ev", P("Channel", P("User"), segs=["ipc"])), ("id", P("i32"))], P("Status")),
                                        fn("watch_only", [("on_ev", P("Channel", P("Vec", P("Status")), segs=["ipc"]))], None)])))
    out.append(("zod-enum-everywhere", project([STATUS, st("Job", [("st", P("Status")), ("hist", P("Vec", P("Status")))]),
                                                fn("job", [("s", P("Option", P("Status"))), ("ch", P("Channel", P("Status")))], P("Vec", P("Status"))),
                                                fn("fire_status", [APP, ("s", P("Status"))], None, [emit("status", ["var", "s"])])])))
    renamed = st("Person", [("full_name", P("String")), ("r#type", P("User"))])
    renamed["fields"][0]["serde"] = [{"rename": "full-name"}]
    out.append(("quoted-keys-and-raw-names", project([USER, renamed, fn("describe", [("r#type", P("Person")), ("r#in", P("Option", P("User")))], P("Person")),
                                                      fn("watch_raw", [("r#type", P("Person")), ("r#match", P("Channel", P("User")))], None)])))
    out.append(("nested-commas", project([USER, STATUS,
                                          st("Deepmap", [("m", P("HashMap", P("String"), P("HashMap", P("String"), Tup(P("User"), P("Status"))))),
                                                         ("t", Tup(P("HashMap", P("String"), P("User")), Tup(P("Status"), P("i32")), P("bool")))]),
                                          fn("deepmap", [("d", P("Deepmap")), ("r", P("Result", Tup(P("User"), P("Status")), P("String")))], P("Result", P("Deepmap"), P("String")))])))
    out.append(("return-vec-vec-user", project([USER, fn("grid_users", [], P("Vec", P("Vec", P("User")))), fn("opt_grid", [], P("Option", P("Vec", P("Vec", P("Option", P("User"))))))])))
    out.append(("struct-named-cmd-params", project([st("GetUserParams", [("x", P("i32"))]),
                                                    fn("get_user", [("id", P("i32")), ("p", P("GetUserParams"))], None)])))
    out.append(("commands-mangle-to-one", project([fn("get_user", [], P("i32")), fn("getUser", [], P("i32"))])))
    out.append(("on-x-vs-listener", project([fn("on_x", [APP], None, [emit("x", ["unit"])])])))
    out.append(("struct-named-Record", project([st("Record", [("id", P("i32"))]), st("Book", [("by_id", P("HashMap", P("String"), P("Record")))]),
                                                fn("get_record", [("r", P("Record"))], P("Record")), fn("get_book", [], P("Book"))])))
    out.append(("struct-named-Promise", project([st("Promise", [("id", P("i32"))]), fn("promise", [("p", P("Promise"))], P("Option", P("Promise")))])))
    out.append(("struct-named-Array", project([st("Array", [("id", P("i32"))]), fn("array", [("p", P("Vec", P("Array")))], P("Vec", P("Array")))])))
    out.append(("struct-named-Channel", project([st("Channel", [("id", P("i32"))]), USER,
                                                 fn("open", [("c", P("Channel")), ("on_msg", P("Channel", P("User"), segs=["tauri", "ipc"]))], P("Channel"))])))
    out.append(("mappings", project([st("Doc", [("id", P("Uuid")), ("at", P("Option", P("DateTime"))), ("paths", P("Vec", P("PathBuf")))]),
                                     fn("get_doc", [("id", P("Uuid"))], P("Result", P("Doc"), P("String"))),
                                     fn("doc_id", [], P("Uuid")), fn("doc_ids", [], P("Vec", P("Uuid")))],
                                    mappings={"Uuid": "string", "DateTime": "string", "PathBuf": "string"})))
    out.append(("mapped-and-defined", project([st("Money", [("cents", P("i64"))]), fn("price", [("m", P("Money"))], P("Money"))], mappings={"Money": "number"})))
    out.append(("skipped-field", project([st("Secret", [("k", P("i32"))], derives=["Debug"]),
                                          st("Conf", [("name", P("String")), ("s", P("Secret"))], skip=("s",)), fn("conf", [], P("Conf"))])))
    out.append(("channel-only-and-both", project([USER, STATUS,
                                                  fn("only_chan", [("on_ev", P("Channel", P("User")))], None),
                                                  fn("both", [("id", P("i32")), ("on_ev", P("Channel", P("Vec", P("User"))))], P("User"))])))
    out.append(("event-payload-kinds", project([USER, fn("emit_all", [APP, ("u", P("User")), ("r", Ref(P("User")))], None,
                                                         [emit("ev-unit", ["unit"]), emit("ev-str", ["str"]), emit("ev-int", ["int"]), emit("ev-bool", ["bool"]),
                                                          emit("ev-user", ["var", "u"]), emit("ev-ref", ["var", "r"]), emit("ev-lit", ["struct", "User"]),
                                                          emit("ignored", ["var", "u"], recv="other")])])))
    out.append(("multi-file", project(None, files={
        "src/lib.rs": [fn("get_team", [("id", P("i32"))], P("Option", P("Team")))],
        "src/models/team.rs": [st("Team", [("lead", P("User")), ("st", P("Status"))])],
        "src/models/deep/user.rs": [USER, STATUS]})))
    return out


# ----------------------------------------------------------------------------- position matrix

SITES = ["param", "return", "field", "channel", "event"]


def position_case(site, ctx, leaf_is_enum):
    """One custom type (struct or enum) at one structural position of one translation site."""
    leaf = en("Leafy") if leaf_is_enum else st("Leafy", [("v", P("i32"))])
    t = CONTEXTS[ctx](P("Leafy"))
    items = [leaf]
    if site == "param":
        items.append(fn("take", [("arg", t)], None))
    elif site == "return":
        items.append(fn("give", [], t))
    elif site == "field":
        items += [st("Holder", [("slot", t)]), fn("hold", [("h", P("Holder"))], P("Holder"))]
    elif site == "channel":
        items.append(fn("stream", [("on_msg", P("Channel", t))], None))
    else:
        items.append(fn("fire", [APP, ("pl", t)], None, [emit("fired", ["var", "pl"])]))
    return project(items)


def position_matrix():
    out = []
    for site in SITES:
        for ctx in CONTEXTS:
            if site == "field" and ctx.startswith("result"):
                continue
            for e in (False, True):
                out.append(("%s/%s/%s" % (site, ctx, "enum" if e else "struct"), position_case(site, ctx, e)))
    return out


# ----------------------------------------------------------------------------- random projects

CLEAN_FIELD_CTX = [c for c in pg.FIELD_CONTEXTS if c != "tuple_map"]
MAPPED = {"Uuid": "string", "Timestamp": "number", "Flag": "boolean"}


def random_case(rng, wild=False):
    """A projgen graph project (events, channels, enums), made closed-world; `wild` keeps the
    constructor contexts and event names that fall into the recorded classes."""
    case, meta = pg.gen_graph_project(rng, ntypes=rng.randint(2, 7), nfiles=rng.randint(1, 4), ncmds=rng.randint(1, 5),
                                      p_edge=rng.choice([0.2, 0.35, 0.5]), contexts=None if wild else CLEAN_FIELD_CTX,
                                      enums=(wild or rng.random() < 0.5), events=True, channel=True)
    fns = [it for its in case["files"].values() for it in its if it["kind"] == "fn"]
    k = 0
    for f in fns:
        for s in f.get("body", []):
            if isinstance(s, dict):
                s["pl"] = stmt_pl(s)
                if not wild or rng.random() < 0.6:
                    s["emit"] = "%s-%d" % (s["emit"], k)      # distinct event names (the same name twice is one listener)
                    k += 1
                if rng.random() < 0.3:
                    # characters that are not legal in identifiers are mangled to underscores
                    s["emit"] = s["emit"].replace("-", rng.choice([":", "/", ".", " ", "::"]))
    names = meta["names"]
    if wild:
        # custom types under every constructor at returns as well
        for f in fns:
            if f.get("attrs") and rng.random() < 0.5:
                f["ret"] = CONTEXTS[rng.choice(list(CONTEXTS))](P(rng.choice(names)))
    if rng.random() < 0.3:
        set_mappings(case, MAPPED)
        structs = [it for its in case["files"].values() for it in its if it["kind"] == "struct" and it["name"] in names]
        for it in structs:
            if rng.random() < 0.5:
                it["fields"].append({"name": "mapped_%d" % len(it["fields"]), "ty": rng.choice([P("Uuid"), P("Option", P("Timestamp")), P("Vec", P("Flag"))]),
                                     "serde": [], "validate": []})
        for f in fns:
            if f.get("attrs") and f.get("ret") is None and rng.random() < 0.5:
                f["ret"] = rng.choice([P("Uuid"), P("Option", P("Uuid")), P("Result", P("Timestamp"), P("String"))])
    if rng.random() < 0.3:
        # an event emitted from a plain helper function, payload type also used by a command
        n = rng.choice(names)
        if not meta["is_enum"][names.index(n)] or wild:
            f0 = sorted(case["files"])[0]
            case["files"][f0].append(fn("helper_emit_%d" % k, [APP, ("pl", P(n))], None, [emit("helper-%d" % k, ["var", "pl"])], command=False))
            case["files"][f0].append(fn("use_%s_%d" % (n.lower(), k), [("x", P(n))], None))
    return case, meta


# ----------------------------------------------------------------------------- cross-file projects

ROOT_KINDS = ["param", "return", "channel", "event_helper", "event_command", "event_literal", "event_emit_to"]


def root_fn(kind, fname, t, tname, evname):
    """The function that mentions root type `t` (custom name `tname`) through one root kind."""
    if kind == "param":
        return fn(fname, [("arg", t)], None)
    if kind == "return":
        return fn(fname, [], t)
    if kind == "channel":
        return fn(fname, [("on_msg", P("Channel", t))], None)
    if kind == "event_helper":        # payload type mentioned by no command
        return fn(fname, [APP, ("pl", t)], None, [emit(evname, ["var", "pl"])], command=False)
    if kind == "event_command":
        return fn(fname, [APP, ("pl", t)], None, [emit(evname, ["var", "pl"])])
    if kind == "event_literal":       # payload built in place: only the emit mentions the type
        return fn(fname, [APP], None, [emit(evname, ["struct", tname])], command=False)
    if kind == "event_emit_to":
        return fn(fname, [APP, ("pl", Ref(t))], None, [emit(evname, ["var", "pl"], to='"main"')], command=False)
    raise ValueError(kind)


def crossfile_matrix():
    """Every root kind x struct|enum leaf x file layout; the root type is never defined in the
    file of the function that mentions it."""
    out = []
    for kind in ROOT_KINDS:
        for leaf_enum in (False, True):
            if leaf_enum and kind == "event_literal":
                continue
            for layout in ("two-files", "chain-three-files", "deep-dir"):
                if leaf_enum and layout == "chain-three-files":
                    continue
                leaf = en("Payload") if leaf_enum else st("Payload", [("v", P("i32"))] + ([("dep", P("Detail"))] if layout == "chain-three-files" else []))
                files = {"src/lib.rs": [fn("ping", [], None)],
                         "src/api/handlers.rs": [root_fn(kind, "handle", P("Payload"), "Payload", "payload-ready")]}
                files["src/models/deep/nested/payload.rs" if layout == "deep-dir" else "src/models/payload.rs"] = [leaf]
                if layout == "chain-three-files":
                    files["src/models/detail.rs"] = [st("Detail", [("n", P("String"))])]
                out.append(("crossfile/%s/%s/%s" % (kind, "enum" if leaf_enum else "struct", layout), project(None, files=files)))
    return out


def crossfile_random(rng):
    """Random multi-file project: one file per type, one file per function; every root type is
    reached through a random root kind from a function in another file; dependencies between
    types (other files again) through clean constructor contexts."""
    n = rng.randint(2, 6)
    names = rng.sample(pg.TYPE_NAMES, n)
    is_enum = [rng.random() < 0.2 for _ in names]
    files = {"src/lib.rs": [fn("ping", [], None)]}
    has_in = set()
    for i, nm in enumerate(names):
        if is_enum[i]:
            files["src/models/%s.rs" % nm.lower()] = [en(nm)]
            continue
        fields = [("id", P("i32"))]
        for j in range(i + 1, n):
            if rng.random() < 0.35:
                fields.append(("f_%d" % j, CONTEXTS[rng.choice(["direct", "option", "vec", "map_value", "tuple_last", "set"])](P(names[j]))))
                has_in.add(j)
        files["src/models/%s%s.rs" % ("sub/" if rng.random() < 0.3 else "", nm.lower())] = [st(nm, fields)]
    k = 0
    for i, nm in enumerate(names):
        if i in has_in and rng.random() < 0.6:
            continue
        kinds = [x for x in ROOT_KINDS if not (is_enum[i] and x == "event_literal")]
        for kind in rng.sample(kinds, rng.choice([1, 1, 2])):
            t = P(nm)
            if kind in ("param", "return", "channel"):
                t = CONTEXTS[rng.choice(["direct", "option", "vec"])](t)
            files["src/cmds/c%d.rs" % k] = [root_fn(kind, "op_%d" % k, t, nm, "evt-%d" % k)]
            k += 1
    return project(None, files=files)


# ----------------------------------------------------------------------------- one event name, several sites, different payloads

def multisite_cases():
    """The same event name emitted from 2 or 3 places with different payload types, in every order of
    the sites (item order inside one file, sorted path order across files); each payload type has a
    nested dependency and is reachable from nothing but its emit site. The listener is typed from the
    first site; every site's payload type and its dependencies have to be declared."""
    import itertools
    out = []
    names = ["JobStarted", "JobFinished", "JobFailed"]
    for k in (2, 3):
        for perm in itertools.permutations(range(k)):
            for layout in ("one-file", "files"):
                for kind in ("event_helper", "event_literal", "event_emit_to"):
                    types, fns = [], []
                    for pos, i in enumerate(perm):
                        nm = names[i]
                        types += [st(nm, [("id", P("i32")), ("detail", P("Vec", P(nm + "Detail")))]), st(nm + "Detail", [("msg", P("String"))])]
                        fns.append(root_fn(kind, "emit_%d" % pos, P(nm), nm, "job-status"))
                    if layout == "one-file":
                        files = {"src/lib.rs": [fn("ping", [], None)] + fns + types}
                    else:
                        files = {"src/lib.rs": [fn("ping", [], None)], "src/models.rs": types}
                        for pos, f in enumerate(fns):
                            files["src/emit/%s.rs" % "abc"[pos]] = [f]
                    out.append(("multisite/%d/%s/%s/%s" % (k, "".join(map(str, perm)), layout, kind), project(None, files=files)))
    # one of the payload types is also a command parameter; an enum payload beside a struct payload
    out.append(("multisite/mixed-reachability", project([
        st("Alpha", [("x", P("i32"))]), st("Beta", [("a", P("Option", P("BetaDep")))]), st("BetaDep", [("y", P("i32"))]), en("Phase"),
        fn("use_alpha", [("a", P("Alpha"))], None),
        fn("e1", [APP, ("p", P("Beta"))], None, [emit("tick", ["var", "p"])], command=False),
        fn("e2", [APP, ("p", P("Alpha"))], None, [emit("tick", ["var", "p"])], command=False),
        fn("e3", [APP, ("p", P("Phase"))], None, [emit("tick", ["var", "p"])], command=False)])))
    return out


# ----------------------------------------------------------------------------- histories on one output directory

def strip_events(case):
    """The same project without any emit statement."""
    c = copy.deepcopy(case)
    for its in c["files"].values():
        for it in its:
            if it["kind"] == "fn":
                it["body"] = [s for s in it.get("body", []) if not (isinstance(s, dict) and "emit" in s)]
    return c


def with_extra_event(case, tag="Gone"):
    """The same project plus a payload struct (with a dependency) and a helper that emits it."""
    c = copy.deepcopy(case)
    f0 = sorted(c["files"])[0]
    c["files"][f0] = c["files"][f0] + [st(tag + "Payload", [("d", P(tag + "Dep"))]), st(tag + "Dep", [("v", P("i32"))]),
                                       fn("emit_" + tag.lower(), [APP, ("pl", P(tag + "Payload"))], None, [emit(tag.lower() + "-event", ["var", "pl"])], command=False)]
    return c


def history_pairs(rng, n):
    """(label, first case, first mode, second case, second mode): the second generation goes into the
    output directory the first one filled; the second run is the one judged."""
    out = []
    pool = [c for _, c in adversarial()] + [c for _, c in crossfile_matrix()]
    for i in range(n):
        base = rng.choice(pool) if rng.random() < 0.5 else random_case(rng, False)[0]
        kind = rng.choice(["event-removed", "event-removed", "event-added", "unrelated", "same"])
        m2 = rng.choice(["none", "zod"])
        m1 = m2 if rng.random() < 0.6 else ("zod" if m2 == "none" else "none")
        if kind == "event-removed":
            first, second = with_extra_event(base), strip_events(base)
        elif kind == "event-added":
            first, second = strip_events(base), with_extra_event(base)
        elif kind == "unrelated":
            first, second = crossfile_random(rng), base
        else:
            first, second = base, base
        out.append(("history-%d/%s/%s-then-%s" % (i, kind, m1, m2), first, m1, second, m2))
    return out


# ----------------------------------------------------------------------------- statement sequences before an emit

def rebinding_cases():
    """Emitting functions in which the payload variable gets its type from a parameter, a typed let, a
    struct-literal or a path-call initialiser and is then re-bound (shadowed) by 0..2 further lets -
    initialisers that cannot be typed (method call, plain call), a reference to / copy of a typed
    variable, another struct literal, another typed let - in every order, before it is emitted by
    value or by reference. Every type is defined and reachable from nothing but the emit."""
    import itertools
    types = [st("Summary", [("detail", P("SummaryDetail"))]), st("SummaryDetail", [("n", P("i32"))]),
             st("Digest", [("parts", P("Vec", P("DigestPart")))]), st("DigestPart", [("n", P("i32"))])]
    origins = {
        "param": ([("summary", P("Summary"))], []),
        "ref-param": ([("summary", Ref(P("Summary")))], []),
        "typed-let": ([], [let("summary", ["other", "load()"], ty=P("Summary"))]),
        "struct-let": ([], [let("summary", ["struct", "Summary"])]),
        "call-let": ([], [let("summary", ["call", "Summary"])]),
    }
    rebinds = {
        "clone": let("summary", ["other", "summary.clone()"]),
        "call": let("summary", ["other", "enrich(summary)"]),
        "ref-self": let("summary", ["ref", ["var", "summary"]]),
        "copy-other-var": let("summary", ["var", "original"]),
        "retype-struct": let("summary", ["struct", "Digest"]),
        "retype-typed": let("summary", ["other", "digest()"], ty=P("Digest")),
    }
    out = []
    for oname, (params, pre) in origins.items():
        seqs = [()] + [(a,) for a in rebinds] + list(itertools.permutations(rebinds, 2))
        for seq in seqs:
            for by_ref in (False, True):
                if len(seq) == 2 and by_ref:
                    continue
                body = list(pre)
                if "copy-other-var" in seq:
                    body.append(let("original", ["struct", "Summary"]))
                body += [rebinds[x] for x in seq] + [emit("summary-ready", ["var", "summary"], ref=by_ref)]
                items = types + [fn("ping", [], None), fn("publish", [APP] + params, None, body, command=False)]
                out.append(("rebind/%s/%s/%s" % (oname, "+".join(seq) or "none", "ref" if by_ref else "val"), project(items)))
    return out


# ----------------------------------------------------------------------------- directory layouts

DIR_NAMES = ["dist", "node_modules", "build", "out", "gen", "vendor", "tests", "examples", "benches", "bin", ".cargo", "target2",
             "my_target", "git", "foo.rs", "src", "lib"]


def layout_cases():
    """Serde types defined in module directories with common real-world names (also nested, also a
    directory named like a file) and used from a command / an emit elsewhere."""
    out = []
    for d in DIR_NAMES:
        for nest in ("src/%s/models.rs", "src/app/%s/deep/models.rs", "src/%s/%s/models.rs"):
            rel = nest % ((d, d) if nest.count("%s") == 2 else (d,))
            files = {"src/lib.rs": [fn("release", [("req", P("ReleaseRequest"))], P("Result", P("ReleaseInfo"), P("String"))),
                                    fn("announce", [APP, ("n", P("ReleaseNote"))], None, [emit("release-note", ["var", "n"])], command=False)],
                     rel: [st("ReleaseInfo", [("assets", P("Vec", P("Asset")))]), st("Asset", [("name", P("String"))]),
                           st("ReleaseRequest", [("tag", P("String"))]), st("ReleaseNote", [("text", P("String"))])]}
            out.append(("layout/%s" % rel, project(None, files=files)))
    return out


# ----------------------------------------------------------------------------- project-defined types with special-looking names

SPECIAL_NAMES = ["PathBuf", "Path", "OsString", "Duration", "SystemTime", "Instant", "Uuid", "Url", "DateTime", "Utc", "Value", "Bytes",
                 "Decimal", "NaiveDate", "Date", "Map", "Set", "Record", "Promise", "Array", "Error", "URL", "Object", "Function", "Symbol",
                 "Str", "Bool", "Number", "Int", "Unit", "Channel", "Result", "Option", "Vec2", "HashMapper", "State2", "Window2", "Event",
                 "UnlistenFn", "Params", "Schema", "Types", "Z",
                 # a tool-special name as a prefix / suffix / infix of the project's own name
                 "MapMarker", "Mapping", "MapView", "RecordingState", "Recorder", "RecordSet", "PromiseLike", "ArrayBufferView", "OptionSet",
                 "VecDeque2", "ResultCode", "StringList", "DateRange", "SetTopBox", "HashMapEntry", "ChannelInfo", "Stringly", "Numbering",
                 "BooleanFlag", "VoidMarker", "AnyValue", "UnknownKind", "NullState", "UndefinedState", "TypesRegistry", "ParamsBag",
                 "UserRecord", "RoadMap", "MyRecordKeeper", "BitMapLayer", "AppHandleInfo", "StateMachine", "WindowLayout"]


def special_name_cases():
    """A serde struct / enum the project defines itself under a name some layer might treat specially
    (std / ecosystem types, TypeScript globals, primitive look-alikes, tool-internal names), unmapped,
    used at every site kind."""
    out = []
    for nm in SPECIAL_NAMES:
        for as_enum in (False, True):
            leaf = en(nm) if as_enum else st(nm, [("minutes", P("i32")), ("seconds", P("i32"))])
            t = P(nm)
            items = [leaf, st("Holder" + ("E" if as_enum else "S"), [("slot", t), ("many", P("Vec", t)), ("by_key", P("HashMap", P("String"), t))]),
                     fn("take_it", [("arg", t), ("opt", P("Option", t))], None),
                     fn("give_it", [], t), fn("give_many", [], P("Result", P("Vec", t), P("String"))), fn("maybe_it", [], P("Option", t)),
                     fn("fire_many", [APP, ("pl", Ref(t))], None, [emit("fired-ref", ["var", "pl"], ref=True)], command=False),
                     fn("hold_it", [("h", P("Holder" + ("E" if as_enum else "S")))], None),
                     fn("stream_it", [("on_msg", P("Channel", t))], None),
                     fn("fire_it", [APP, ("pl", t)], None, [emit("fired", ["var", "pl"])], command=False)]
            out.append(("name/%s/%s" % (nm, "enum" if as_enum else "struct"), project(items)))
    return out


# ----------------------------------------------------------------------------- spellings of the derive attribute

DERIVE_SPELLINGS = {
    "plain": ["#[derive(Serialize, Deserialize)]"],
    "serde-path": ["#[derive(serde::Serialize, serde::Deserialize)]"],
    "leading-colons": ["#[derive(::serde::Serialize, ::serde::Deserialize)]"],
    "serde-derive-path": ["#[derive(serde_derive::Serialize, serde_derive::Deserialize)]"],
    "only-serialize": ["#[derive(Serialize)]"],
    "only-deserialize": ["#[derive(Deserialize)]"],
    "only-path-deserialize": ["#[derive(Debug, serde::Deserialize)]"],
    "split-attributes": ["#[derive(Debug, Clone)]", "#[derive(Serialize)]", "#[derive(Deserialize)]"],
    "serde-in-second-attribute": ["#[derive(Debug, Clone, PartialEq)]", "#[allow(dead_code)]", "#[derive(serde::Serialize)]"],
    "spaces-and-trailing-comma": ["#[derive( Serialize , Deserialize , )]"],
    "spaced-brackets": ["# [ derive ( Serialize,Deserialize ) ]"],
    "others-around": ["#[derive(Debug, Serialize, PartialEq, Eq, Deserialize, Clone, Default)]"],
    "multi-line": ["#[derive(\n    Debug,\n    serde::Serialize,\n    serde::Deserialize,\n)]"],
}


def derive_spelling_cases():
    """A struct and an enum whose serde derive is spelled in a legal, less common way, used as
    parameter, return, field and event payload."""
    out = []
    for label, lines in DERIVE_SPELLINGS.items():
        s1 = dict(st("Release", [("tag", P("String")), ("kind", P("ReleaseKind"))]), derive_lines=list(lines))
        e1 = dict(en("ReleaseKind", ("Stable", "Beta")), derive_lines=list(lines))
        items = [s1, e1, st("Catalog", [("items", P("Vec", P("Release"))), ("default_kind", P("ReleaseKind"))]),
                 fn("publish", [("r", P("Release")), ("k", P("Option", P("ReleaseKind")))], P("Catalog")),
                 fn("latest", [], P("Option", P("Release"))),
                 fn("notify_release", [APP, ("r", P("Release"))], None, [emit("released", ["var", "r"])], command=False)]
        out.append(("derive/%s" % label, project(items)))
    return out


# ----------------------------------------------------------------------------- one analyzer, several rounds on edited sources

def add_event(case, payload, dep, event, fname):
    """+ a payload struct with a dependency and a helper fn that emits it (first file in path order)."""
    c = copy.deepcopy(case)
    f0 = sorted(c["files"], key=lambda r: r.split("/"))[0]
    c["files"][f0] = c["files"][f0] + [st(payload, [("d", P(dep))]), st(dep, [("v", P("i32"))]),
                                       fn(fname, [APP, ("pl", P(payload))], None, [emit(event, ["var", "pl"])], command=False)]
    return c


def add_type_and_user(case, k):
    """+ a struct (with a dependency) in an EXISTING file and a command in a NEW file that returns it."""
    c = copy.deepcopy(case)
    f0 = sorted(c["files"])[-1]
    c["files"][f0] = c["files"][f0] + [st("Badge%d" % k, [("label", P("String")), ("tone", P("BadgeTone%d" % k))]), en("BadgeTone%d" % k)]
    c["files"]["src/added/badges_%d.rs" % k] = [fn("list_badges_%d" % k, [("only", P("Option", P("BadgeTone%d" % k)))], P("Vec", P("Badge%d" % k)))]
    return c


def add_field_of_new_type(case, k):
    """an existing struct gets a field whose type is defined in a new file; if there is no struct a new
    command parameter does the same."""
    c = copy.deepcopy(case)
    c["files"]["src/added/extra_%d.rs" % k] = [st("Extra%d" % k, [("note", P("String"))])]
    for rel in sorted(c["files"]):
        for it in c["files"][rel]:
            if it["kind"] == "struct" and not it.get("unit") and is_serde(it):
                it["fields"].append({"name": "extra_%d" % k, "ty": P("Option", P("Extra%d" % k)), "serde": [], "validate": []})
                c["files"]["src/added/extra_%d.rs" % k].append(fn("touch_extra_%d" % k, [("x", P(it["name"]))], None))
                return c
    c["files"]["src/added/extra_%d.rs" % k].append(fn("touch_extra_%d" % k, [("x", P("Extra%d" % k))], None))
    return c


def reuse_histories(rng, n):
    """(label, [round case, ...]): 2-3 closed-world project states, each analysed by the SAME analyzer and
    generated by the SAME generator: payload struct renamed / removed, event removed and re-added with
    another payload, a type added to an existing file and used from a new file, a field of a new type,
    a file removed, another project altogether, the same project again."""
    out = []
    bases = [("plain", dict(adversarial())["plain-baseline"]), ("multi-file", dict(adversarial())["multi-file"]),
             ("channels", dict(adversarial())["channel-only-and-both"])]
    for i in range(n):
        bases.append(("xf%d" % i, crossfile_random(rng)))
        rc = random_case(rng, False)[0]
        while (rc.get("config") or {}).get("typeMappings"):       # the configuration stays the same over a history
            rc = random_case(rng, False)[0]
        bases.append(("rnd%d" % i, strip_events(rc)))
    for bl, base in bases:
        ev_a = add_event(base, "ProgressA", "ProgressADep", "progress", "emit_progress")
        ev_b = add_event(base, "ProgressB", "ProgressBDep", "progress", "emit_progress")
        other = crossfile_random(rng)
        smaller = copy.deepcopy(base)
        if len(smaller["files"]) > 1:
            victim = sorted(smaller["files"])[-1]
            if not any(it["kind"] in ("struct", "enum") for it in smaller["files"][victim]):
                del smaller["files"][victim]
        hs = {
            "payload-renamed": [ev_a, ev_b],
            "event-removed": [ev_a, base],
            "event-removed-then-other-payload": [ev_a, base, ev_b],
            "type-added-to-existing-file": [base, add_type_and_user(base, 1)],
            "two-additions": [base, add_type_and_user(base, 1), add_type_and_user(add_type_and_user(base, 1), 2)],
            "field-of-new-type": [base, add_field_of_new_type(base, 1)],
            "addition-then-removal": [base, add_type_and_user(base, 1), base],
            "other-project": [base, other],
            "other-project-and-back": [ev_a, other, base],
            "same-again": [ev_a, ev_a],
            "file-removed": [base, smaller],
        }
        for hl, rounds in hs.items():
            out.append(("reuse/%s/%s" % (bl, hl), rounds))
    return out


def mapping_dropped_history():
    """C02-9: a struct analysed while a type mapping covered one of its field types is redefined, and the
    mapping is dropped from the configuration of the next round: the reused analyzer keeps the old definition."""
    r0 = project([st("Doc", [("id", P("Uuid")), ("title", P("String"))]), fn("get_doc", [], P("Doc"))], mappings={"Uuid": "string"})
    r1 = project([st("Doc", [("id", P("i32")), ("title", P("String"))]), fn("get_doc", [], P("Doc"))])
    return [r0, r1]


# ----------------------------------------------------------------------------- count relations between collections

EXTERNAL_MAPPED = [("PathBuf", "string"), ("Uuid", "string"), ("Url", "string"), ("Decimal", "number"), ("NaiveDate", "string"),
                   ("Duration", "number")]


def mapped_count_cases():
    """COUNT relations between the collections of the type collector: k = 2..6 distinct type-mapped external names
    (PathBuf, Uuid, Url, ...) directly in command signatures and FEW structs - one command-used struct on top of a chain
    of nested-only types of length 2..4 (bottom: struct or enum), no error struct, no event-only struct. The number of
    custom names in the collector's worklist that are no discovered structs exceeds the number of discovered structs
    not reachable from commands (0) by k. Sites of the mapped names: parameters of the command that uses the struct,
    parameters of separate commands, returns / Option / Vec positions. Run in several fresh processes (hash order
    decides where the struct sits in the worklist)."""
    out = []
    for k in range(2, 7):
        for depth in (2, 3, 4):
            for site in ("same-cmd-params", "own-cmds", "returns-and-containers"):
                for bottom_enum in (False, True):
                    if bottom_enum and site != "own-cmds":
                        continue
                    mapped = EXTERNAL_MAPPED[:k]
                    chain = ["Document", "Meta", "Tag", "Label", "Tone"][:depth + 1]
                    items = []
                    for i, nm in enumerate(chain):
                        if i == len(chain) - 1:
                            items.append(en(nm) if bottom_enum else st(nm, [("text", P("String"))]))
                        else:
                            ctx = [P(chain[i + 1]), P("Vec", P(chain[i + 1])), P("Option", P(chain[i + 1]))][(i + k) % 3]
                            items.append(st(nm, [("id", P("i32")), ("next", ctx)]))
                    if site == "same-cmd-params":
                        items.append(fn("save_document", [("doc", P("Document"))] + [("a%d" % i, P(n)) for i, (n, _) in enumerate(mapped)], None))
                    elif site == "own-cmds":
                        items.append(fn("load_document", [], P("Document")))
                        for i, (n, _) in enumerate(mapped):
                            items.append(fn("touch_%d" % i, [("v", P(n))], None))
                    else:
                        items.append(fn("find_document", [("id", P("i32"))], P("Option", P("Document"))))
                        for i, (n, _) in enumerate(mapped):
                            r = [P(n), P("Vec", P(n)), P("Result", P(n), P("String")), P("Option", P(n))][i % 4]
                            items.append(fn("probe_%d" % i, [], r))
                    case = project(items)
                    set_mappings(case, dict(mapped))
                    out.append(("mappedcount/k%d/chain%d/%s/%s" % (k, depth, site, "enum" if bottom_enum else "struct"), case))
    return out
