"""C01 adversarial project generator (wraps tools/projgen.py).

A case is {"project": <projgen case>, "cfg": {"param_case", "field_case", "mappings"}, "tags": [...]}.
Profiles:
  clean        names and types drawn widely but outside every recorded defect class (reserved words as
               parameter / field names, all non-kebab conventions, kebab on single-word names, nested
               README types, validators with hostile messages, type mappings, 8 naming cases)
  adversarial  1-3 injected triggers: kebab / SCREAMING-KEBAB renames and rename_all, renames with
               spaces / quotes / backslashes / empty / non-ASCII, raw identifiers, reserved words as
               command names, event names with ':' '/', '::' paths, Result<HashMap<..>,E>, tuples with
               generic elements, kebab parameter case
"""
from tools.projgen import P, Ref, Tup, UNIT, STR_REF, gen_type, PRIMS

CASES8 = ["lowercase", "UPPERCASE", "PascalCase", "camelCase", "snake_case", "SCREAMING_SNAKE_CASE", "kebab-case",
          "SCREAMING-KEBAB-CASE"]
SAFE_CASES = CASES8[:6]
# JS reserved words (and strict-mode ones) that are ordinary Rust identifiers
JS_RESERVED_RUST_OK = ["delete", "new", "class", "function", "default", "var", "void", "export", "import", "this", "null",
                       "with", "switch", "case", "catch", "throw", "finally", "instanceof", "debugger", "package", "private",
                       "protected", "public", "interface", "implements", "extends", "arguments", "eval"]
# Rust keywords usable only as raw identifiers
RAW_IDENTS = ["r#type", "r#match", "r#in", "r#enum", "r#typeof", "r#try", "r#yield", "r#let", "r#static", "r#const"]
WORDS_UNI = ["größe", "naïve_flag", "имя_поля", "名前", "température_max"]
FN_UNI = ["größe_ändern", "получить_данные", "データ取得", "mise_à_jour"]
WORDS = ["id", "name", "user_id", "created_at", "value", "items", "is_active", "x1", "http_code", "a", "data_2d", "first_name",
         "last_login_ip", "b2b", "_hidden", "count", "total_amount", "kind", "payload", "opts", "q"]
TYPE_NAMES = ["User", "Profile", "Settings", "Item", "Order", "Address", "Status", "Kind", "Report", "Node", "Leaf", "Meta",
              "Evt", "Progress", "Cfg2", "HTTPResponse", "Résumé"]
FN_WORDS = ["get_user", "save", "list_items", "do_it", "fetch_all", "update_profile", "ping", "compute_2x", "load", "sync_now",
            "get_class", "new_item", "delete_all", "x", "a_b_c", "import_data", "void_order", "_private_cmd"]
EVENT_SAFE = ["progress", "user_updated", "item-added", "app-ready", "a", "sync2", "Tick", "download-progress-2", "x_y-z", "9lives"]
# non-ASCII event names over everything char::is_alphanumeric (Tauri's rule) accepts: letters of several scripts,
# Nd digits of other scripts, Nl (Roman numerals), No (superscripts, subscripts, fractions, circled numbers)
EVENT_UNI = ["co₂:level", "area-m²/changed", "½-done", "①-step", "x³", "данные/обновлены", "データ更新", "عدد٣", "수정-완료",
             "Ⅷ-ready", "naïve_event", "température", "数据:更新/完成", "fullwidth１２", "όνομα-αλλαγή", "नाम-बदला", "¼¾"]
EVENT_BAD = ["user:created", "app/ready", "ns:sub/evt", "a:b", "files/changed-now", "x:1", "app://ready"]
MSG_POOL = ["too short", "must be 1-10", "Ungültige Länge", "名前が必要です", "say \"hi\"", "back\\slash", "tab\there", "line\nbreak",
            "it's", "50% (approx)", "a, b", "émoji 🎉 ok", "quote\" and \\ both", "cr\rlf", "</script>", "${x}", "`tick`", "ends with \\",
            # user-controlled texts that reach the output: every ECMAScript line terminator (LF and CR above; U+2028 LINE SEPARATOR,
            # U+2029 PARAGRAPH SEPARATOR) plus U+0085, comment openers / closers, mixed with quotes and backslashes
            "Keep it short.\u2028Two hundred characters at most", "para\u2029graph } export", "nel\u0085here", "see // note", "open /* it",
            "close */ it", "*/ // \u2028 \" \\ '", "\u2028", "ends with \u2029", "// \u2028 const x = 1;"]
RENAME_IDENT = ["fullName", "ID", "$ref", "_x", "ünï", "UserName2", "x", "имя", "名前", "όνομα", "اسم", "नाम", "이름", "größe", "x٣", "データ１", "Ⅷ"]
# names that char::is_alphanumeric accepts but ECMAScript does not (category No after a letter)
RENAME_OTHER_NUMBER = ["m²", "co₂", "x½", "a①", "m³_per_s", "größe²"]
RENAME_BAD = ["full-name", "FULL-NAME", "full name", "a\"b", "a\\b", "", "has.dot", "1abc", "a:b", "x-1", "naïve-key", "@type", "a/b", "a\u2028b", "x // y", "a*/b", "/*a", "p\u2029"]
# numeric-like renames: canonical numbers, leading zeros (legacy octal in strict code), signs, exponents, radix prefixes,
# separators, fractions, very long digit strings, digits of other scripts. HEAD quotes all of them (not identifier names)
RENAME_NUMERIC = ["0", "404", "01", "007", "00", "08", "+1", "-1", "1e3", "0x10", "0b1", "0o7", "1_000", "1.5", ".5", "1.",
                  "123456789012345678901234567890", "٣", "１２", "1n", "0.0", "-0", "NaN", "Infinity"]
# file and directory names of the scanned sources (they reach file_path / lineNumber of the template contexts):
# comment terminators and openers, quotes, backticks, template substitutions, backslashes, spaces, newline, non-ASCII
ODD_PATHS = ["src/plugins*/notify.rs", "src/x/*c/ev.rs", "src/a*/*/b.rs", "src/it's/q\"uote/mod.rs", "src/back`tick/${x}/ev.rs",
             "src/ünï/データ.rs", "src/sp ace/e v.rs", "src/back\\slash/ev.rs", "src/new\nline/ev.rs", "src/<tag>/&amp;.rs",
             "src/[br]/{cu}.rs", "src/--x/*/", "src/end*/"]
ODD_PATHS = [p if p.endswith(".rs") else p + "cmds.rs" for p in ODD_PATHS]
RENAME_VARIANT_OK = ["not-started", "IN PROGRESS", "done", "ünï-code", "a\\\\b", "with 'single'", "x/y:z", "", "line\u2028sep", "v // c", "*/v/*"]
RENAME_VARIANT_BAD = ["a\"b", "ends\\", "q\"\"q"]
MAP_TARGETS = ["string", "number", "boolean"]


def ident_ok(s):
    import re
    return re.fullmatch(r"[A-Za-z_$\u0080-￿][A-Za-z0-9_$\u0080-￿]*", s) is not None


def pick_names(rng, pool, k):
    return rng.sample(pool, min(k, len(pool)))


def gen_validate(rng):
    out = []
    r = rng.random()
    msg = (lambda: rng.choice(MSG_POOL) if rng.random() < 0.6 else None)
    if r < 0.35:
        spec = {}
        if rng.random() < 0.8:
            spec["min"] = rng.choice([0, 1, 3, 10])
        if rng.random() < 0.7:
            spec["max"] = rng.choice([5, 10, 255, 1000])
        spec["message"] = msg()
        out.append({"length": spec})
    elif r < 0.6:
        spec = {}
        if rng.random() < 0.8:
            spec["min"] = rng.choice([0, 1, "1.5", "0.0", "1e3"])
        if rng.random() < 0.7:
            spec["max"] = rng.choice([5, 10, "10.5", "1e6", 100])
        spec["message"] = msg()
        out.append({"range": spec})
    elif r < 0.75:
        out.append({"email": {"message": msg()} if rng.random() < 0.5 else {}})
    elif r < 0.85:
        out.append({"url": {}})
    return out


def leaf_for_validate(v):
    if not v:
        return None
    k = list(v[0])[0]
    if k in ("email", "url"):
        return P("String")
    if k == "range":
        return P("f64")
    return None


def nest(rng, depth, named, allow_result=False):
    t = gen_type(rng, depth, named=named, allow_result=allow_result)
    return t


def has_comma_defect(t, top=True):
    """Result whose Ok type prints a comma, or a tuple with an element that prints a comma (the two
    recorded parser classes): such types leak half generic lists."""
    def multi(t):
        k = t["k"]
        if k == "ref":
            return multi(t["t"])
        if k == "tuple":
            return len(t["ts"]) >= 2 or any(multi(x) for x in t["ts"])
        return len(t["args"]) >= 2 or any(multi(a) for a in t["args"])
    k = t["k"]
    if k == "ref":
        return has_comma_defect(t["t"])
    if k == "tuple":
        return any(multi(x) for x in t["ts"]) or any(has_comma_defect(x) for x in t["ts"])
    if t["name"] == "Result" and t["args"] and multi(t["args"][0]):
        return True
    return any(has_comma_defect(a) for a in t["args"])


def nested_tuple(rng, levels, named=None, generics=None):
    """tuple-in-tuple, `levels` deep: unit and 1-tuple elements, references inside tuples, with generics alongside or
    with NO generic anywhere inside the outer tuple (generics=False)"""
    if generics is None:
        generics = rng.random() < 0.5
    def leaf():
        r = rng.random()
        if r < 0.15:
            return UNIT
        if r < 0.3:
            return Ref(P(rng.choice(["str", "i32", "bool"])))
        if r < 0.4 and named:
            return P(rng.choice(list(named)))
        if r < 0.55 and generics:
            return rng.choice([P("Vec", P("u8")), P("HashMap", P("String"), P("i32")), P("Option", P("bool")), P("Vec", Tup(P("i32"), P("i32")))])
        return P(rng.choice(["i32", "f64", "bool", "String", "u8"]))
    def tup(lv):
        n = rng.choice([1, 2, 2, 3, 4])
        els = []
        for _ in range(n):
            els.append(tup(lv - 1) if lv > 1 and rng.random() < 0.6 else leaf())
        if lv > 1 and not any(e["k"] == "tuple" and e["ts"] for e in els):
            els[rng.randrange(len(els))] = tup(lv - 1)
        return Tup(*els)
    return tup(levels)


def deep_type(rng, depth, named=None):
    """`depth` levels of nesting mixing Option / references (which nest neither in TypeScript nor in a Zod chain) with at most
    25 levels of Vec / sets / Result / maps / tuples (at most 40 maps and tuples) around a bottom that is a tuple, a reference,
    unit or a project type: the specification parser of the oracle has a nesting budget of 64 for types and for expressions,
    so the TypeScript nesting (maps, tuples) and the Zod nesting (everything but Option and &) of a generated case stay below it."""
    t = rng.choice([Tup(P("String"), P("i32")), STR_REF, UNIT, Tup(Tup(P("i32"), P("i32")), P("bool")), Ref(Tup(P("u8"), P("bool")))] +
                   ([P(rng.choice(list(named)))] if named else []))
    heavy = rng.randint(0, 25)   # a tuple / union costs two levels of the expression budget
    slots = set(rng.sample(range(depth), min(heavy, depth)))
    nest_ts = 0
    for i in range(depth):
        if i in slots:
            c = rng.choice(["Vec", "HashSet", "Result", "BTreeSet", "Result1", "Vec"] + (["HashMap", "tuple1", "tuple2", "BTreeMap"] if nest_ts < 40 else []))
        else:
            c = rng.choice(["Option", "ref", "Option"])
        if c in ("Vec", "Option", "HashSet", "BTreeSet"):
            t = P(c, t)
        elif c == "ref":
            t = Ref(t)
        elif c == "Result":
            t = P("Result", t, P("String"))
        elif c == "Result1":
            t = P("Result", t)
        elif c in ("HashMap", "BTreeMap"):
            t = P(c, P("String"), t); nest_ts += 1
        elif c == "tuple1":
            t = Tup(t); nest_ts += 1
        else:
            t = (Tup(P("i32"), t) if rng.random() < 0.5 else Tup(t, P("bool"))); nest_ts += 1
    return t


_DEEP = [0]      # how many deep types the project being generated may still get (set by gen_case)


def clean_type(rng, depth, named, allow_result=False):
    # (types whose Result / tuple parts print commas were excluded here while the first-comma split was a recorded
    #  defect; since its repair they are ordinary)
    r = rng.random()
    if _DEEP[0] > 0 and r < 0.3:
        _DEEP[0] -= 1
        return deep_type(rng, rng.randint(30, 200), named)
    if r < 0.2:
        return nested_tuple(rng, rng.randint(2, 3), named)
    return nest(rng, depth, named, allow_result)


def gen_case(rng, profile, idx=0):
    adversarial = profile == "adversarial"
    tags = []
    _DEEP[0] = rng.randint(1, 3) if rng.random() < 0.1 else 0
    if _DEEP[0]:
        tags.append("deep_types")
    ntypes = rng.randint(1, 4)
    names = pick_names(rng, TYPE_NAMES[:-1] if not adversarial else TYPE_NAMES[:-1], ntypes)
    enum_flags = [rng.random() < 0.3 for _ in names]
    struct_names = [n for n, e in zip(names, enum_flags) if not e]
    cfg = {"param_case": "camelCase", "field_case": "snake_case", "mappings": {}}
    if rng.random() < 0.5:
        cfg["param_case"] = rng.choice(SAFE_CASES)
    if rng.random() < 0.5:
        cfg["field_case"] = rng.choice(SAFE_CASES)
    triggers = []
    if adversarial:
        triggers = rng.sample(["kebab_all", "rename_bad", "raw_ident", "reserved_fn", "event_bad", "path", "comma", "kebab_param",
                               "kebab_field_cfg", "variant_bad", "chan_kebab", "key_other_number"], rng.randint(1, 3))
        tags += triggers
    if "kebab_param" in triggers or "chan_kebab" in triggers:
        cfg["param_case"] = rng.choice(CASES8[6:])
    if "kebab_field_cfg" in triggers:
        cfg["field_case"] = rng.choice(CASES8[6:])
    mapped = []
    if rng.random() < 0.3:
        for n in pick_names(rng, ["Uuid", "PathBuf", "Decimal", "Timestamp"], rng.randint(1, 2)):
            cfg["mappings"][n] = rng.choice(MAP_TARGETS)
            mapped.append(n)
        tags.append("type_mappings")
    leaf_named = list(names) + mapped
    items = []
    # ---- types
    for n, is_enum in zip(names, enum_flags):
        serde = []
        if rng.random() < 0.5:
            pool = CASES8 if ("kebab_all" in triggers) else SAFE_CASES
            serde.append({"rename_all": rng.choice(pool[6:] if "kebab_all" in triggers and rng.random() < 0.7 else pool)})
        if is_enum:
            vs = []
            nvar = 0 if rng.random() < 0.06 else (rng.randint(5, 10) if rng.random() < 0.25 else rng.randint(1, 4))
            all_skip = rng.random() < 0.08
            for v in pick_names(rng, ["Active", "Inactive", "InProgress", "Done", "A", "NotStarted", "HTTPError", "X1", "Paused", "Queued", "Retrying", "TimedOut"], nvar):
                vserde = []
                if rng.random() < 0.3:
                    vserde.append({"rename": rng.choice(RENAME_VARIANT_BAD if ("variant_bad" in triggers and rng.random() < 0.6) else RENAME_VARIANT_OK + RENAME_IDENT)})
                elif rng.random() < 0.15:
                    vserde.append({"skip": True})       # any variant, also the first; all of them may end up skipped
                if all_skip:
                    vserde = [{"skip": True}]
                vs.append({"name": v, "serde": vserde})
            items.append({"kind": "enum", "name": n, "derives": ["Serialize", "Deserialize"], "serde": serde, "variants": vs})
            continue
        fields = []
        pool = WORDS + (JS_RESERVED_RUST_OK if rng.random() < 0.5 else []) + (WORDS_UNI if rng.random() < 0.3 else [])
        if "raw_ident" in triggers and rng.random() < 0.6:
            pool = pool + RAW_IDENTS
        for fname in pick_names(rng, pool, rng.randint(0, 5)):
            val = gen_validate(rng) if rng.random() < 0.4 else []
            leaf = leaf_for_validate(val)
            if leaf is not None:
                ty = leaf if rng.random() < 0.6 else P("Option", leaf)
            elif val:
                ty = rng.choice([P("String"), P("Vec", P("String")), P("Option", P("String")), P("Vec", P("Option", P("i32")))])
            else:
                ty = clean_type(rng, rng.randint(0, 3), [x for x in leaf_named if x != n] or None)
                if "comma" in triggers and rng.random() < 0.4:
                    ty = rng.choice([Tup(P("HashMap", P("String"), P("i32")), P("bool")),
                                     Tup(P(rng.choice(names)), P("HashMap", P("String"), P("Vec", P("u8")))),
                                     P("Vec", Tup(P("BTreeMap", P("String"), P("bool")), P("String")))])
                if "path" in triggers and rng.random() < 0.4:
                    ty = rng.choice([P(rng.choice(names), segs=["crate", "models"]), P("HashMap", P("String"), P("i32"), segs=["std", "collections"]),
                                     P("Vec", P(rng.choice(names), segs=["super"])), P("Option", P("String", segs=["std", "string"]))])
            fserde = []
            r = rng.random()
            if r < 0.2:
                if rng.random() < 0.2:
                    fserde.append({"rename": rng.choice(RENAME_NUMERIC)})
                elif "key_other_number" in triggers and rng.random() < 0.7:
                    fserde.append({"rename": rng.choice(RENAME_OTHER_NUMBER)})
                else:
                    fserde.append({"rename": rng.choice(RENAME_BAD if ("rename_bad" in triggers and rng.random() < 0.7) else RENAME_IDENT)})
            elif r < 0.27:
                fserde.append({"skip": True})
            elif r < 0.32:
                fserde.append({"raw": "default"})
            fields.append({"name": fname, "ty": ty, "serde": fserde, "validate": val})
        items.append({"kind": "struct", "name": n, "derives": rng.choice([["Serialize", "Deserialize"], ["Debug", "Clone", "Serialize"]]),
                      "serde": serde, "fields": fields, "unit": (not fields and rng.random() < 0.5)})
    # ---- commands
    ncmds = rng.randint(1, 4)
    fn_pool = list(FN_WORDS)
    if "reserved_fn" in triggers:
        fn_pool = JS_RESERVED_RUST_OK
    if "raw_ident" in triggers and rng.random() < 0.5:
        fn_pool = fn_pool + RAW_IDENTS[:3]
    if rng.random() < 0.25 and "reserved_fn" not in triggers:
        fn_pool = fn_pool + FN_UNI
    events = []
    cmd_items = []
    for cname in pick_names(rng, fn_pool, ncmds):
        params = []
        ppool = WORDS + (JS_RESERVED_RUST_OK if rng.random() < 0.6 else []) + (WORDS_UNI if rng.random() < 0.3 else [])
        if "raw_ident" in triggers and rng.random() < 0.6:
            ppool = ppool + RAW_IDENTS
        for pname in pick_names(rng, ppool, rng.randint(0, 3)):
            ty = clean_type(rng, rng.randint(0, 3), leaf_named or None)
            if "comma" in triggers and rng.random() < 0.3:
                ty = Tup(P("HashMap", P("String"), P("i32")), P("bool"))
            if "path" in triggers and rng.random() < 0.3:
                ty = P(rng.choice(names), segs=["crate", "m1"])
            params.append({"name": pname, "ty": ty})
        if rng.random() < 0.3 or "chan_kebab" in triggers:
            params.append({"name": rng.choice(["on_event", "progress_channel", "ch"]),
                           "ty": P("Channel", clean_type(rng, 1, leaf_named or None), segs=rng.choice([[], ["tauri", "ipc"], ["ipc"]]))})
            if rng.random() < 0.4:
                params.append({"name": "log_channel", "ty": P("Channel", rng.choice([P("String"), P("Vec", P("u8")), P("LogEntry")]))})
        if rng.random() < 0.3:
            params.insert(0, {"name": "state", "ty": P("State", P("Db"), lt=True)})
        ret = None
        r = rng.random()
        if r < 0.75:
            ret = clean_type(rng, rng.randint(0, 3), leaf_named or None, allow_result=True)
            if rng.random() < 0.4:
                ret = P("Result", ret, P("String"))
            if "comma" in triggers and rng.random() < 0.5:
                ret = rng.choice([P("Result", P("HashMap", P("String"), P(rng.choice(names))), P("String")),
                                  P("Result", Tup(P("HashMap", P("String"), P("i32")), P("bool")), P("String")),
                                  P("Result", Tup(P("String"), P("i32")), P("String"))])
            if "path" in triggers and rng.random() < 0.4:
                ret = P("Result", P(rng.choice(names), segs=["crate", "models"]), P("Error", segs=["anyhow"]))
        body = []
        if rng.random() < 0.35 or ("event_bad" in triggers and rng.random() < 0.8):
            if not any(p["name"] == "app" for p in params):
                params.insert(0, {"name": "app", "ty": P("AppHandle", segs=["tauri"])})
            en = rng.choice(EVENT_BAD if ("event_bad" in triggers and rng.random() < 0.7) else (EVENT_UNI if rng.random() < 0.35 else EVENT_SAFE))
            cands = [p for p in params if p["name"] not in ("app", "state") and not p["name"].startswith("r#")
                     and p["ty"].get("name") not in ("Channel",)]
            if cands and rng.random() < 0.7:
                payload = rng.choice(cands)["name"]
            else:
                payload = rng.choice(["()", "42", "\"text\"", "true"])
            if rng.random() < 0.12:
                # untyped local (the payload type falls back to the variable's name), sometimes a raw identifier
                payload = rng.choice(["r#final", "r#type", "computed", "r#box"])
                body.append("let %s = compute();" % payload)
            body.append({"emit": en, "recv": "app", "payload": payload})
            events.append(en)
        cmd_items.append({"kind": "fn", "name": cname, "attrs": [rng.choice([["tauri", "command"], ["command"]])],
                          "async": rng.random() < 0.5, "vis": "pub", "params": params, "ret": ret, "body": body})
    # ---- place items in files
    nfiles = rng.randint(1, 3)
    files = ["src/lib.rs", "src/m1.rs", "src/sub/deep/m2.rs"][:nfiles]
    if rng.random() < 0.3:
        files = pick_names(rng, ODD_PATHS, nfiles)
        tags.append("odd_paths")
    placed = {f: [] for f in files}
    for it in items + cmd_items:
        placed[rng.choice(files)].append(it)
    if rng.random() < 0.3:
        placed[files[0]].append({"kind": "raw", "text": "fn helper_fn(x: i32) -> i32 { x + 1 }"})
    project = {"files": placed, "config": {}}
    return {"project": project, "cfg": cfg, "tags": tags, "profile": profile}


# ---------------------------------------------------------------- witnesses of the recorded classes
def _proj(items):
    return {"files": {"src/lib.rs": items}, "config": {}}


def _cmd(name, params=(), ret=None, body=()):
    return {"kind": "fn", "name": name, "attrs": [["tauri", "command"]], "async": False, "vis": "pub",
            "params": list(params), "ret": ret, "body": list(body)}


DEFAULT_CFG = {"param_case": "camelCase", "field_case": "snake_case", "mappings": {}}


def witnesses():
    user = lambda fields, serde=(): {"kind": "struct", "name": "User", "derives": ["Serialize", "Deserialize"], "serde": list(serde), "fields": fields}
    f = lambda n, ty=None, serde=(), val=(): {"name": n, "ty": ty or P("String"), "serde": list(serde), "validate": list(val)}
    get = _cmd("get_user", [{"name": "id", "ty": P("i32")}], P("User"))
    w = {}
    w["C01-bare-key"] = {"project": _proj([user([f("full_name", serde=[{"rename": "full-name"}]), f("age", P("u8"))]), get]), "cfg": DEFAULT_CFG}
    w["C01-bare-key/rename_all"] = {"project": _proj([user([f("first_name"), f("age", P("u8"))], serde=[{"rename_all": "kebab-case"}]), get]), "cfg": DEFAULT_CFG}
    w["C01-raw-ident"] = {"project": _proj([_cmd("set_kind", [{"name": "r#type", "ty": P("String")}], None)]), "cfg": DEFAULT_CFG}
    w["C01-reserved-fn"] = {"project": _proj([_cmd("delete", [{"name": "id", "ty": P("i32")}], P("bool"))]), "cfg": DEFAULT_CFG}
    w["C01-digit-first"] = {"project": _proj([_cmd("_2fa_check", [{"name": "code", "ty": P("String")}], P("bool"))]), "cfg": DEFAULT_CFG}
    w["C01-event-fn"] = {"project": _proj([_cmd("notify", [{"name": "app", "ty": P("AppHandle", segs=["tauri"])}, {"name": "msg", "ty": P("String")}], None,
                                                  [{"emit": "user:created/now", "recv": "app", "payload": "msg"}])]), "cfg": DEFAULT_CFG}
    w["C01-path-leak"] = {"project": _proj([user([f("name")]), _cmd("get_user", [], P("Result", P("User", segs=["crate", "models"]), P("String")))]), "cfg": DEFAULT_CFG}
    w["C01-half-generic"] = {"project": _proj([user([f("name")]), _cmd("all_users", [], P("Result", P("HashMap", P("String"), P("User")), P("String")))]), "cfg": DEFAULT_CFG}
    w["C01-half-generic/tuple"] = {"project": _proj([user([f("pair", Tup(P("HashMap", P("String"), P("i32")), P("bool")))]), get]), "cfg": DEFAULT_CFG}
    w["C01-prefix-tuple"] = {"project": _proj([_cmd("pairs", [], P("Vec", Tup(P("String"), P("i32"))))]), "cfg": DEFAULT_CFG}
    w["C01-key-other-number"] = {"project": _proj([user([f("area", P("f64"), serde=[{"rename": "m²"}]), f("age", P("u8"))]), get]), "cfg": DEFAULT_CFG}
    w["regression:unicode-events"] = {"project": _proj([_cmd("notify", [{"name": "app", "ty": P("AppHandle", segs=["tauri"])}, {"name": "msg", "ty": P("String")}], None,
                                                           [{"emit": "co₂:level", "recv": "app", "payload": "msg"}, {"emit": "area-m²/changed", "recv": "app", "payload": "msg"},
                                                            {"emit": "данные/обновлены", "recv": "app", "payload": "msg"}, {"emit": "①-step", "recv": "app", "payload": "msg"}])]), "cfg": DEFAULT_CFG}
    w["C01-empty-enum"] = {"project": _proj([{"kind": "enum", "name": "Status", "derives": ["Serialize", "Deserialize"], "serde": [],
                                              "variants": [{"name": "Active", "serde": [{"skip": True}]}, {"name": "Done", "serde": [{"skip": True}]}]},
                                             {"kind": "enum", "name": "Nothing", "derives": ["Serialize", "Deserialize"], "serde": [], "variants": []},
                                             _cmd("status", [{"name": "n", "ty": P("Nothing")}], P("Status"))]), "cfg": DEFAULT_CFG}
    w["C01-event-raw-fallback"] = {"project": _proj([_cmd("notify", [{"name": "app", "ty": P("AppHandle", segs=["tauri"])}], None,
                                                          ["let r#final = compute();", {"emit": "e", "recv": "app", "payload": "r#final"}])]), "cfg": DEFAULT_CFG}
    w["regression:long-enum"] = {"project": _proj([{"kind": "enum", "name": "Phase", "derives": ["Serialize", "Deserialize"], "serde": [],
                                                     "variants": [{"name": n, "serde": ([{"rename": r}] if r else [])} for n, r in
                                                                  [("Queued", None), ("Active", "in \\ progress"), ("Paused", None), ("Retrying", "re\"try"), ("Done", None),
                                                                   ("Failed", "tab\there"), ("TimedOut", None), ("Cancelled", "ends\\")]]},
                                                    _cmd("phase", [], P("Phase"))]), "cfg": DEFAULT_CFG}
    w["C01-literal-backslash"] = {"project": _proj([{"kind": "enum", "name": "Status", "derives": ["Serialize", "Deserialize"], "serde": [],
                                                     "variants": [{"name": "Active", "serde": [{"rename": "a\"b"}]}, {"name": "Done", "serde": []}]},
                                                    _cmd("status", [], P("Status"))]), "cfg": DEFAULT_CFG}
    return w


def big_project():
    """A fixed, large project: generated first (other mode) into the same output directory by the
    output-directory-state stream, so that every file of the second generation is shorter than the one it replaces."""
    items = []
    for i in range(6):
        items.append({"kind": "struct", "name": "EarlierGenerationStruct%d" % i, "derives": ["Serialize", "Deserialize"], "serde": [],
                      "fields": [{"name": "a_rather_long_field_name_%d_%d" % (i, j), "ty": P("HashMap", P("String"), P("Vec", P("Option", P("i64")))),
                                  "serde": [], "validate": []} for j in range(8)]})
    for i in range(8):
        items.append(_cmd("earlier_generation_command_number_%d" % i,
                          [{"name": "app", "ty": P("AppHandle", segs=["tauri"])}] +
                          [{"name": "parameter_with_long_name_%d" % j, "ty": P("EarlierGenerationStruct%d" % ((i + j) % 6))} for j in range(3)] +
                          [{"name": "progress_channel", "ty": P("Channel", P("EarlierGenerationStruct0"))}],
                          P("Result", P("Vec", P("EarlierGenerationStruct%d" % (i % 6))), P("String")),
                          [{"emit": "earlier-generation-event-%d" % i, "recv": "app", "payload": "parameter_with_long_name_0"}]))
    return {"project": _proj(items), "cfg": DEFAULT_CFG}
