"""C20 - SIZE thresholds (round 7, after seeded/C20-13): large and dense graphs for both routines and
both history streams. A counter, cap or depth guard inside a routine only acts beyond some number of
back edges / nodes / recursion depth; the small scope (<= 4 nodes exhaustively, <= 12 random) has at
most 78 back edges per sort. Every sort runs in the harness child process (a thread with a 64 MB
stack): an abort, stack overflow or stall is attributed to the case in flight by vlib._run_stream
and becomes outcome PANIC / TIMEOUT with the graph as the replay.

Cost: Spec/P20.v topo_ok_b calls reach_b once per edge (a closure each) - roughly quartic on deep
connected graphs. Shapes whose closures are small (fans, flat sets, pairs) go to 600 (thorough 1500) nodes with
the oracle (node labels are unary numbers in the extracted model: everything is cubic); deep ones (chains of recursive types, two-way chains) carry the oracle to ~150 nodes and
beyond that are judged through the model alone (stream *-huge): implementation == model output,
which C20's theorems show to satisfy the property for every graph and order; on a disagreement the
full oracle is run on that case whatever it costs."""
import random

from tools import vlib
from tools.vlib import Outcome, sx
from tools.props import c20 as P


def K(n, loops):
    return [(a, b) for a in range(n) for b in range(n) if loops or a != b]


def back_edges(n_adj, req):
    """back edges (edges to a node on the DFS stack, self-loops included) a sort under sorted
    order meets; iterative so that python's recursion limit plays no role"""
    adj = {a: sorted(ds) for a, ds in n_adj}
    visited, visiting, cnt = set(), set(), 0
    for r in sorted(req):
        if r in visited:
            continue
        stack = [(r, iter(adj.get(r, [])))]
        visiting.add(r)
        while stack:
            node, it = stack[-1]
            for d in it:
                if d in visiting:
                    cnt += 1
                elif d not in visited:
                    visiting.add(d)
                    stack.append((d, iter(adj.get(d, []))))
                    break
            else:
                stack.pop()
                visiting.discard(node)
                visited.add(node)
    return cnt


def shapes(n):
    chain = [(i, i + 1) for i in range(n - 1)]
    loops = [(i, i) for i in range(n)]
    return {
        # closures of one or two nodes: cheap for the oracle at any size
        "selfrec-flat": (loops, list(range(n))),
        "selfrec-fan": ([(0, i) for i in range(1, n)] + loops, [0]),
        "pairs-fan": ([(0, i) for i in range(1, n)] + [(i, i + 1) for i in range(1, n - 1, 2)]
                      + [(i + 1, i) for i in range(1, n - 1, 2)], [0]),
        # deep
        "selfrec-chain": (chain + loops, [0]),
        "two-way-chain": (chain + [(i + 1, i) for i in range(n - 1)], [0]),
        "all-back-to-root": (chain + [(i, 0) for i in range(1, n)], [0]),
        "chain": (chain, [0]),
        "long-cycle": (chain + [(n - 1, 0)], [n // 2]),
    }


CHEAP = ("selfrec-flat", "selfrec-fan", "pairs-fan")
DEEP = ("selfrec-chain", "two-way-chain", "all-back-to-root", "chain", "long-cycle")


def topo_size_cases(tier, rng):
    cases = []
    dense = [8, 11, 13, 14, 15, 16, 20, 24] if tier == "quick" else [8, 11, 13, 14, 15, 16, 20, 24, 30, 40]
    for n in dense:
        for loops in (True, False):
            for req in ([0], list(range(n))):
                cases.append({"adj": P.adj_of(n, K(n, loops)), "req": req, "n": n,
                              "big": "complete" + ("+loops" if loops else "")})
    for _ in range(60 if tier == "quick" else 600):
        n = rng.randint(13, 26)
        dens = rng.choice([0.5, 0.7, 0.85, 0.95])
        edges = [(a, b) for a in range(n) for b in range(n) if rng.random() < dens]
        req = [i for i in range(n) if rng.random() < 0.3] or [rng.randrange(n)]
        cases.append({"adj": P.adj_of(n, edges), "req": req, "n": n, "big": "dense-random"})
    for n in ([150, 300, 600] if tier == "quick" else [101, 150, 300, 600, 1000, 1500]):
        for name in CHEAP:
            e, req = shapes(n)[name]
            cases.append({"adj": P.adj_of(n, e), "req": req, "n": n, "big": name})
    for n in ([60, 110] if tier == "quick" else [60, 103, 110, 150, 200]):
        for name in DEEP:
            e, req = shapes(n)[name]
            cases.append({"adj": P.adj_of(n, e), "req": req, "n": n, "big": name})
    # vlib shards a case list into contiguous chunks: stride the list so that the few expensive
    # cases (the largest sizes) do not share one shard
    cases = [cases[j] for i in range(vlib.NCPU) for j in range(i, len(cases), vlib.NCPU)]
    for i, c in enumerate(cases):
        c["id"] = i
        c["reps"] = 1
    return cases


def topo_huge_cases(tier, rng):
    cases = []
    for n in ([300, 700] if tier == "quick" else [300, 700, 1000, 2000]):
        for name in DEEP:
            e, req = shapes(n)[name]
            cases.append({"adj": P.adj_of(n, e), "req": req, "n": n, "big": name})
    for i, c in enumerate(cases):
        c["id"] = i
        c["reps"] = 1
    return cases


def eval_topo_huge(cases):
    """model only; the oracle is run (slowly) on the cases where implementation and model differ"""
    obs = vlib.run_harness("c20-topo", cases, per_case_timeout=30)
    sexps, index = [], []
    for c, o in zip(cases, obs):
        if "panic" in o or o.get("skipped"):
            continue
        r = o["runs"][0]
        sexps.append(sx([r["adj_sorted"], r["req_sorted"]]))
        index.append((c["id"], "sorted"))
        sexps.append(sx([r["adj"], r["req"]]))
        index.append((c["id"], "hash"))
    by = dict(zip(index, vlib.run_runner("c20-topo-m", sexps)))
    outs = []
    for c, o in zip(cases, obs):
        case = {k: c[k] for k in ("adj", "req")}
        if o.get("skipped"):
            continue
        if "panic" in o:
            outs.append(Outcome(case, False, False, detail={"impl": "PANIC " + o["panic"]}))
            continue
        r = o["runs"][0]
        models = {}
        for which in ("sorted", "hash"):
            m = by[(c["id"], which)]
            if m and m[0] == "runner-error":
                raise vlib.BuildError("runner: %s" % m)
            models[which] = [int(x) for x in m[0][0]] if m[0] else None
        corr = r["out"] in models.values()
        if corr:
            outs.append(Outcome(case, True, True, detail={"impl_len": len(r["out"]), "judged": "model (oracle not run at this size)"}))
        else:
            full = vlib.run_runner("c20-topo", [sx([r["adj_sorted"], r["req_sorted"], r["out"]])], timeout=3600)[0]
            outs.append(Outcome(case, False, full[1] == "true",
                                detail={"impl": r["out"], "model": models, "oracle_ok": full[1] == "true"}))
    return outs


def kahn_size_cases(tier, rng):
    cases = []
    dense = [8, 12, 16, 24] if tier == "quick" else [8, 12, 16, 24, 32, 40]
    for n in dense:
        nodes = list(range(n))
        cases.append({"nodes": nodes, "deps": [[a, b] for a in range(n) for b in range(a)], "big": "transitive-tournament"})
        cases.append({"nodes": nodes, "deps": [[a, b] for a in range(n) for b in range(a)] + [[0, n - 1]], "big": "tournament+back"})
        cases.append({"nodes": nodes, "deps": [list(e) for e in K(n, False)], "big": "complete"})
        cases.append({"nodes": nodes, "deps": [list(e) for e in K(n, True)], "big": "complete+loops"})
    for n in ([150, 300, 600] if tier == "quick" else [101, 150, 300, 600, 1000, 1500]):
        nodes = list(range(n))
        cases.append({"nodes": nodes, "deps": [], "big": "isolated"})
        cases.append({"nodes": nodes, "deps": [[i, 0] for i in range(1, n)], "big": "in-star"})
        cases.append({"nodes": nodes, "deps": [[0, i] for i in range(1, n)], "big": "out-star"})
        cases.append({"nodes": nodes, "deps": [[i, i] for i in range(n)], "big": "self-loops"})
        cases.append({"nodes": nodes, "deps": [[0, i] for i in range(1, n)] + [[n - 1, n - 1]], "big": "out-star+one-loop"})
    for i, c in enumerate(cases):
        c["id"] = i
        c["reps"] = 1
    return cases


def ghist_size_cases(tier, rng):
    """one TypeDependencyGraph: a dense / heavily recursive graph is built, sorted, extended by one
    edge and sorted again (labels 10..99 and 110..199: sorted name order is numeric order)"""
    cases = []
    labels = list(range(10, 100)) + list(range(110, 200))
    for n in ([8, 14, 16, 20] if tier == "quick" else [8, 13, 14, 15, 16, 20, 24, 30]):
        ls = labels[:n]
        for loops in (True, False):
            build = [["ds", a, [b for b in ls if loops or a != b]] for a in ls]
            cases.append({"ops": build + [["s", [ls[0]]], ["d", ls[-1], labels[n]], ["s", ls[:2]], ["s", ls]], "big": "complete"})
            # the same graph edge by edge, sorted half way and at the end
            ds = [["d", a, b] for a in ls for b in ls if loops or a != b]
            cases.append({"ops": ds[:len(ds) // 2] + [["s", [ls[0]]]] + ds[len(ds) // 2:] + [["s", [ls[0]]], ["s", [ls[-1]]]], "big": "complete-by-edge"})
    for n in ([120, 180] if tier == "quick" else [101, 120, 150, 180]):
        ls = labels[:n]
        fan = [["ds", ls[0], ls[1:]]] + [["d", a, a] for a in ls]
        cases.append({"ops": fan + [["s", [ls[0]]], ["s", ls[1:]], ["d", ls[1], ls[0]], ["s", [ls[0]]]], "big": "selfrec-fan"})
        cases.append({"ops": [["d", a, a] for a in ls] + [["s", ls], ["td", ls[0]], ["s", ls]], "big": "selfrec-flat"})
    for i, c in enumerate(cases):
        c["id"] = i
    return cases


def hist_size_cases(tier, rng):
    """one DependencyResolver over many nodes: resolve, add a closing / further record, resolve"""
    cases = []
    for n in ([16, 150, 300] if tier == "quick" else [16, 40, 101, 150, 300, 1000]):
        idents = [[i, i % 10, i % 5] for i in range(n)]
        nodes = [["n", i] for i in range(n)]
        star = [["d", 0, i, i % 5] for i in range(1, n)]
        cases.append({"idents": idents, "ops": nodes + star + [["r"], ["d", n - 1, 0, 1], ["r"]], "big": "star-then-closed"})
        cases.append({"idents": idents, "ops": star + [["r"], ["n", 0], ["r"]], "big": "star-implicit-nodes"})
        cases.append({"idents": idents, "ops": nodes + [["r"]] + [["d", i, i, 0] for i in range(n)] + [["r"]], "big": "self-loops"})
    for n in ([12, 20] if tier == "quick" else [12, 20, 30]):
        idents = [[0, i % 10, (i // 10) % 5] for i in range(n)]        # one name, many files / kinds
        dag = [["d", a, b, 1] for a in range(n) for b in range(a)]
        cases.append({"idents": idents, "ops": dag + [["r"], ["d", 0, n - 1, 1], ["r"]], "big": "tournament-one-name"})
    for i, c in enumerate(cases):
        c["id"] = i
    return cases


def histogram(cases):
    h = {"<=10": 0, "11-78": 0, "79-100": 0, "101-1000": 0, ">1000": 0}
    for c in cases:
        b = back_edges(c["adj"], c["req"])
        k = "<=10" if b <= 10 else "11-78" if b <= 78 else "79-100" if b <= 100 else "101-1000" if b <= 1000 else ">1000"
        h[k] += 1
    return h
