"""C09 generator additions (round 7): WHICH ROOT makes a type part of types.ts.

The existing small / random streams make (nearly) every type a command parameter, so the whole dependency graph is
command-reachable and a generator that orders the command-reachable part and the rest separately is never noticed.
Here the dependency edges lie wholly or partly among types reachable ONLY through one other kind of root:
  * an event payload - bare or borrowed named type, the domain of the model - (emit in a command with the payload written as a literal / let-literal / constructor call, so
    that the payload type is not a parameter of the command; emit in a non-command helper, payload a parameter),
  * a channel parameter (Channel<T>, Channel<Vec<T>>),
  * the return type of a command WITHOUT parameters (direct, Result<T, String>, Vec<T>),
for every DAG shape of the small stream, with the names permuted so that dependents sort both before and after
their dependencies, optionally with a sink / an inner node additionally reachable from a command parameter (the
edges then cross the boundary between the two populations), optionally with a different root kind per source.
At HEAD all selected names (used_structs after the event closures were merged in) are sorted together by ONE
topological_sort_types call - this is what Model/C07Reach.v declared / C09 emitted_zod say - so the model needs no
new case distinction; the stream ties that fact to the code."""
import itertools
import json

from tools.props import c07_gen as G

SD2 = ["Serialize", "Deserialize"]

# (where, how, context)
ROOT_KINDS = [("cmd", "event", "literal"), ("cmd", "event", "let_literal"), ("cmd", "event", "new"),
              ("helper", "event", "direct"), ("helper", "event", "ref"), ("helper", "event", "literal"),
              ("cmd", "channel", "direct"), ("cmd", "channel", "vec"),
              ("cmd", "ret", "direct"), ("cmd", "ret", "result_ok"), ("cmd", "ret", "vec")]

NAME_SETS = [["Alpha", "Beta", "Gamma", "Omega"],            # rank = index: an edge i -> j (i < j) has the dependent first
             ["Job", "JobItem", "JobItemKind", "JobZ"]]      # prefix-related names (byte order = length order)

FIELD_CTX = ["direct", "option", "vec", "map_value", "tuple_last", "vec_tuple", "opt_vec", "result_alias", "tuple_map"]


def sources(n, edge_list):
    targets = {b for _, b in edge_list}
    return [i for i in range(n) if i not in targets]


def root_spec(n, edge_list, ctxs, perm, kind_idx, mix, rotate=False, name_set=0, with_other=True):
    """types 0..n-1 (all structs) named NAME_SETS[name_set][perm[i]]; every source node of the graph is a root of kind
    ROOT_KINDS[kind_idx] (rotate: the k-th source takes kind kind_idx + k), each in a function of its own.
    mix 0: nothing else; 1: the last sink is also a parameter of a command; 2: the first non-source node is."""
    names = NAME_SETS[name_set % len(NAME_SETS)]
    types = [{"name": names[perm[i]], "kind": "struct", "derives": list(SD2), "file": i % 2} for i in range(n)]
    edges = [[a, b, c] for (a, b), c in zip(edge_list, ctxs)]
    src = sources(n, edge_list)
    cmds, helpers = [], []
    for k, i in enumerate(src):
        where, how, ctx = ROOT_KINDS[(kind_idx + (k if rotate else 0)) % len(ROOT_KINDS)]
        fn = {"name": "%s_%s" % ({"event": "announce", "channel": "stream", "ret": "fetch"}[how], G.snake(types[i]["name"])),
              "file": (i + 1) % 2, "roots": [[how, i, ctx]]}
        (cmds if where == "cmd" else helpers).append(fn)
    nonsrc = [i for i in range(n) if i not in src]
    extra = None
    if mix == 1 and nonsrc:
        extra = nonsrc[-1]
    elif mix == 2 and nonsrc:
        extra = nonsrc[0]
    if extra is not None:
        cmds.append({"name": "inspect_it", "file": 0, "roots": [["param", extra, ["direct", "option", "vec"][extra % 3]]]})
    if with_other or not cmds:
        types.append({"name": "Meta", "kind": "struct", "derives": list(SD2), "file": 0})
        cmds.append({"name": "other_cmd", "file": 1, "roots": [["param", n, "direct"]]})
    alias = any(c in ("result_alias", "vec_result_alias") for c in ctxs)
    return {"types": types, "edges": edges, "cmds": cmds, "helpers": helpers, "nfiles": 2, "alias": alias,
            "shape": "root-kinds", "acyclic": True, "clean": True, "naming": "perm-" + "".join(map(str, perm)),
            "root_kind": "/".join(ROOT_KINDS[kind_idx % len(ROOT_KINDS)]) + ("+rot" if rotate else ""), "mix": mix}


def root_kind_specs(tier, rng):
    """every root kind x every non-empty DAG shape on 2..3 types x name permutations x the three mixes; the constructor
    context of each edge walks through FIELD_CTX (quick) / is drawn 4 times (thorough); thorough adds 4-type shapes"""
    specs, seen = [], set()
    walk = 0
    for n in (2, 3):
        perms = list(itertools.permutations(range(n)))
        if tier == "quick" and n == 3:
            perms = [(0, 1, 2), (2, 1, 0), (1, 2, 0)]
        for edge_list in G.dag_shapes(n):
            if not edge_list:
                continue
            for perm in perms:
                for kind_idx in range(len(ROOT_KINDS)):
                    for mix in (0, 1, 2):
                        for draw in range(1 if tier == "quick" else 4):
                            if tier == "quick":
                                ctxs = [FIELD_CTX[(walk + k) % len(FIELD_CTX)] for k in range(len(edge_list))]
                            else:
                                ctxs = [rng.choice(FIELD_CTX) for _ in edge_list]
                            walk += 1
                            sp = root_spec(n, edge_list, ctxs, perm, kind_idx, mix, rotate=walk % 4 == 3,
                                           name_set=(walk // 7) % 2, with_other=(walk % 3 != 1))
                            key = json.dumps(sp, sort_keys=True)
                            if key not in seen:
                                seen.add(key)
                                specs.append(sp)
    if tier != "quick":
        for edge_list in G.dag_shapes(4):
            if not edge_list:
                continue
            for perm in rng.sample(list(itertools.permutations(range(4))), 4):
                for kind_idx in rng.sample(range(len(ROOT_KINDS)), 4):
                    ctxs = [rng.choice(FIELD_CTX) for _ in edge_list]
                    specs.append(root_spec(4, edge_list, ctxs, perm, kind_idx, rng.randrange(3), rotate=rng.random() < 0.3,
                                           name_set=rng.randrange(2), with_other=rng.random() < 0.6))
    return specs


def demote_roots(rng, spec):
    """random DAG project -> the same graph with its command-parameter roots turned into event / channel roots and
    return-only commands (no extra all-types command): parts of the graph are then reachable through events only"""
    s = json.loads(json.dumps(spec))
    ntypes = len(s["types"])
    new_cmds = []
    for c in s["cmds"]:
        keep = []
        for r in c["roots"]:
            if r[0] != "param" or r[1] >= ntypes:
                keep.append(r)
                continue
            t = s["types"][r[1]]
            choice = rng.randrange(4)
            if choice == 0 and t["kind"] == "struct" and not t.get("inline"):
                keep.append(["event", r[1], rng.choice(["literal", "let_literal", "new"])])
            elif choice == 1:
                keep.append(["channel", r[1], rng.choice(["direct", "vec", "option"])])
            elif choice == 2 and not any(x[0] in ("ret", "err") for x in c["roots"]) and not any(x[0] == "ret" for x in keep):
                keep.append(["ret", r[1], rng.choice(["direct", "result_ok", "vec"])])
            else:
                keep.append(r)
        c["roots"] = keep
        new_cmds.append(c)
    s["cmds"] = new_cmds
    s["alias"] = s["alias"] or any(r[2] == "result_alias" for c in s["cmds"] for r in c["roots"])
    s["demoted"] = True
    return s


def root_census(specs):
    """how many projects have an edge between two types of which at least the dependent is not reachable from a command
    parameter (ground truth from the spec, for the evidence)"""
    out = {"edge_among_non_param_reachable": 0, "edge_crossing_into_param_reachable": 0}
    for s in specs:
        adj = {}
        for a, b, _ in s["edges"]:
            adj.setdefault(a, []).append(b)
        reach, todo = set(), [r[1] for c in s["cmds"] for r in c["roots"] if r[0] == "param"]
        while todo:
            x = todo.pop()
            if x not in reach:
                reach.add(x)
                todo += adj.get(x, [])
        if any(a not in reach and b not in reach for a, b, _ in s["edges"]):
            out["edge_among_non_param_reachable"] += 1
        if any(a not in reach and b in reach for a, b, _ in s["edges"]):
            out["edge_crossing_into_param_reachable"] += 1
    return out
