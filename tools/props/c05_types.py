"""Rust type expressions for C05 / C18: tree form, printer, reader, enumerations.
Tree form (JSON-able): ["p", name, [args]] | ["r", t] | ["t", [elems]]."""

LEAVES = ["String", "&str", "i32", "u64", "f64", "bool", "()", "User", "Status"]
NUMERIC = ["i8", "i16", "i32", "i64", "i128", "isize", "u8", "u16", "u32", "u64", "u128", "usize", "f32", "f64"]
KEY_LEAVES = ["String", "i32", "Status"]          # what serde_json accepts as map keys
FILL = ["String", "i32", "bool", "User"]          # fillers of the positions that are not on the spine

# (constructor id, arity); the position on the spine ranges over 0..arity-1
CONSTRUCTORS = [("Option", 1), ("Vec", 1), ("HashSet", 1), ("BTreeSet", 1), ("HashMap", 2), ("BTreeMap", 2),
                ("tuple", 2), ("tuple", 3), ("tuple", 4), ("Result", 2), ("Result", 1), ("&", 1)]


def P(name, *args):
    return ["p", name, list(args)]


def leaf(s):
    if s == "()":
        return ["t", []]
    if s.startswith("&"):
        return ["r", leaf(s[1:])]
    if "<" in s:
        return parse(s)
    return ["p", s, []]


def tts(t):
    """what the tool's type_to_string prints (also valid Rust source for the type)"""
    k = t[0]
    if k == "p":
        return t[1] if not t[2] else "%s<%s>" % (t[1], ", ".join(tts(a) for a in t[2]))
    if k == "r":
        return "&" + tts(t[1])
    return "(" + ", ".join(tts(a) for a in t[1]) + ")"


def src(t):
    """Rust SOURCE text of the type: as tts, except that a 1-tuple needs its trailing comma - (T,) - because
    (T) is a parenthesised type; type_to_string prints the 1-tuple as (T)"""
    k = t[0]
    if k == "p":
        return t[1] if not t[2] else "%s<%s>" % (t[1], ", ".join(src(a) for a in t[2]))
    if k == "r":
        return "&" + src(t[1])
    if len(t[1]) == 1:
        return "(" + src(t[1][0]) + ",)"
    return "(" + ", ".join(src(a) for a in t[1]) + ")"


def sx_ty(t):
    k = t[0]
    if k == "p":
        return ["p", t[1], [sx_ty(a) for a in t[2]]]
    if k == "r":
        return ["r", sx_ty(t[1])]
    return ["t", [sx_ty(a) for a in t[1]]]


def depth(t):
    k = t[0]
    if k == "p":
        return 1 + max([depth(a) for a in t[2]], default=-1) if t[2] else 0
    if k == "r":
        return depth(t[1]) if t[1][0] == "p" and not t[1][2] else 1 + depth(t[1])
    return 1 + max(depth(a) for a in t[1]) if t[1] else 0


def constructors(t, acc=None):
    acc = acc if acc is not None else []
    k = t[0]
    if k == "p":
        if t[2]:
            acc.append(t[1])
        for a in t[2]:
            constructors(a, acc)
    elif k == "r":
        acc.append("&")
        constructors(t[1], acc)
    else:
        if t[1]:
            acc.append("tuple%d" % len(t[1]))
        for a in t[1]:
            constructors(a, acc)
    return acc


def key_ok(t):
    return (t[0] == "p" and not t[2]) or (t[0] == "r" and t[1][0] == "p" and not t[1][2])


def build(cons, arity, pos, inner, fill=FILL):
    """constructor with `inner` at position pos, fillers elsewhere; None when outside the domain"""
    args = []
    for j in range(arity):
        if j == pos:
            args.append(inner)
        elif cons in ("HashMap", "BTreeMap") and j == 0:
            args.append(leaf("String"))
        else:
            args.append(leaf(fill[j % len(fill)]))
    if cons in ("HashMap", "BTreeMap") and not key_ok(args[0]):
        return None
    if cons == "tuple":
        return ["t", args]
    if cons == "&":
        return ["r", args[0]]
    return ["p", cons, args]


# tuple arities beyond the 2..4 of the main enumeration: 1 (printed (T), serde writes [t]) and 5, 6
EXTRA_TUPLES = [("tuple", 1), ("tuple", 5), ("tuple", 6)]


def tuple_arity_types(leaves=LEAVES):
    """1-, 5- and 6-tuples at every argument position of every constructor and around every type of depth <= 1"""
    level0 = [leaf(s) for s in leaves]
    level1 = [t for t in spines(1, leaves) if depth(t) >= 1]
    out = []
    new1 = []
    for cons, ar in EXTRA_TUPLES:
        for pos in range(ar):
            for u in level0:
                new1.append(build(cons, ar, pos, u))
            if ar == 1 or pos in (0, ar - 1):        # around depth-1 types: every 1-tuple, first and last position of 5/6
                for u in level1:
                    out.append(build(cons, ar, pos, u))
    out += new1
    for cons, ar in CONSTRUCTORS + EXTRA_TUPLES:
        for pos in range(ar):
            for u in [x for x in new1 if tts(x).count("User") + tts(x).count("f64") >= 1 and "Status" not in tts(x)][::2]:
                t = build(cons, ar, pos, u)
                if t is not None:
                    out.append(t)
    return out


def spines(maxdepth, leaves=LEAVES):
    """all constructor spines up to maxdepth: level d = every constructor at every argument
    position around every type of level d-1"""
    level = [leaf(s) for s in leaves]
    out = list(level)
    for _ in range(maxdepth):
        nxt = []
        for cons, ar in CONSTRUCTORS:
            for pos in range(ar):
                for u in level:
                    t = build(cons, ar, pos, u)
                    if t is not None:
                        nxt.append(t)
        out += nxt
        level = nxt
    return out


def numeric_sweep():
    out = []
    for cons, ar in CONSTRUCTORS:
        for pos in range(ar):
            for w in NUMERIC:
                t = build(cons, ar, pos, leaf(w))
                if t is not None:
                    out.append(t)
    return out + [leaf(w) for w in NUMERIC]


def random_type(rng, d, leaves=LEAVES, key=False):
    if key:
        return leaf(rng.choice(KEY_LEAVES))
    if d == 0 or rng.random() < 0.18:
        s = rng.choice(leaves + NUMERIC[:4]) if rng.random() < 0.9 else rng.choice(NUMERIC)
        return leaf(s)
    cons, ar = rng.choice(CONSTRUCTORS + EXTRA_TUPLES)
    args = []
    for j in range(ar):
        if cons in ("HashMap", "BTreeMap") and j == 0:
            args.append(random_type(rng, 0, leaves, key=True))
        else:
            args.append(random_type(rng, d - 1, leaves))
    if cons == "tuple":
        return ["t", args]
    if cons == "&":
        return ["r", args[0]]
    return ["p", cons, args]


def parse(text):
    """reader for the printed form (used for witnesses written as strings)"""
    pos = 0
    s = text

    def ws():
        nonlocal pos
        while pos < len(s) and s[pos] == " ":
            pos += 1

    def ty():
        nonlocal pos
        ws()
        if s[pos] == "&":
            pos += 1
            return ["r", ty()]
        if s[pos] == "(":
            pos += 1
            elems = []
            ws()
            while s[pos] != ")":
                elems.append(ty())
                ws()
                if s[pos] == ",":
                    pos += 1
                    ws()
            pos += 1
            return ["t", elems]
        st = pos
        while pos < len(s) and (s[pos].isalnum() or s[pos] == "_"):
            pos += 1
        name = s[st:pos]
        if not name:
            raise ValueError("type expected at %d in %r" % (pos, text))
        args = []
        if pos < len(s) and s[pos] == "<":
            pos += 1
            while True:
                args.append(ty())
                ws()
                if s[pos] == ",":
                    pos += 1
                    continue
                if s[pos] == ">":
                    pos += 1
                    break
                raise ValueError("bad generic list in %r" % text)
        return ["p", name, args]

    t = ty()
    ws()
    if pos != len(s):
        raise ValueError("trailing text in %r" % text)
    return t


UNARY = [("Option", 1), ("Vec", 1), ("HashSet", 1), ("BTreeSet", 1), ("Result", 1), ("&", 1)]


def random_clean_type(rng, d, leaves=LEAVES, nocomma=False):
    """random type outside the two parser classes: tuple elements and the Ok argument of a
    two-argument Result never print a comma (keeps most of a stream where the theorem speaks)"""
    if d == 0 or rng.random() < 0.15:
        return leaf(rng.choice(leaves))
    cons, ar = rng.choice(UNARY if nocomma else CONSTRUCTORS)
    args = []
    for j in range(ar):
        if cons in ("HashMap", "BTreeMap") and j == 0:
            args.append(leaf(rng.choice(KEY_LEAVES)))
        elif cons == "tuple" or (cons == "Result" and ar == 2 and j == 0):
            args.append(random_clean_type(rng, d - 1, leaves, nocomma=True))
        else:
            args.append(random_clean_type(rng, d - 1, leaves, nocomma=nocomma))
    if cons == "tuple":
        return ["t", args]
    if cons == "&":
        return ["r", args[0]]
    return ["p", cons, args]
