"""C18, project level: the mapping table reaches the output through the real CLI binary.
Axes: the ROUTE by which a mapped name reaches the output (only as parameter, return, error position of a Result, field,
nested generic of a field, channel message, event payload bound by let, event payload of a non-command helper),
the EDIT of the table between two runs into the same directory without --force (retarget, add, remove, rename key,
none -> some, unchanged), the configuration SOURCE (standalone -c file, plugins.typegen of tauri.conf.json found from the
working directory) and the mode. Oracle: (1) the files after [generate(A); generate(B)] equal a fresh forced generation
under B; (2) the type text of the route's site in those files, together with the text of a fresh generation without any
table, satisfies the unit-level oracle of C18 (relational + absolute clause, Spec/C18Known.c18_full_ok) for table B."""
import json
import os
import re

from tools import vlib
from tools.vlib import Outcome, sx
from tools.props import c05_types as T

UTC = ["p", "Utc", []]
NAMES = {                                   # key text -> (tree, usable as event payload: plain identifiers only)
    "Uuid": (["p", "Uuid", []], True),
    "PathBuf": (["p", "PathBuf", []], True),
    "DateTime<Utc>": (["p", "DateTime", [UTC]], False),
    "Either<String, i64>": (["p", "Either", [["p", "String", []], ["p", "i64", []]]], False),
    "GenericArray<u8, U32>": (["p", "GenericArray", [["p", "u8", []], ["p", "U32", []]]], False),
    "Wrapper<Vec<u8>>": (["p", "Wrapper", [["p", "Vec", [["p", "u8", []]]]]], False),
    "chrono::DateTime<Utc>": (["p", "chrono::DateTime", [UTC]], False),
}
ROUTES = ["param", "return", "return_err", "field", "field_nested", "channel", "event_let", "event_helper", "param_ref"]
EDITS = ["retarget", "add", "remove", "rename_key", "none_to_some", "unchanged", "respace_key"]
SOURCES = ["file", "tauri"]
MODES = ["none", "zod"]
HEADER = "use serde::{Deserialize, Serialize};\nuse tauri::ipc::Channel;\nuse tauri::Emitter;\n\n"


def route_project(route, n):
    """(source text, site of the unit-level model, type tree at that site, event name or None)"""
    N = T.tts(n)
    if route == "param":
        return HEADER + "#[tauri::command]\npub fn c0(p0: %s) -> String { todo!() }\n" % N, "param", n, None
    if route == "param_ref":
        return HEADER + "#[tauri::command]\npub fn c0(p0: &%s) -> String { todo!() }\n" % N, "param", ["r", n], None
    if route == "return":
        return HEADER + "#[tauri::command]\npub fn c0() -> %s { todo!() }\n" % N, "return", n, None
    if route == "return_err":
        t = ["p", "Result", [["p", "String", []], n]]
        return HEADER + "#[tauri::command]\npub fn c0() -> %s { todo!() }\n" % T.tts(t), "return", t, None
    if route == "field":
        return (HEADER + "#[derive(Serialize, Deserialize)]\npub struct Holder { pub f0: %s }\n\n#[tauri::command]\npub fn c0(p0: Holder) -> String { todo!() }\n" % N,
                "field", n, None)
    if route == "field_nested":
        t = ["p", "HashMap", [["p", "String", []], ["p", "Vec", [["t", [n, ["p", "i32", []]]]]]]]
        return (HEADER + "#[derive(Serialize, Deserialize)]\npub struct Holder { pub f0: %s }\n\n#[tauri::command]\npub fn c0(p0: Holder) -> String { todo!() }\n" % T.tts(t),
                "field", t, None)
    if route == "channel":
        return HEADER + "#[tauri::command]\npub fn c0(ch0: Channel<%s>) -> String { todo!() }\n" % N, "channel", n, None
    if route == "event_let":
        return (HEADER + "#[tauri::command]\npub fn job(app: tauri::AppHandle) {\n    let id: %s = todo!();\n    app.emit(\"job-started\", id).unwrap();\n}\n" % N,
                "event", n, "job-started")
    if route == "event_helper":
        return (HEADER + "#[tauri::command]\npub fn ping() -> String { todo!() }\n\npub fn notify(app: &tauri::AppHandle, payload0: %s) {\n    app.emit(\"note\", payload0).unwrap();\n}\n" % N,
                "event", n, "note")
    raise ValueError(route)


def tables(edit, key):
    other = "Unrelated"
    if edit == "retarget":
        return {key: "string"}, {key: "number"}
    if edit == "add":
        return {other: "string"}, {other: "string", key: "number"}
    if edit == "remove":
        return {key: "boolean", other: "string"}, {other: "string"}
    if edit == "rename_key":
        return {key: "string"}, {"Renamed" + re.sub(r"\W", "", key): "string"}
    if edit == "none_to_some":
        return None, {key: "boolean"}
    if edit == "unchanged":
        return {key: "number"}, {key: "number"}
    if edit == "respace_key":          # the same key written without blanks is a different string: exact-name lookup
        return {key: "string"}, {key.replace(" ", ""): "number"}
    raise ValueError(edit)


def site_text(files, site, mode, event):
    """type text of the site in the generated files (None when the line is not there)"""
    ty, cm, ev = files.get("types.ts", ""), files.get("commands.ts", ""), files.get("events.ts", "")
    if site == "param":
        m = re.search(r"\n  p0\??: (.*);\n", ty) if mode == "none" else re.search(r"\n  p0: (.*),\n", ty)
    elif site == "field":
        m = re.search(r"\n  f0\??: (.*);\n", ty) if mode == "none" else re.search(r"\n  f0: (.*),\n", ty)
    elif site == "channel":
        m = re.search(r"\n  ch0: Channel<(.*)>;\n", ty)
    elif site == "return":
        m = re.search(r"function c0\(.*\): Promise<(.*)> \{\n", cm)
    else:
        m = re.search(r"listen<(.*)>\('%s'" % re.escape(event), ev)
    return m.group(1) if m else None


def ts_files(sb, rel):
    return {k: v.decode("utf-8", "replace") for k, v in sb.snapshot(rel).items() if v is not None and k.endswith(".ts")}


SHAPES = {
    # label -> list of (table label, force kind); the LAST step's table is the one that must show
    "AB": [("A", None), ("B", None)],
    "A,Bf,A": [("A", None), ("B", "flag"), ("A", None)],          # return to an earlier table after a forced run
    "A,Bc,A": [("A", None), ("B", "config"), ("A", None)],        # forced through "force": true of the configuration
    "N,Bf,N": [("N", None), ("B", "flag"), ("N", None)],          # no table / forced table / no table again
    "A,B,Af,B": [("A", None), ("B", None), ("A", "flag"), ("B", None)],
    "Af,B,A": [("A", "flag"), ("B", None), ("A", None)],
    "A,Bf,Bc,A": [("A", None), ("B", "flag"), ("B", "config"), ("A", None)],
}


def run_history(case):
    """the history of the case with the real binary, then a fresh forced generation under the final table and one
    without table; returns the observation dict"""
    n, _ = NAMES[case["name"]]
    src, site, tree, event = route_project(case["route"], n)
    A, B = tables(case["edit"], case["name"])
    tabs = {"A": A, "B": B, "N": None}
    shape = SHAPES[case.get("shape", "AB")]
    mode, source = case["mode"], case["source"]
    obs = {"steps": []}
    with vlib.Sandbox("c18h") as sb:
        sb.write("proj/src-tauri/src/lib.rs", src)

        def gen(table, out, force):
            if source == "tauri":
                tg = {"projectPath": "./src-tauri", "outputPath": "./" + out, "validationLibrary": mode}
                if table is not None:
                    tg["typeMappings"] = table
                if force == "config":
                    tg["force"] = True
                sb.write("proj/tauri.conf.json", json.dumps({"productName": "x", "plugins": {"typegen": tg}}, indent=1))
                args, cwd = ["generate"], sb.path("proj")
            else:
                cfg = {"project_path": sb.path("proj/src-tauri"), "output_path": sb.path("proj", out), "validation_library": mode}
                if table is not None:
                    cfg["type_mappings"] = table
                if force == "config":
                    cfg["force"] = True
                sb.write("cfg.json", json.dumps(cfg))
                args, cwd = ["generate", "-c", sb.path("cfg.json")], sb.root
            if force == "flag":
                args.append("--force")
            rc, log = sb.cli(args, cwd=cwd)
            obs["steps"].append({"out": out, "table": table, "force": force, "exit": rc,
                                 "decision": "up to date" if "up to date" in log else ("generated" if rc == 0 else log[-300:])})
            return ts_files(sb, os.path.join("proj", out))

        after = {}
        for label, force in shape:
            after = gen(tabs[label], "gen", force)
        final = tabs[shape[-1][0]]
        fresh = gen(final, "fresh", "flag")
        plain = gen(None, "plain", "flag")
    obs["stale_files"] = sorted(k for k in set(after) | set(fresh) if after.get(k) != fresh.get(k))
    obs["site"] = site
    obs["with_table"] = site_text(after, site, mode, event)
    obs["fresh_with_table"] = site_text(fresh, site, mode, event)
    obs["without_table"] = site_text(plain, site, mode, event)
    return obs, tree, (final or {})


SITES = ["param", "return", "field", "channel", "event"]


def evaluate(cases):
    results = vlib.pmap(run_history, cases)
    sexps = []
    for c, (obs, tree, B) in zip(cases, results):
        def ten(text):
            return [text or "" for _ in range(10)]
        sexps.append(sx([T.sx_ty(tree), [[k, v] for k, v in sorted(B.items())], ten(obs["with_table"]), ten(obs["without_table"])]))
    res = vlib.run_runner("c18-emit", sexps)
    outs = []
    for c, (obs, tree, B), r in zip(cases, results, res):
        idx = ["none", "zod"].index(c["mode"]) * 5 + SITES.index(obs["site"])
        model_text, ok, abs_ok, _classes = r[3][idx]
        obs["model_with_table"] = model_text
        obs["oracle_on_final_text"] = ok
        failed = any(s["exit"] != 0 for s in obs["steps"])
        okb = (not failed) and not obs["stale_files"] and obs["with_table"] is not None and ok == "true"
        # the model prints what a fresh generation under the final table prints (out-of-domain names: no model claim)
        corr = (not failed) and (r[1] != "true" or obs["fresh_with_table"] == model_text)
        outs.append(Outcome(dict(c, what="history"), corr, okb, detail=obs))
    return outs


def cases_for(tier, rng):
    out = []
    plain = [k for k, v in NAMES.items() if v[1]]
    allk = list(NAMES)
    i = 0
    # every route x every edit (names, sources, modes rotate; quick: two variants each)
    for route in ROUTES:
        pool = plain if route.startswith("event") else allk
        for edit in EDITS:
            variants = [(s, m, k) for s in SOURCES for m in MODES for k in pool] if tier == "thorough" else \
                [(SOURCES[(i + j) % 2], MODES[((i + j) // 2) % 2], pool[(i + 3 * j) % len(pool)]) for j in range(4)]
            i += 1
            for s, m, k in variants:
                out.append({"route": route, "edit": edit, "source": s, "mode": m, "name": k})
    # every name x every configuration source x every mode at the four direct sites
    if tier != "thorough":
        for k in allk:
            for s in SOURCES:
                for m in MODES:
                    for route in ("param", "return", "field", "channel"):
                        c = {"route": route, "edit": "retarget", "source": s, "mode": m, "name": k}
                        if c not in out:
                            out.append(c)
    # histories of 3-4 runs mixing forced (flag / configuration) and unforced runs and returning to an earlier table
    j = 0
    for shape in [k for k in SHAPES if k != "AB"]:
        for route in ROUTES:
            pool = plain if route.startswith("event") else allk
            variants = [(s, m, k) for s in SOURCES for m in MODES for k in pool[:3]] if tier == "thorough" else \
                [(SOURCES[(j + q) % 2], MODES[((j + q) // 2) % 2], pool[(j + q) % len(pool)]) for q in range(2)]
            j += 1
            for s, m, k in variants:
                out.append({"route": route, "edit": "retarget", "source": s, "mode": m, "name": k, "shape": shape})
    return out


# ---------------------------------------------------------------------------------------------------------------
# "nothing else changes", judged on whole projects: several events in a particular order (file order, then source
# order), exactly one of them with a directly mapped payload (first / middle / last), the others with payload structs
# that are reachable only through events (with nested field types), plus a command with its own struct. The files
# generated with the table must be the files generated without it in which the mapped name is replaced by its target.

def frame_project(nev, pos, split_files):
    """sources {file: text}; event k has payload struct Ev<k> { items: Vec<Leaf<k>> } except event `pos`: payload Uuid"""
    items, evs = [], []
    for k in range(nev):
        if k == pos:
            evs.append("    let id%d: Uuid = todo!();\n    app.emit(\"ev-%d\", id%d).unwrap();\n" % (k, k, k))
        else:
            items.append("#[derive(Serialize, Deserialize)]\npub struct Leaf%d { pub v: i32 }\n\n#[derive(Serialize, Deserialize)]\npub struct Ev%d { pub items: Vec<Leaf%d>, pub tag: Option<String> }\n\n" % (k, k, k))
            evs.append("    let p%d: Ev%d = todo!();\n    app.emit(\"ev-%d\", p%d).unwrap();\n" % (k, k, k, k))
    cmd = "#[derive(Serialize, Deserialize)]\npub struct Arg { pub n: u8 }\n\n#[tauri::command]\npub fn c0(p0: Arg) -> String { todo!() }\n\n"
    if not split_files:
        body = "#[tauri::command]\npub fn fire(app: tauri::AppHandle) {\n" + "".join(evs) + "}\n"
        return {"lib.rs": HEADER + "".join(items) + cmd + body}
    files = {"lib.rs": HEADER + "".join(items) + cmd}
    for k, e in enumerate(evs):        # one emitting command per file a0.rs, a1.rs, ... (file order = event order)
        files["a%d.rs" % k] = HEADER + "use crate::*;\n\n#[tauri::command]\npub fn fire%d(app: tauri::AppHandle) {\n%s}\n" % (k, e)
    return files


def run_frame(case):
    target = case["target"]
    obs = {}
    with vlib.Sandbox("c18f") as sb:
        for f, text in frame_project(case["events"], case["pos"], case["split_files"]).items():
            sb.write("proj/src-tauri/src/" + f, text)

        def gen(table, out):
            if case["source"] == "tauri":
                tg = {"projectPath": "./src-tauri", "outputPath": "./" + out, "validationLibrary": case["mode"]}
                if table is not None:
                    tg["typeMappings"] = table
                sb.write("proj/tauri.conf.json", json.dumps({"productName": "x", "plugins": {"typegen": tg}}))
                rc, log = sb.cli(["generate", "--force"], cwd=sb.path("proj"))
            else:
                cfg = {"project_path": sb.path("proj/src-tauri"), "output_path": sb.path("proj", out), "validation_library": case["mode"]}
                if table is not None:
                    cfg["type_mappings"] = table
                sb.write("cfg.json", json.dumps(cfg))
                rc, log = sb.cli(["generate", "-c", sb.path("cfg.json"), "--force"])
            return rc, ts_files(sb, os.path.join("proj", out))

        rc1, with_t = gen({"Uuid": target, "Unrelated": "number"}, "with")
        rc0, without = gen(None, "without")
    obs["exit"] = [rc1, rc0]
    diffs = {}
    for f in sorted(set(with_t) | set(without)):
        exp = without.get(f)
        if exp is not None:
            exp = re.sub(r"\btypes\.Uuid\b|\bUuid\b", target, exp)
        if with_t.get(f) != exp:
            a, b = (with_t.get(f) or "").splitlines(), (exp or "").splitlines()
            diffs[f] = {"only_with_table": [x for x in a if x not in b][:6], "only_expected": [x for x in b if x not in a][:6]}
    obs["files_that_differ_beyond_the_mapped_name"] = diffs
    obs["declared_with_table"] = sorted(set(re.findall(r"export (?:interface|type|const) (\w+)", with_t.get("types.ts", ""))))
    obs["declared_without_table"] = sorted(set(re.findall(r"export (?:interface|type|const) (\w+)", without.get("types.ts", ""))))
    return obs


def frame_cases(tier):
    out = []
    i = 0
    for nev in (2, 3, 4):
        for pos in range(nev):
            for split in (False, True):
                combos = [(s, m) for s in SOURCES for m in MODES] if tier == "thorough" else [(SOURCES[i % 2], MODES[(i // 2) % 2]), (SOURCES[(i + 1) % 2], MODES[((i + 2) // 2) % 2])]
                i += 1
                for s, m in combos:
                    out.append({"events": nev, "pos": pos, "split_files": split, "source": s, "mode": m,
                                "target": ["string", "number", "boolean"][(nev + pos) % 3]})
    return out


def evaluate_frame(cases):
    outs = []
    for c, obs in zip(cases, vlib.pmap(run_frame, cases)):
        ok = obs["exit"] == [0, 0] and not obs["files_that_differ_beyond_the_mapped_name"]
        outs.append(Outcome(dict(c, what="project-frame"), True, ok, detail=obs))
    return outs


# ---------------------------------------------------------------------------------------------------------------
# one forced generation with a table, variants of the PROJECT or of the CONFIGURATION FILE around it:
#  * siblings: oddly typed sibling settings of plugins.typegen next to a valid typeMappings table - the run must be
#    rejected or the mapping must apply, never silently dropped;
#  * decl: the project itself declares the mapped name (type alias / struct / enum; in the same file, in a file that
#    sorts earlier or later than the use site) - the mapping must win at every site, and N must not be declared.
NAMES["Timestamp"] = (["p", "Timestamp", []], True)
DECLS = {"alias": "pub type Timestamp = i64;\n",
         "struct": "#[derive(Serialize, Deserialize)]\npub struct Timestamp { pub secs: i64 }\n",
         "enum": "#[derive(Serialize, Deserialize)]\npub enum Timestamp { Early, Late }\n"}
SIBLING_KEYS = ["excludePatterns", "includePatterns", "verbose", "visualizeDeps", "includePrivate", "force",
                "defaultParameterCase", "defaultFieldCase", "someFutureSetting"]
WRONG_VALUES = ["tests/**", 5, True, None, {"a": 1}, [1, 2], [["x"]]]


def run_variant(case):
    n, _ = NAMES[case["name"]]
    src, site, tree, event = route_project(case["route"], n)
    files = {"lib.rs": src}
    if case.get("decl"):
        kind, where = case["decl"]
        if where == "same":
            files["lib.rs"] = src.replace(HEADER, HEADER + DECLS[kind], 1)
        else:
            files[("a_decl.rs" if where == "earlier" else "z_decl.rs")] = HEADER + DECLS[kind]
    mode = case["mode"]
    obs = {}
    with vlib.Sandbox("c18v") as sb:
        for f, text in files.items():
            sb.write("proj/src-tauri/src/" + f, text)

        def gen(table, out):
            if case["source"] == "tauri":
                tg = {"projectPath": "./src-tauri", "outputPath": "./" + out, "validationLibrary": mode}
                if table is not None:
                    tg["typeMappings"] = table
                if case.get("sibling"):
                    tg[case["sibling"][0]] = case["sibling"][1]
                sb.write("proj/tauri.conf.json", json.dumps({"productName": "x", "plugins": {"typegen": tg}}))
                rc, log = sb.cli(["generate", "--force"], cwd=sb.path("proj"))
            else:
                cfg = {"project_path": sb.path("proj/src-tauri"), "output_path": sb.path("proj", out), "validation_library": mode}
                if table is not None:
                    cfg["type_mappings"] = table
                sb.write("cfg.json", json.dumps(cfg))
                rc, log = sb.cli(["generate", "-c", sb.path("cfg.json"), "--force"])
            return rc, log, ts_files(sb, os.path.join("proj", out))

        rc, log, with_t = gen(case["table"], "with")
        _, _, plain = gen(None, "plain")
    obs["exit"] = rc
    obs["log_tail"] = log[-200:] if rc else ""
    obs["site"] = site
    obs["with_table"] = site_text(with_t, site, mode, event)
    obs["without_table"] = site_text(plain, site, mode, event)
    obs["declared_with_table"] = sorted(set(re.findall(r"export (?:interface|type|const) (\w+)", with_t.get("types.ts", ""))))
    return obs, tree


def decl_model_input(c, tree):
    """the project of a declared-name case as the declaration model sees it: all_structs (serde structs and enums with the
    Rust types of their fields; a type alias is not entered) and the Rust types at the command / event sites"""
    STR, I64 = ["p", "String", []], ["p", "i64", []]
    structs = []
    kind = c["decl"][0]
    if kind == "struct":
        structs.append(["Timestamp", [I64]])
    elif kind == "enum":
        structs.append(["Timestamp", []])
    route = c["route"]
    if route in ("field", "field_nested"):
        structs.append(["Holder", [tree]])
        sites = [["p", "Holder", []], STR]
    elif route in ("return", "return_err", "event_let"):
        sites = [tree]
    else:
        sites = [tree, STR]
    return structs, sites


def evaluate_variants(cases, stream):
    results = vlib.pmap(run_variant, cases)
    sexps = []
    for c, (obs, tree) in zip(cases, results):
        sexps.append(sx([T.sx_ty(tree), [[k, v] for k, v in sorted(c["table"].items())],
                         [obs["with_table"] or "" for _ in range(10)], [obs["without_table"] or "" for _ in range(10)]]))
    res = vlib.run_runner("c18-emit", sexps)
    # declaration model (Model/C18Decl.v): which project types types.ts exports under the table, the clause on the
    # implementation's declarations, the class C18-4 - for the cases whose project declares the mapped name
    dcases = [(i, c, tree) for i, (c, (obs, tree)) in enumerate(zip(cases, results)) if c.get("decl") and obs["exit"] == 0]
    dsx = []
    for i, c, tree in dcases:
        structs, sites_rty = decl_model_input(c, tree)
        cand = set()
        for nm in ["Timestamp", "Holder"]:
            cand |= {nm, nm + "Schema"}
        results[i][0]["declared_project_types"] = sorted(x for x in results[i][0]["declared_with_table"] if x in cand)
        dsx.append(sx(["true" if c["mode"] == "zod" else "false", [[k, v] for k, v in sorted(c["table"].items())],
                       [[nm, [T.sx_ty(f) for f in fs]] for nm, fs in structs], [T.sx_ty(t) for t in sites_rty],
                       results[i][0]["declared_with_table"]]))
    dres = dict(zip([i for i, _, _ in dcases], vlib.run_runner("c18-declared", dsx))) if dsx else {}
    outs = []
    for ci, (c, (obs, tree), r) in enumerate(zip(cases, results, res)):
        idx = ["none", "zod"].index(c["mode"]) * 5 + SITES.index(obs["site"])
        model_text, ok, _abs, _cl = r[3][idx]
        obs["model_with_table"] = model_text
        if obs["exit"] != 0:
            # a rejected configuration is acceptable for an oddly typed sibling setting, and only there
            okb = bool(c.get("sibling"))
            outs.append(Outcome(dict(c, what=stream), okb, okb, detail=obs))
            continue
        site_ok = ok == "true"
        name = c["name"]
        declared = name in obs["declared_with_table"] or (name + "Schema") in obs["declared_with_table"]
        kf = None
        corr = obs["with_table"] == model_text
        if c.get("decl"):
            # HEAD: the mapping wins at every site; a mapped project struct / enum is nevertheless still declared (C18-4).
            # correspondence: the set of project types the implementation exports = the declaration model's set
            model_names, clause_ok, in_class = dres[ci]
            obs["model_declared_project_types"] = sorted(model_names)
            obs["decl_clause_on_observed"] = clause_ok
            corr = corr and obs["declared_project_types"] == sorted(model_names)
            corr = corr and declared == (c["decl"][0] in ("struct", "enum")) and (clause_ok == "true") == (not declared)
            if in_class == "true":
                kf = "C18-4"
        okb = site_ok and not declared
        outs.append(Outcome(dict(c, what=stream), corr, okb, kf=kf, detail=obs))
    return outs


def sibling_cases(tier):
    out = []
    i = 0
    for key in SIBLING_KEYS:
        for val in WRONG_VALUES:
            routes = ["param", "event_let", "field", "channel", "return"] if tier == "thorough" else [["param", "event_let", "field"][i % 3]]
            for route in routes:
                out.append({"route": route, "name": "Uuid", "mode": MODES[i % 2], "source": "tauri", "table": {"Uuid": TARGETS3[i % 3]},
                            "sibling": [key, val]})
            i += 1
    return out


TARGETS3 = ["number", "string", "boolean"]


def decl_cases(tier):
    out = []
    i = 0
    for kind in DECLS:
        for where in ("same", "earlier", "later"):
            for route in ("param", "return", "field", "field_nested", "channel", "event_let", "event_helper"):
                combos = [(s, m) for s in SOURCES for m in MODES] if tier == "thorough" else [(SOURCES[i % 2], MODES[(i // 2) % 2])]
                i += 1
                for s, m in combos:
                    out.append({"route": route, "name": "Timestamp", "mode": m, "source": s, "table": {"Timestamp": TARGETS3[i % 3]},
                                "decl": [kind, where]})
    return out
