"""C18, project level: the mapping table reaches the output through the real CLI binary.
Axes: the ROUTE by which a mapped name reaches the output (only as parameter, return, error position of a Result, field,
nested generic of a field, channel message, event payload bound by let, event payload of a non-command helper),
the EDIT of the table between two runs into the same directory without --force (retarget, add, remove, rename key,
none -> some, unchanged), the configuration SOURCE (standalone -c file, plugins.typegen of tauri.conf.json found from the
working directory) and the mode. Oracle: (1) the files after [generate(A); generate(B)] equal a fresh forced generation
under B; (2) the type text of the route's site in those files, together with the text of a fresh generation without any
table, satisfies the unit-level oracle of C18 (relational + absolute clause, Spec/C18Known.c18_full_ok) for table B."""
import json
import os
import re

from tools import vlib
from tools.vlib import Outcome, sx
from tools.props import c05_types as T

UTC = ["p", "Utc", []]
NAMES = {                                   # key text -> (tree, usable as event payload: plain identifiers only)
    "Uuid": (["p", "Uuid", []], True),
    "PathBuf": (["p", "PathBuf", []], True),
    "DateTime<Utc>": (["p", "DateTime", [UTC]], False),
    "Either<String, i64>": (["p", "Either", [["p", "String", []], ["p", "i64", []]]], False),
    "GenericArray<u8, U32>": (["p", "GenericArray", [["p", "u8", []], ["p", "U32", []]]], False),
    "Wrapper<Vec<u8>>": (["p", "Wrapper", [["p", "Vec", [["p", "u8", []]]]]], False),
    "chrono::DateTime<Utc>": (["p", "chrono::DateTime", [UTC]], False),
}
ROUTES = ["param", "return", "return_err", "field", "field_nested", "channel", "event_let", "event_helper", "param_ref"]
EDITS = ["retarget", "add", "remove", "rename_key", "none_to_some", "unchanged", "respace_key"]
SOURCES = ["file", "tauri"]
MODES = ["none", "zod"]
HEADER = "use serde::{Deserialize, Serialize};\nuse tauri::ipc::Channel;\nuse tauri::Emitter;\n\n"


def route_project(route, n):
    """(source text, site of the unit-level model, type tree at that site, event name or None)"""
    N = T.tts(n)
    if route == "param":
        return HEADER + "#[tauri::command]\npub fn c0(p0: %s) -> String { todo!() }\n" % N, "param", n, None
    if route == "param_ref":
        return HEADER + "#[tauri::command]\npub fn c0(p0: &%s) -> String { todo!() }\n" % N, "param", ["r", n], None
    if route == "return":
        return HEADER + "#[tauri::command]\npub fn c0() -> %s { todo!() }\n" % N, "return", n, None
    if route == "return_err":
        t = ["p", "Result", [["p", "String", []], n]]
        return HEADER + "#[tauri::command]\npub fn c0() -> %s { todo!() }\n" % T.tts(t), "return", t, None
    if route == "field":
        return (HEADER + "#[derive(Serialize, Deserialize)]\npub struct Holder { pub f0: %s }\n\n#[tauri::command]\npub fn c0(p0: Holder) -> String { todo!() }\n" % N,
                "field", n, None)
    if route == "field_nested":
        t = ["p", "HashMap", [["p", "String", []], ["p", "Vec", [["t", [n, ["p", "i32", []]]]]]]]
        return (HEADER + "#[derive(Serialize, Deserialize)]\npub struct Holder { pub f0: %s }\n\n#[tauri::command]\npub fn c0(p0: Holder) -> String { todo!() }\n" % T.tts(t),
                "field", t, None)
    if route == "channel":
        return HEADER + "#[tauri::command]\npub fn c0(ch0: Channel<%s>) -> String { todo!() }\n" % N, "channel", n, None
    if route == "event_let":
        return (HEADER + "#[tauri::command]\npub fn job(app: tauri::AppHandle) {\n    let id: %s = todo!();\n    app.emit(\"job-started\", id).unwrap();\n}\n" % N,
                "event", n, "job-started")
    if route == "event_helper":
        return (HEADER + "#[tauri::command]\npub fn ping() -> String { todo!() }\n\npub fn notify(app: &tauri::AppHandle, payload0: %s) {\n    app.emit(\"note\", payload0).unwrap();\n}\n" % N,
                "event", n, "note")
    raise ValueError(route)


def tables(edit, key):
    other = "Unrelated"
    if edit == "retarget":
        return {key: "string"}, {key: "number"}
    if edit == "add":
        return {other: "string"}, {other: "string", key: "number"}
    if edit == "remove":
        return {key: "boolean", other: "string"}, {other: "string"}
    if edit == "rename_key":
        return {key: "string"}, {"Renamed" + re.sub(r"\W", "", key): "string"}
    if edit == "none_to_some":
        return None, {key: "boolean"}
    if edit == "unchanged":
        return {key: "number"}, {key: "number"}
    if edit == "respace_key":          # the same key written without blanks is a different string: exact-name lookup
        return {key: "string"}, {key.replace(" ", ""): "number"}
    raise ValueError(edit)


def site_text(files, site, mode, event):
    """type text of the site in the generated files (None when the line is not there)"""
    ty, cm, ev = files.get("types.ts", ""), files.get("commands.ts", ""), files.get("events.ts", "")
    if site == "param":
        m = re.search(r"\n  p0\??: (.*);\n", ty) if mode == "none" else re.search(r"\n  p0: (.*),\n", ty)
    elif site == "field":
        m = re.search(r"\n  f0\??: (.*);\n", ty) if mode == "none" else re.search(r"\n  f0: (.*),\n", ty)
    elif site == "channel":
        m = re.search(r"\n  ch0: Channel<(.*)>;\n", ty)
    elif site == "return":
        m = re.search(r"function c0\(.*\): Promise<(.*)> \{\n", cm)
    else:
        m = re.search(r"listen<(.*)>\('%s'" % re.escape(event), ev)
    return m.group(1) if m else None


def ts_files(sb, rel):
    return {k: v.decode("utf-8", "replace") for k, v in sb.snapshot(rel).items() if v is not None and k.endswith(".ts")}


def run_history(case):
    """four generations with the real binary; returns the observation dict"""
    n, _ = NAMES[case["name"]]
    src, site, tree, event = route_project(case["route"], n)
    A, B = tables(case["edit"], case["name"])
    mode, source = case["mode"], case["source"]
    obs = {"steps": []}
    with vlib.Sandbox("c18h") as sb:
        sb.write("proj/src-tauri/src/lib.rs", src)

        def gen(table, out, force):
            if source == "tauri":
                tg = {"projectPath": "./src-tauri", "outputPath": "./" + out, "validationLibrary": mode}
                if table is not None:
                    tg["typeMappings"] = table
                sb.write("proj/tauri.conf.json", json.dumps({"productName": "x", "plugins": {"typegen": tg}}, indent=1))
                args, cwd = ["generate"], sb.path("proj")
            else:
                cfg = {"project_path": sb.path("proj/src-tauri"), "output_path": sb.path("proj", out), "validation_library": mode}
                if table is not None:
                    cfg["type_mappings"] = table
                sb.write("cfg.json", json.dumps(cfg))
                args, cwd = ["generate", "-c", sb.path("cfg.json")], sb.root
            if force:
                args.append("--force")
            rc, log = sb.cli(args, cwd=cwd)
            obs["steps"].append({"out": out, "table": table, "force": force, "exit": rc,
                                 "decision": "up to date" if "up to date" in log else ("generated" if rc == 0 else log[-300:])})
            return ts_files(sb, os.path.join("proj", out))

        gen(A, "gen", False)
        after = gen(B, "gen", False)
        fresh = gen(B, "fresh", True)
        plain = gen(None, "plain", True)
    obs["stale_files"] = sorted(k for k in set(after) | set(fresh) if after.get(k) != fresh.get(k))
    obs["site"] = site
    obs["with_table"] = site_text(after, site, mode, event)
    obs["fresh_with_table"] = site_text(fresh, site, mode, event)
    obs["without_table"] = site_text(plain, site, mode, event)
    return obs, tree, B


SITES = ["param", "return", "field", "channel", "event"]


def evaluate(cases):
    results = vlib.pmap(run_history, cases)
    sexps = []
    for c, (obs, tree, B) in zip(cases, results):
        def ten(text):
            return [text or "" for _ in range(10)]
        sexps.append(sx([T.sx_ty(tree), [[k, v] for k, v in sorted(B.items())], ten(obs["with_table"]), ten(obs["without_table"])]))
    res = vlib.run_runner("c18-emit", sexps)
    outs = []
    for c, (obs, tree, B), r in zip(cases, results, res):
        idx = ["none", "zod"].index(c["mode"]) * 5 + SITES.index(obs["site"])
        model_text, ok, abs_ok, _classes = r[3][idx]
        obs["model_with_table"] = model_text
        obs["oracle_on_final_text"] = ok
        failed = any(s["exit"] != 0 for s in obs["steps"])
        okb = (not failed) and not obs["stale_files"] and obs["with_table"] is not None and ok == "true"
        # the model prints what a fresh generation under the final table prints (out-of-domain names: no model claim)
        corr = (not failed) and (r[1] != "true" or obs["fresh_with_table"] == model_text)
        outs.append(Outcome(dict(c, what="history"), corr, okb, detail=obs))
    return outs


def cases_for(tier, rng):
    out = []
    plain = [k for k, v in NAMES.items() if v[1]]
    allk = list(NAMES)
    i = 0
    # every route x every edit (names, sources, modes rotate; quick: two variants each)
    for route in ROUTES:
        pool = plain if route.startswith("event") else allk
        for edit in EDITS:
            variants = [(s, m, k) for s in SOURCES for m in MODES for k in pool] if tier == "thorough" else \
                [(SOURCES[(i + j) % 2], MODES[((i + j) // 2) % 2], pool[(i + 3 * j) % len(pool)]) for j in range(4)]
            i += 1
            for s, m, k in variants:
                out.append({"route": route, "edit": edit, "source": s, "mode": m, "name": k})
    # every name x every configuration source x every mode at the four direct sites
    if tier != "thorough":
        for k in allk:
            for s in SOURCES:
                for m in MODES:
                    for route in ("param", "return", "field", "channel"):
                        c = {"route": route, "edit": "retarget", "source": s, "mode": m, "name": k}
                        if c not in out:
                            out.append(c)
    return out
