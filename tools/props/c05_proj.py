"""C05, project level through the real CLI binary: the event payload site as the tool really reaches it
(event_parser.rs: symbol table of declared types, infer_payload_type on the payload EXPRESSION) and
module-qualified spellings of a project type at every translation site."""
import json
import os
import re

from tools import vlib
from tools.vlib import Outcome

H = "use serde::{Deserialize, Serialize};\nuse tauri::ipc::Channel;\nuse tauri::Emitter;\n\n"
MODELS = H + "#[derive(Serialize, Deserialize)]\npub struct Progress { pub done: u32 }\n"
USER = "#[derive(Serialize, Deserialize, PartialEq)]\npub struct User { pub id: u32 }\n\n"

# payload expressions that are operators: (tag, expression, TypeScript type of the expression)
EXPRS = [
    ("cmp-eq", "pending == 0", "boolean"), ("cmp-ne", "pending != limit", "boolean"), ("cmp-lt", "pending < 3", "boolean"),
    ("cmp-str", "name == other_name", "boolean"), ("cmp-struct", "user == other_user", "boolean"), ("cmp-ge", "x >= 10", "boolean"),
    ("add", "pending + 1", "number"), ("mul", "x * 2", "number"), ("sub", "limit - pending", "number"), ("rem", "pending % 2", "number"),
    ("and", "flag && other", "boolean"), ("or", "flag || other", "boolean"), ("not", "!flag", "boolean"), ("neg", "-x", "number"),
    ("paren-num", "(pending)", "number"), ("paren-bool", "(flag)", "boolean"), ("paren-cmp", "(pending == limit)", "boolean"),
    ("cast-f64", "x as f64", "number"), ("cast-u8", "pending as u8", "number"), ("cast-bool-int", "flag as i32", "number"),
    ("len", "name.len()", "number"), ("is-empty", "name.is_empty()", "boolean"), ("len-cmp", "name.len() > 0", "boolean"),
    ("not-cmp", "!(pending == 0)", "boolean"), ("str-add", "name + &other_name", "string"),
]
PARAMS = "pending: usize, limit: usize, flag: bool, other: bool, name: String, other_name: String, x: i32, user: User, other_user: User"

PREFIXES = ["models::", "crate::models::", "self::models::", "super::models::", "crate::a::models::"]
BINDINGS = ["helper_ref", "helper_val", "let"]
SITES = ["event", "param", "return", "field", "channel"]


def generate(files, mode):
    with vlib.Sandbox("c05p") as sb:
        for f, t in files.items():
            sb.write("proj/src/" + f, t)
        rc, log = sb.cli(["generate", "-p", sb.path("proj/src"), "-o", sb.path("out"), "-v", mode, "--force"])
        fs = {k: v.decode("utf-8", "replace") for k, v in sb.snapshot("out").items() if v is not None and k.endswith(".ts")} if os.path.isdir(sb.path("out")) else {}
        return rc, log, fs


def run_expr(case):
    tag, expr, ts = case["tag"], case["expr"], case["expected"]
    lib = H + USER + "#[tauri::command]\npub fn job(app: tauri::AppHandle, %s) {\n    app.emit(\"ev\", %s).unwrap();\n}\n" % (PARAMS, expr)
    rc, log, fs = generate({"lib.rs": lib}, case["mode"])
    m = re.search(r"listen<(.*)>\('ev'", fs.get("events.ts", ""))
    return {"exit": rc, "listener_type": m.group(1) if m else None, "log_tail": log[-200:] if rc else ""}


def evaluate_exprs(modes=("none", "zod")):
    cases = [{"tag": t, "expr": e, "expected": ts, "mode": modes[i % len(modes)]} for i, (t, e, ts) in enumerate(EXPRS)]
    outs = []
    for c, o in zip(cases, vlib.pmap(run_expr, cases)):
        # the listener type must be the expression's type or unknown, never another concrete type;
        # HEAD (faithful expectation): every operator / call payload is unknown
        ok = o["exit"] == 0 and o["listener_type"] in (c["expected"], "unknown")
        corr = o["exit"] == 0 and o["listener_type"] == "unknown"
        outs.append(Outcome(dict(c, what="payload-expression"), corr, ok, detail=o))
    return outs


def run_path(case):
    P = case["prefix"] + "Progress"
    site = case["site"]
    if site == "event":
        if case["binding"] == "helper_ref":
            body = "#[tauri::command]\npub fn ping() -> String { todo!() }\n\npub fn notify(app: &tauri::AppHandle, update: &%s) { app.emit(\"ev\", update).unwrap(); }\n" % P
        elif case["binding"] == "helper_val":
            body = "#[tauri::command]\npub fn ping() -> String { todo!() }\n\npub fn notify(app: &tauri::AppHandle, update: %s) { app.emit(\"ev\", update).unwrap(); }\n" % P
        else:
            body = "#[tauri::command]\npub fn job(app: tauri::AppHandle) {\n    let s: %s = todo!();\n    app.emit(\"ev\", s).unwrap();\n}\n" % P
    elif site == "param":
        body = "#[tauri::command]\npub fn c0(p0: %s) -> String { todo!() }\n" % P
    elif site == "return":
        body = "#[tauri::command]\npub fn c0() -> %s { todo!() }\n" % P
    elif site == "field":
        body = "#[derive(Serialize, Deserialize)]\npub struct Holder { pub f0: %s }\n\n#[tauri::command]\npub fn c0(p0: Holder) -> String { todo!() }\n" % P
    else:
        body = "#[tauri::command]\npub fn c0(ch0: Channel<%s>) -> String { todo!() }\n" % P
    rc, log, fs = generate({"models.rs": MODELS, "lib.rs": H + body}, case["mode"])
    ty, cm, ev = fs.get("types.ts", ""), fs.get("commands.ts", ""), fs.get("events.ts", "")
    zod = case["mode"] == "zod"
    if site == "event":
        m = re.search(r"listen<(.*)>\('ev'", ev)
    elif site == "param":
        m = re.search(r"\n  p0: (.*),\n", ty) if zod else re.search(r"\n  p0\??: (.*);\n", ty)
    elif site == "field":
        m = re.search(r"\n  f0: (.*),\n", ty) if zod else re.search(r"\n  f0\??: (.*);\n", ty)
    elif site == "channel":
        m = re.search(r"\n  ch0: Channel<(.*)>;\n", ty)
    else:
        m = re.search(r"function c0\(.*\): Promise<(.*)> \{\n", cm)
    return {"exit": rc, "site_text": m.group(1) if m else None,
            "declared": sorted(set(re.findall(r"export (?:interface|type|const) (\w+)", ty)))}


def expected_path_text(site, mode):
    if site in ("event", "return"):
        return "types.Progress"
    if mode == "zod" and site in ("param", "field"):
        return "ProgressSchema"
    return "Progress"


def head_path_text(prefix, site, mode):
    """what HEAD prints: the event parser keeps the last path segment; the three type_to_string variants print the path"""
    if site == "event":
        return "types.Progress"
    q = prefix + "Progress"
    if site == "return":
        return "types." + q
    if mode == "zod" and site in ("param", "field"):
        return q + "Schema"
    return q


def path_cases(tier):
    out = []
    i = 0
    for prefix in PREFIXES:
        for b in BINDINGS:
            modes = ("none", "zod") if tier == "thorough" else (("none", "zod")[i % 2],)
            i += 1
            for m in modes:
                out.append({"prefix": prefix, "site": "event", "binding": b, "mode": m})
        for site in ("param", "return", "field", "channel"):
            modes = ("none", "zod") if tier == "thorough" else (("none", "zod")[i % 2],)
            i += 1
            for m in modes:
                out.append({"prefix": prefix, "site": site, "binding": None, "mode": m})
    return out


def evaluate_paths(tier):
    cases = path_cases(tier)
    outs = []
    for c, o in zip(cases, vlib.pmap(run_path, cases)):
        exp = expected_path_text(c["site"], c["mode"])
        declared_ok = "Progress" in o["declared"]
        ok = o["exit"] == 0 and o["site_text"] == exp and declared_ok
        corr = o["exit"] == 0 and o["site_text"] == head_path_text(c["prefix"], c["site"], c["mode"])
        kf = "C05-9" if c["site"] != "event" else None
        o["expected"] = exp
        outs.append(Outcome(dict(c, what="module-path"), corr, ok, kf=kf, detail=o))
    return outs
