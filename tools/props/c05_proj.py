"""C05, project level through the real CLI binary: the event payload site as the tool really reaches it
(event_parser.rs: symbol table of declared types, infer_payload_type on the payload EXPRESSION) and
module-qualified spellings of a project type at every translation site."""
import json
import os
import re

from tools import vlib
from tools.vlib import Outcome

H = "use serde::{Deserialize, Serialize};\nuse tauri::ipc::Channel;\nuse tauri::Emitter;\n\n"
MODELS = H + "#[derive(Serialize, Deserialize)]\npub struct Progress { pub done: u32 }\n"
USER = "#[derive(Serialize, Deserialize, PartialEq)]\npub struct User { pub id: u32 }\n\n"

# payload expressions that are operators: (tag, expression, TypeScript type of the expression)
EXPRS = [
    ("cmp-eq", "pending == 0", "boolean"), ("cmp-ne", "pending != limit", "boolean"), ("cmp-lt", "pending < 3", "boolean"),
    ("cmp-str", "name == other_name", "boolean"), ("cmp-struct", "user == other_user", "boolean"), ("cmp-ge", "x >= 10", "boolean"),
    ("add", "pending + 1", "number"), ("mul", "x * 2", "number"), ("sub", "limit - pending", "number"), ("rem", "pending % 2", "number"),
    ("and", "flag && other", "boolean"), ("or", "flag || other", "boolean"), ("not", "!flag", "boolean"), ("neg", "-x", "number"),
    ("paren-num", "(pending)", "number"), ("paren-bool", "(flag)", "boolean"), ("paren-cmp", "(pending == limit)", "boolean"),
    ("cast-f64", "x as f64", "number"), ("cast-u8", "pending as u8", "number"), ("cast-bool-int", "flag as i32", "number"),
    ("len", "name.len()", "number"), ("is-empty", "name.is_empty()", "boolean"), ("len-cmp", "name.len() > 0", "boolean"),
    ("not-cmp", "!(pending == 0)", "boolean"), ("str-add", "name + &other_name", "string"),
]
PARAMS = "pending: usize, limit: usize, flag: bool, other: bool, name: String, other_name: String, x: i32, user: User, other_user: User"

PREFIXES = ["models::", "crate::models::", "self::models::", "super::models::", "crate::a::models::"]
BINDINGS = ["helper_ref", "helper_val", "let"]
SITES = ["event", "param", "return", "field", "channel"]


def generate(files, mode):
    with vlib.Sandbox("c05p") as sb:
        for f, t in files.items():
            sb.write("proj/src/" + f, t)
        rc, log = sb.cli(["generate", "-p", sb.path("proj/src"), "-o", sb.path("out"), "-v", mode, "--force"])
        fs = {k: v.decode("utf-8", "replace") for k, v in sb.snapshot("out").items() if v is not None and k.endswith(".ts")} if os.path.isdir(sb.path("out")) else {}
        return rc, log, fs


def run_expr(case):
    tag, expr, ts = case["tag"], case["expr"], case["expected"]
    lib = H + USER + "#[tauri::command]\npub fn job(app: tauri::AppHandle, %s) {\n    app.emit(\"ev\", %s).unwrap();\n}\n" % (PARAMS, expr)
    rc, log, fs = generate({"lib.rs": lib}, case["mode"])
    m = re.search(r"listen<(.*)>\('ev'", fs.get("events.ts", ""))
    return {"exit": rc, "listener_type": m.group(1) if m else None, "log_tail": log[-200:] if rc else ""}


def evaluate_exprs(modes=("none", "zod")):
    cases = [{"tag": t, "expr": e, "expected": ts, "mode": modes[i % len(modes)]} for i, (t, e, ts) in enumerate(EXPRS)]
    outs = []
    for c, o in zip(cases, vlib.pmap(run_expr, cases)):
        # the listener type must be the expression's type or unknown, never another concrete type;
        # HEAD (faithful expectation): every operator / call payload is unknown
        ok = o["exit"] == 0 and o["listener_type"] in (c["expected"], "unknown")
        corr = o["exit"] == 0 and o["listener_type"] == "unknown"
        outs.append(Outcome(dict(c, what="payload-expression"), corr, ok, detail=o))
    return outs


def run_path(case):
    P = case["prefix"] + "Progress"
    site = case["site"]
    if site == "event":
        if case["binding"] == "helper_ref":
            body = "#[tauri::command]\npub fn ping() -> String { todo!() }\n\npub fn notify(app: &tauri::AppHandle, update: &%s) { app.emit(\"ev\", update).unwrap(); }\n" % P
        elif case["binding"] == "helper_val":
            body = "#[tauri::command]\npub fn ping() -> String { todo!() }\n\npub fn notify(app: &tauri::AppHandle, update: %s) { app.emit(\"ev\", update).unwrap(); }\n" % P
        else:
            body = "#[tauri::command]\npub fn job(app: tauri::AppHandle) {\n    let s: %s = todo!();\n    app.emit(\"ev\", s).unwrap();\n}\n" % P
    elif site == "param":
        body = "#[tauri::command]\npub fn c0(p0: %s) -> String { todo!() }\n" % P
    elif site == "return":
        body = "#[tauri::command]\npub fn c0() -> %s { todo!() }\n" % P
    elif site == "field":
        body = "#[derive(Serialize, Deserialize)]\npub struct Holder { pub f0: %s }\n\n#[tauri::command]\npub fn c0(p0: Holder) -> String { todo!() }\n" % P
    else:
        body = "#[tauri::command]\npub fn c0(ch0: Channel<%s>) -> String { todo!() }\n" % P
    rc, log, fs = generate({"models.rs": MODELS, "lib.rs": H + body}, case["mode"])
    ty, cm, ev = fs.get("types.ts", ""), fs.get("commands.ts", ""), fs.get("events.ts", "")
    zod = case["mode"] == "zod"
    if site == "event":
        m = re.search(r"listen<(.*)>\('ev'", ev)
    elif site == "param":
        m = re.search(r"\n  p0: (.*),\n", ty) if zod else re.search(r"\n  p0\??: (.*);\n", ty)
    elif site == "field":
        m = re.search(r"\n  f0: (.*),\n", ty) if zod else re.search(r"\n  f0\??: (.*);\n", ty)
    elif site == "channel":
        m = re.search(r"\n  ch0: Channel<(.*)>;\n", ty)
    else:
        m = re.search(r"function c0\(.*\): Promise<(.*)> \{\n", cm)
    return {"exit": rc, "site_text": m.group(1) if m else None,
            "declared": sorted(set(re.findall(r"export (?:interface|type|const) (\w+)", ty)))}


def expected_path_text(site, mode):
    if site in ("event", "return"):
        return "types.Progress"
    if mode == "zod" and site in ("param", "field"):
        return "ProgressSchema"
    return "Progress"


def head_path_text(prefix, site, mode):
    """what HEAD prints: the event parser keeps the last path segment; the three type_to_string variants print the path"""
    if site == "event":
        return "types.Progress"
    q = prefix + "Progress"
    if site == "return":
        return "types." + q
    if mode == "zod" and site in ("param", "field"):
        return q + "Schema"
    return q


def path_cases(tier):
    out = []
    i = 0
    for prefix in PREFIXES:
        for b in BINDINGS:
            modes = ("none", "zod") if tier == "thorough" else (("none", "zod")[i % 2],)
            i += 1
            for m in modes:
                out.append({"prefix": prefix, "site": "event", "binding": b, "mode": m})
        for site in ("param", "return", "field", "channel"):
            modes = ("none", "zod") if tier == "thorough" else (("none", "zod")[i % 2],)
            i += 1
            for m in modes:
                out.append({"prefix": prefix, "site": site, "binding": None, "mode": m})
    return out


def evaluate_paths(tier):
    cases = path_cases(tier)
    outs = []
    for c, o in zip(cases, vlib.pmap(run_path, cases)):
        exp = expected_path_text(c["site"], c["mode"])
        declared_ok = "Progress" in o["declared"]
        ok = o["exit"] == 0 and o["site_text"] == exp and declared_ok
        corr = o["exit"] == 0 and o["site_text"] == head_path_text(c["prefix"], c["site"], c["mode"])
        kf = "C05-9" if c["site"] != "event" else None
        o["expected"] = exp
        outs.append(Outcome(dict(c, what="module-path"), corr, ok, kf=kf, detail=o))
    return outs


# ---- round 7: the event payload site reached through the real analysis when the payload VARIABLE is bound more than
# ---- once in one function (parameter / annotated let / struct literal / T::ctor() / copy of a typed variable, then
# ---- lets whose initialiser the event parser cannot type: method call, free call, `?`, block, if; same or other type)
RB_KIND = {"User": "struct", "Summary": "struct", "Status": "enum", "String": "std", "u32": "prim", "bool": "prim"}
RB_TYPES = list(RB_KIND)
RB_LIT = {"User": "User { id: 1 }", "Summary": "Summary { n: 2 }"}
RB_FIRST = ["param", "param-ref", "annot", "struct", "ctor"]
RB_TYPABLE = ["annot", "struct", "ctor", "copy"]              # the event parser learns the type of the new binding
RB_SAME = ["clone", "to-owned", "keep", "try", "block", "if"]   # un-typable initialiser, same type as before
RB_CHANGE = ["conv", "try-conv"]                                # un-typable initialiser of ANOTHER type
RB_VARS = ["user", "payload", "item", "current"]
RB_FORMS = ["v", "&v", "v.clone()"]
RB_WRAPS = ["none", "if"]


def _sn(t):
    return t.lower()


def rb_prelude():
    s = H
    s += "#[derive(Serialize, Deserialize, Clone, Default, PartialEq)]\npub struct User { pub id: u32 }\n\n"
    s += "#[derive(Serialize, Deserialize, Clone, Default, PartialEq)]\npub struct Summary { pub n: u32 }\n\n"
    s += "#[derive(Serialize, Deserialize, Clone, Default, PartialEq)]\npub enum Status { #[default] Active, Idle }\n\n"
    for t in RB_TYPES:
        s += "fn make_%s() -> %s { Default::default() }\nfn keep_%s(x: %s) -> %s { x }\nfn try_%s(x: %s) -> Result<%s, String> { Ok(x) }\n" % (
            _sn(t), t, _sn(t), t, t, _sn(t), t, t)
        for q in RB_TYPES:
            if q != t:
                s += "fn conv_%s_%s(_x: &%s) -> %s { Default::default() }\nfn try_conv_%s_%s(_x: &%s) -> Result<%s, String> { Ok(Default::default()) }\n" % (
                    _sn(t), _sn(q), t, q, _sn(t), _sn(q), t, q)
    # every project type is reachable from a command, so that it is declared in types.ts
    s += "\n#[tauri::command]\npub fn reg(a: User, b: Summary, c: Status) -> String { todo!() }\n\n"
    return s


def rb_first_ok(kind, t):
    return kind in ("param", "param-ref", "annot") or (kind == "struct" and RB_KIND[t] == "struct") or (kind == "ctor" and RB_KIND[t] != "prim")


def rb_steps_after(p):
    """all (kind, type) re-bindings possible after a binding of type p"""
    out = [(k, p) for k in RB_SAME]
    out += [(k, q) for k in RB_CHANGE for q in RB_TYPES if q != p]
    out += [(k, q) for k in RB_TYPABLE for q in RB_TYPES if k in ("annot", "copy") or rb_first_ok(k, q)]
    return out


def rb_stmt(v, kind, prev, t):
    if kind == "annot":
        if prev is None:
            return "let %s: %s = make_%s();" % (v, t, _sn(t))
        return "let %s: %s = %s;" % (v, t, "keep_%s(%s.clone())" % (_sn(t), v) if prev == t else "conv_%s_%s(&%s)" % (_sn(prev), _sn(t), v))
    if kind == "struct":
        return "let %s = %s;" % (v, RB_LIT[t])
    if kind == "ctor":
        return "let %s = %s::%s();" % (v, t, "new" if t == "String" else "default")
    if kind == "copy":
        return "let %s = other_%s;" % (v, _sn(t))
    if kind == "clone":
        return "let %s = %s.clone();" % (v, v)
    if kind == "to-owned":
        return "let %s = %s.to_owned();" % (v, v)
    if kind == "keep":
        return "let %s = keep_%s(%s.clone());" % (v, _sn(t), v)
    if kind == "try":
        return "let %s = try_%s(%s.clone())?;" % (v, _sn(t), v)
    if kind == "block":
        return "let %s = { %s.clone() };" % (v, v)
    if kind == "if":
        return "let %s = if flag { %s.clone() } else { make_%s() };" % (v, v, _sn(t))
    if kind == "conv":
        return "let %s = conv_%s_%s(&%s);" % (v, _sn(prev), _sn(t), v)
    if kind == "try-conv":
        return "let %s = try_conv_%s_%s(&%s)?;" % (v, _sn(prev), _sn(t), v)
    raise ValueError(kind)


def rb_function(c, fname, ev):
    """Rust source of one command whose payload variable has the binding history c['steps'] and which emits after the
    c['emit_after']-th binding"""
    v, steps = c["var"], c["steps"]
    params = ["app: tauri::AppHandle", "flag: bool"]
    body, prev = [], None
    for i, (kind, t) in enumerate(steps):
        if i == 0 and kind in ("param", "param-ref"):
            params.append("%s: %s%s" % (v, "&" if kind == "param-ref" else "", t))
        else:
            if kind == "copy" and ("other_%s: %s" % (_sn(t), t)) not in params:
                params.append("other_%s: %s" % (_sn(t), t))
            body.append(rb_stmt(v, kind, prev, t))
        if c["emit_after"] == i + 1:
            body.append("app.emit(\"%s\", %s).map_err(|e| e.to_string())?;" % (ev, c["form"].replace("v", v, 1) if c["form"] != "v.clone()" else v + ".clone()"))
        prev = t
    if c["wrap"] == "if":
        keep = 0 if steps[0][0] in ("param", "param-ref") else 1
        body = body[:keep] + ["if flag {"] + ["    " + x for x in body[keep:]] + ["}"]
    return "#[tauri::command]\npub fn %s(%s) -> Result<(), String> {\n%s    Ok(())\n}\n\n" % (
        fname, ", ".join(params), "".join("    " + x + "\n" for x in body))


def rb_real_type(c):
    """the type the emit really sends: that of the most recent binding before it"""
    return c["steps"][c["emit_after"] - 1][1]


def rb_head_type(c):
    """what HEAD's event parser has in its function-wide symbol table at the emit (event_parser.rs:136 extract_local_binding:
    an initialiser that cannot be typed leaves the table alone)"""
    t = None
    for kind, ty in c["steps"][:c["emit_after"]]:
        if kind in RB_FIRST or kind in RB_TYPABLE:
            t = ty
    return t


def rb_in_stale_class(c):
    """narrow class of finding C05-10: since the last binding whose type the parser can see, the variable was re-bound by
    an un-typable initialiser of another type"""
    return rb_real_type(c) != rb_head_type(c)


def rb_cases(rng, n_random):
    cases = []
    i = 0

    def mk(steps, emit_after):
        nonlocal i
        i += 1
        return {"what": "payload-rebinding", "var": RB_VARS[i % len(RB_VARS)], "steps": [list(s) for s in steps], "emit_after": emit_after,
                "form": RB_FORMS[(i // 2) % len(RB_FORMS)], "wrap": RB_WRAPS[(i // 3) % 2], "mode": ("none", "zod")[i % 2]}
    # every history of two bindings, emit after the second; every fourth one also with the emit BEFORE the re-binding
    for p in RB_TYPES:
        for f in RB_FIRST:
            if not rb_first_ok(f, p):
                continue
            for j, st in enumerate(rb_steps_after(p)):
                cases.append(mk([(f, p), st], 2))
                if j % 4 == 0:
                    cases.append(mk([(f, p), st], 1))
    # random histories of three or four bindings, emit anywhere
    for _ in range(n_random):
        p = rng.choice(RB_TYPES)
        steps = [(rng.choice([f for f in RB_FIRST if rb_first_ok(f, p)]), p)]
        for _ in range(rng.randint(2, 3)):
            pool = rb_steps_after(steps[-1][1])
            # un-typable steps are the rarer half of the pool: draw the side first
            side = [s for s in pool if (s[0] in RB_TYPABLE) == (rng.random() < 0.35)]
            steps.append(rng.choice(side))
        cases.append(mk(steps, rng.randint(1, len(steps))))
    return cases


def rb_corpus():
    """witnesses of the recorded findings of this stream first, then corpus/C05/rebinding.json"""
    out = [dict(e["witness"]["project"]) for e in vlib.load_known_findings("C05")
           if (e.get("witness", {}).get("project") or {}).get("what") == "payload-rebinding"]
    p = os.path.join(vlib.VERIF, "corpus", "C05", "rebinding.json")
    return out + ([dict(w["project"]) for w in json.load(open(p))] if os.path.exists(p) else [])


def rb_generate(batch):
    mode, cases = batch
    src = rb_prelude() + "".join(rb_function(c, "job%d" % k, "ev%d" % k) for k, c in enumerate(cases))
    rc, log, fs = generate({"lib.rs": src}, mode)
    ev, ty = fs.get("events.ts", ""), fs.get("types.ts", "")
    declared = sorted(set(re.findall(r"export (?:interface|type|const) (\w+)", ty)) & set(RB_TYPES))
    out = []
    for k, c in enumerate(cases):
        m = re.search(r"listen<(.*)>\('ev%d'," % k, ev)
        h = re.search(r"export async function onEv%d\(\n  handler: \(payload: (.*)\) => void\n" % k, ev)
        out.append({"exit": rc, "listener_type": m.group(1) if m else None, "handler_type": h.group(1) if h else None,
                    "declared": declared, "log_tail": log[-200:] if rc else "",
                    "rust": rb_function(c, "job%d" % k, "ev%d" % k)})
    return out


def evaluate_rebinding(cases, batch_size=60):
    """implementation: the real CLI on projects of batch_size commands (one event each). Faithful expectation: the Coq model's
    event-site text (C05Emit.emit_ts) of the type HEAD's symbol table holds. Oracle: c05_ok (extracted) of the listener type
    against the type the emit really sends, or `unknown`; a project type named there must be declared in types.ts."""
    from tools.vlib import sx
    from tools.props import c05_types as T
    by_mode = {"none": [], "zod": []}
    for i, c in enumerate(cases):
        by_mode[c["mode"]].append(i)
    batches = [(m, idx[k:k + batch_size]) for m, idx in by_mode.items() for k in range(0, len(idx), batch_size)]
    obs = [None] * len(cases)
    for (m, idx), res in zip(batches, vlib.pmap(rb_generate, [(m, [cases[i] for i in idx]) for m, idx in batches])):
        for i, o in zip(idx, res):
            obs[i] = o
    slot = {"none": 4, "zod": 9}

    def judge(tys_texts):
        sexps = []
        for (t, text, mode) in tys_texts:
            texts = [""] * 10
            texts[slot[mode]] = text or ""
            sexps.append(sx([T.sx_ty(T.parse(t)), [], texts]))
        return [r[5][slot[mode]] for r, (_, _, mode) in zip(vlib.run_runner("c05-emit", sexps), tys_texts)]
    real = judge([(rb_real_type(c), o["listener_type"], c["mode"]) for c, o in zip(cases, obs)])
    head = judge([(rb_head_type(c), o["listener_type"], c["mode"]) for c, o in zip(cases, obs)])
    outs = []
    for c, o, r, h in zip(cases, obs, real, head):
        lt = o["listener_type"]
        named = RB_KIND[rb_real_type(c)] in ("struct", "enum")
        ok = (o["exit"] == 0 and lt is not None and lt == o["handler_type"] and
              (lt == "unknown" or (r[1] == "true" and (not named or rb_real_type(c) in o["declared"]))))
        corr = o["exit"] == 0 and lt == h[0] and lt == o["handler_type"]
        o = dict(o, sends=rb_real_type(c), expected=r[3] + " or unknown", reads_as=r[2], model=h[0], symbol_table_type=rb_head_type(c))
        if ok:
            o.pop("log_tail", None)
        outs.append(Outcome(c, corr, ok, kf="C05-10" if rb_in_stale_class(c) else None, detail=o))
    return outs


def rebinding_distribution(cases):
    d = {"histories": len(cases), "length": {}, "emit_before_last_binding": 0, "untypable_last_same_type": 0, "stale_class": 0, "kinds": {}}
    for c in cases:
        d["length"][str(len(c["steps"]))] = d["length"].get(str(len(c["steps"])), 0) + 1
        d["emit_before_last_binding"] += c["emit_after"] < len(c["steps"])
        k = c["steps"][c["emit_after"] - 1][0]
        d["untypable_last_same_type"] += k in RB_SAME
        d["stale_class"] += rb_in_stale_class(c)
        for kind, _ in c["steps"]:
            d["kinds"][kind] = d["kinds"].get(kind, 0) + 1
    return d
