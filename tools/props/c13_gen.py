"""C13 helpers: project generator (multi-file projects in the tools/projgen.py case format), the
semantics-preserving source transformations, and the *skeleton* of a case (what coq/Model/C13Order.v
takes as input: per file the commands with the type names they mention, emit calls, serde type
definitions with the names their fields mention, noise)."""
import copy
import json
import random
import re

from tools import projgen
from tools.projgen import P, Tup, CONTEXTS

BUILTIN = set(projgen.PRIMS) | {"str", "String"}
CONTAINERS = {"Option", "Vec", "HashMap", "BTreeMap", "HashSet", "BTreeSet", "Result"}
# constructor contexts on which the name harvest (extract_type_names_recursive) and the parsed type
# structure mention the same custom names (the others are C07/C05 findings, not this property's)
FIELD_CTX = ["direct", "option", "vec", "map_value", "btree_value", "set", "btree_set", "tuple_first", "tuple_last",
             "opt_vec", "vec_opt", "map_vec", "vec_tuple", "opt_opt"]
PARAM_CTX = ["direct", "option", "vec", "map_value", "tuple_last"]
RET_CTX = ["direct", "option", "vec", "result_ok", "result_ok"]

TYPE_POOL = ["User", "Profile", "Settings", "Item", "Order", "Address", "Status", "Kind", "Report", "Node", "Leaf", "Meta",
             "Account", "Invoice", "Tag", "Window2", "Payload", "Summary"]
CMD_POOL = ["get_user", "save", "list_items", "do_it", "fetch_all", "update_profile", "ping", "compute", "load", "sync_now",
            "open_file", "close_all", "rename_item", "delete_it", "export_data", "import_data", "refresh", "log_in"]
# every non-alphanumeric character of an event name becomes _ in the listener identifier
# (C12-fix-dedup-and-identifier), so these are ordinary cases
EVENT_POOL = ["user-updated", "progress", "item_added", "sync:done", "download/finished", "tick", "closed", "ready",
              "job-queued", "saved"]
FIELDS = projgen.FIELD_NAMES


# ----------------------------------------------------------------------------- skeleton

def custom_names(t):
    """Custom type names a type mentions, as both the harvest on the printed type and the parsed
    TypeStructure see them (on the contexts above)."""
    k = t["k"]
    if k == "ref":
        return custom_names(t["t"])
    if k == "tuple":
        return [n for x in t["ts"] for n in custom_names(x)]
    n = t["name"]
    if n in CONTAINERS:
        return [m for a in t["args"] for m in custom_names(a)]
    if n in BUILTIN:
        return []
    if t["args"] or t.get("lt") or t["segs"]:
        return []
    return [n] if n[:1].isupper() else []


def is_special_param(t):
    if t["k"] != "path":
        return False
    segs, n = t["segs"], t["name"]
    if segs == ["tauri"] and n in ("AppHandle", "Window", "WebviewWindow", "State", "Manager"):
        return True
    if segs == ["tauri", "ipc"] and n in ("Request", "Channel"):
        return True
    if n in ("AppHandle", "WebviewWindow"):
        return True
    if n == "Channel" and t["args"]:
        return True
    return False


def is_channel(t):
    return t["k"] == "path" and t["name"] == "Channel" and bool(t["args"]) and t["segs"] in ([], ["tauri", "ipc"], ["ipc"])


def is_command(it):
    return any((a == ["tauri", "command"] or a == ["command"]) for a in it.get("attrs", []) if not isinstance(a, str))


def is_serde(it):
    return any("Serialize" in d or "Deserialize" in d for d in it.get("derives", []))


TYPE_SET_NAMES = {"HashMap", "BTreeMap", "HashSet", "BTreeSet"}


def type_name_of(t):
    """EventParser::extract_type_name: references stripped, last path segment, otherwise unknown"""
    while t["k"] == "ref":
        t = t["t"]
    if t["k"] == "path":
        return t["name"]
    return "unknown"


def text_type_name(txt):
    txt = txt.strip()
    while txt.startswith("&"):
        txt = txt[1:].strip()
    if txt.startswith("mut "):
        txt = txt[4:].strip()
    if not re.match(r"^[\w:]+(<.*>)?$", txt):
        return "unknown"
    return txt.split("<")[0].split("::")[-1]


def fn_events(it):
    """Events of one function as the *unchanged* event parser sees them: a fresh symbol table per
    function (parameters, then let bindings in statement order: `let v: T = ..` gives T,
    `let v = T::f(..)` gives T, `let v = w` / `&w` copies w's entry, anything else binds nothing);
    a payload variable without an entry falls back to its own name."""
    evs = []
    sym = {p["name"]: type_name_of(p["ty"]) for p in it.get("params", [])}
    for s in it.get("body", []):
        if isinstance(s, str):
            m = re.match(r"^let (?:mut )?(\w+): (.+?) = .*;$", s.strip())
            if m:
                sym[m.group(1)] = text_type_name(m.group(2))
                continue
            m = re.match(r"^let (?:mut )?(\w+) = (.+);$", s.strip())
            if m:
                var, init = m.group(1), m.group(2).strip()
                while init.startswith("&"):
                    init = init[1:].strip()
                ty = "unknown"
                if re.fullmatch(r"\w+", init):
                    ty = sym.get(init, "unknown")
                elif re.match(r"^(\w+)(::\w+)+\(", init):
                    ty = init.split("::")[0]
                if ty != "unknown":
                    sym[var] = ty
            continue
        pay = s.get("payload", "()").strip()
        while pay.startswith("&"):
            pay = pay[1:].strip()
        if pay.endswith(".clone()"):
            pay = pay[:-len(".clone()")]
        roots, ty = [], pay
        if re.fullmatch(r"\w+", pay) and not pay[0].isdigit():
            ty = sym.get(pay, pay)
            if ty[:1].isupper() and ty not in BUILTIN and ty not in TYPE_SET_NAMES:
                roots = [ty]
        evs.append((s["emit"], roots, ty))
    return evs


class Skeleton:
    """Numbering of paths / commands / events / type names (sorted, so that numeric order is the
    lexicographic order of the names) and the model input as nested lists."""

    def __init__(self, case):
        files = case["files"]
        self.mapped = set(((case.get("config") or {}).get("typeMappings") or {}))   # names rendered through a mapping
        self.paths = sorted(files, key=lambda q: q.split("/"))      # PathBuf order: component-wise
        cmds, evs, tys, pays = set(), set(), set(), set()
        self.bodies = []          # body id -> (path, item)
        for rel in self.paths:
            for it in files[rel]:
                if it["kind"] == "fn":
                    if is_command(it):
                        cmds.add(it["name"])
                        for p in it.get("params", []):
                            tys.update(custom_names(p["ty"]["args"][0] if is_channel(p["ty"]) else p["ty"]))
                        if it.get("ret") is not None:
                            tys.update(custom_names(it["ret"]))
                    for e, roots, ty in fn_events(it):
                        evs.add(e)
                        tys.update(roots)
                        pays.add(ty)
                elif it["kind"] in ("struct", "enum") and is_serde(it):
                    tys.add(it["name"])
                    for f in it.get("fields", []):
                        tys.update(custom_names(f["ty"]))
        self.cmds, self.evs, self.tys = sorted(cmds), sorted(evs), sorted(tys)
        self.pays = sorted(pays)                 # payload types as the event parser infers them
        self.payid = {n: i for i, n in enumerate(self.pays)}
        self.pid = {n: i + 1 for i, n in enumerate(self.paths)}
        self.cid = {n: i + 1 for i, n in enumerate(self.cmds)}
        self.eid = {n: i + 1 for i, n in enumerate(self.evs)}
        self.tid = {n: i + 1 for i, n in enumerate(self.tys)}
        self.cmd_file, self.ev_file, self.defs = {}, {}, {}
        # member names (struct fields, enum variants, command parameters): one numbering
        mem = set()
        for rel in self.paths:
            for it in files[rel]:
                if it["kind"] == "fn":
                    mem.update(p["name"] for p in it.get("params", []))
                elif it["kind"] == "struct":
                    mem.update(f["name"] for f in it.get("fields", []))
                elif it["kind"] == "enum":
                    mem.update(v["name"] for v in it.get("variants", []))
        self.members = sorted(mem)
        self.mid = {n: i + 1 for i, n in enumerate(self.members)}
        proj = []
        for rel in self.paths:
            items = []
            for it in files[rel]:
                k = it["kind"]
                if k == "fn":
                    evl = [[self.eid[e], [self.tid[r] for r in roots], self.payid[ty]] for e, roots, ty in fn_events(it)]
                    for e, _, _ in fn_events(it):
                        self.ev_file.setdefault(e, rel)
                    if is_command(it):
                        roots, ps, cs = [], [], []
                        for p in it.get("params", []):
                            if is_channel(p["ty"]):
                                cs.append(self.mid[p["name"]])
                                roots += custom_names(p["ty"]["args"][0])
                            elif is_special_param(p["ty"]):
                                continue
                            else:
                                ps.append(self.mid[p["name"]])
                                roots += custom_names(p["ty"])
                        if it.get("ret") is not None:
                            roots += custom_names(it["ret"])
                        self.cmd_file[it["name"]] = rel
                        items.append(["cmd", self.cid[it["name"]], [self.tid[r] for r in roots], ps, cs, evl])
                    elif evl:
                        items.append(["fn", evl])
                    else:
                        items.append(["noise"])
                elif k in ("struct", "enum") and is_serde(it):
                    deps = [self.tid[n] for f in it.get("fields", []) for n in custom_names(f["ty"])]
                    body = len(self.bodies)
                    self.bodies.append((rel, it))
                    self.defs.setdefault(it["name"], []).append((rel, body))
                    fs = [self.mid[f["name"]] for f in it.get("fields", [])] if k == "struct" else \
                         [self.mid[v["name"]] for v in it.get("variants", [])]
                    items.append(["type", self.tid[it["name"]], deps, body, k == "enum", fs])
                else:
                    items.append(["noise"])
            proj.append([self.pid[rel], items])
        self.project = proj

    def dup_names(self):
        return sorted(n for n, ds in self.defs.items() if len(ds) > 1)

    def dup_events(self):
        """event names emitted with two different payload types"""
        seen = {}
        for _, items in self.project:
            for it in items:
                evl = it[5] if it[0] == "cmd" else it[1] if it[0] == "fn" else []
                for e, _, pay in evl:
                    seen.setdefault(e, set()).add(pay)
        return sorted(self.evs[e - 1] for e, ps in seen.items() if len(ps) > 1)


# ----------------------------------------------------------------------------- generator

VAR_POOL = ["payload", "data", "progress", "snapshot", "info"]


def bind_payload(rng, params, body, var, tname):
    """Bind identifier `var` in one of the ways the event parser distinguishes (typed parameter,
    reference parameter, typed let, let from Type::f(), let copied from a parameter, untyped let from a
    call or a macro) and return the payload expression of the emit call."""
    kind = rng.choice(["param", "param", "ref_param", "typed_let", "default_let", "copy_let", "call_let", "call_let", "macro_let"])
    if kind == "param":
        params.append({"name": var, "ty": P(tname)})
    elif kind == "ref_param":
        params.append({"name": var, "ty": projgen.Ref(P(tname))})
    elif kind == "typed_let":
        body.append("let %s: %s = todo!();" % (var, tname))
    elif kind == "default_let":
        body.append("let %s = %s::default();" % (var, tname))
    elif kind == "copy_let":
        params.append({"name": "source_" + var, "ty": P(tname)})
        body.append("let %s = %ssource_%s;" % (var, rng.choice(["", "&"]), var))
    elif kind == "call_let":
        body.append("let %s = build_%s(%d);" % (var, var, rng.randint(0, 9)))
    else:
        body.append('let %s = format!("{}-{}", 1, 2);' % var)
    return rng.choice([var, var, "&" + var, var + ".clone()"])


def helper_text(rng, fname, vars_, type_names):
    """A non-command function that emits nothing; parameters and lets reuse the given identifiers
    and type names."""
    vs = rng.sample(list(dict.fromkeys(vars_)), min(len(set(vars_)), rng.randint(1, 3)))
    params, lets = [], []
    for v in vs:
        t = rng.choice(list(type_names))
        k = rng.choice(["param", "ref_param", "typed_let", "default_let"])
        if k == "param":
            params.append("%s: %s" % (v, t))
        elif k == "ref_param":
            params.append("%s: &%s" % (v, t))
        elif k == "typed_let":
            lets.append("    let %s: %s = todo!();" % (v, t))
        else:
            lets.append("    let %s = %s::default();" % (v, t))
    lines = ["fn %s(%s) -> usize {" % (fname, ", ".join(params))] + lets
    lines += ["    let _ = (%s);" % ", ".join("&" + v for v in vs) if len(vs) > 1 else "    let _ = &%s;" % vs[0], "    0", "}"]
    return "\n".join(lines)

def struct_item(rng, name, edges_to, derives=None, marker=None):
    fields = []
    fnames = rng.sample(FIELDS, min(len(FIELDS), len(edges_to) + rng.randint(1, 2)))
    k = 0
    for (target, ctx) in edges_to:
        fields.append({"name": fnames[k], "ty": CONTEXTS[ctx](P(target)), "serde": [], "validate": []})
        k += 1
    while k < len(fnames):
        fields.append({"name": fnames[k], "ty": projgen.gen_type(rng, 1), "serde": [], "validate": []})
        k += 1
    rng.shuffle(fields)
    if marker:
        fields.insert(0, {"name": marker, "ty": P("i32"), "serde": [], "validate": []})
    return {"kind": "struct", "name": name, "derives": derives or rng.choice(projgen.SERDE_DERIVES[:2]), "serde": [],
            "fields": fields}


def enum_item(rng, name):
    return {"kind": "enum", "name": name, "derives": rng.choice(projgen.SERDE_DERIVES[:2]), "serde": [],
            "variants": [{"name": v, "serde": []} for v in rng.sample(["Active", "Inactive", "InProgress", "Done", "A"], rng.randint(1, 3))]}


# ---- names that are distinct but collide under a coarser key: equal ignoring ASCII case, equal after
# stripping underscores / dashes, equal up to a trailing digit, one a prefix of the other. A sort or a map
# keyed by such a key leaves the pair in hash order.
TIE_FILES = ["src/m1.rs", "src/M1.rs", "src/m_1.rs", "src/m10.rs", "src/m1/inner.rs", "src/cmds/a1.rs", "src/cmds/A1.rs",
             "src/cmds.rs", "src/sub/deep/m1.rs", "src/Sub/m1.rs"]
TIE_FILE_PAIRS = [("src/m1.rs", "src/M1.rs"), ("src/m1.rs", "src/m_1.rs"), ("src/m1.rs", "src/m10.rs"), ("src/m1.rs", "src/m1/inner.rs"),
                  ("src/cmds/a1.rs", "src/cmds/A1.rs"), ("src/cmds.rs", "src/cmds/a1.rs"), ("src/sub/deep/m1.rs", "src/Sub/m1.rs")]
TIE_TYPES = [("SessionId", "SessionID"), ("IoError", "IOError"), ("Uuid", "UUID"), ("UserInfo", "User_Info"),
             ("ApiKey", "APIKey"), ("Point", "Point2"), ("Rect", "Rectangle"), ("Entry", "Entry1"), ("HttpReply", "HTTPReply")]
TIE_CMDS = [("load_it", "load_it2"), ("save_doc", "save_doc_as"), ("sign_in", "signin"), ("open_tab", "open_tab1"),
            ("run", "run_all")]
TIE_EVENTS = [("tock", "tock2"), ("done", "done-now"), ("stored", "stored_1"), ("step", "stepped")]
TIE_FIELDS = [("value", "Value"), ("user_id", "userid"), ("name", "name2"), ("id", "id_"), ("kind", "kind_of")]


def coarse_keys(n):
    """the coarser keys under which two names may collide"""
    low = n.lower()
    flat = re.sub(r"[_\-/.:]", "", low)
    return {"case:" + low, "flat:" + flat, "digit:" + re.sub(r"\d+$", "", flat)}


def tie_pairs(names):
    """number of unordered pairs of distinct names that collide under a coarser key or where one is a
    prefix of the other"""
    names = sorted(set(names))
    n = 0
    for i, a in enumerate(names):
        for b in names[i + 1:]:
            if coarse_keys(a) & coarse_keys(b) or a.lower().startswith(b.lower()) or b.lower().startswith(a.lower()):
                n += 1
    return n


def tie_census(case):
    """tie-prone pairs per namespace of a project case (goes into the evidence)"""
    types, cmds, evs, fields = [], [], [], 0
    for rel, its in case["files"].items():
        for it in its:
            if it["kind"] in ("struct", "enum") and is_serde(it):
                types.append(it["name"])
                fields += tie_pairs([f["name"] for f in it.get("fields", [])] + [v["name"] for v in it.get("variants", [])])
            elif it["kind"] == "fn":
                if is_command(it):
                    cmds.append(it["name"])
                evs += [e for e, _, _ in fn_events(it)]
    return {"types": tie_pairs(types), "commands": tie_pairs(cmds), "events": tie_pairs(evs), "fields": fields,
            "files": tie_pairs(list(case["files"]))}


def add_ties(rng, items, files, cmd_files, names):
    """Every project gets pairs of tie-prone names, the two members independent of each other (no
    dependency between them) and both used: two or three type pairs (one of them held together by a
    third struct, so that they also meet in one dependency set), a command pair, an event pair, a field
    pair."""
    app = {"name": "app", "ty": P("AppHandle", segs=["tauri"])}
    tpairs = [p for p in rng.sample(TIE_TYPES, rng.randint(2, 3)) if p[0] not in names and p[1] not in names]
    used = []
    for k, (a, b) in enumerate(tpairs):
        for n in (a, b):
            fa, fb = rng.choice(TIE_FIELDS)
            fields = [{"name": fa, "ty": projgen.gen_type(rng, 1), "serde": [], "validate": []},
                      {"name": fb, "ty": projgen.gen_type(rng, 1), "serde": [], "validate": []}]
            rng.shuffle(fields)
            items[rng.choice(files)].append({"kind": "struct", "name": n, "derives": rng.choice(projgen.SERDE_DERIVES[:2]),
                                             "serde": [], "fields": fields})
        if k == 0:
            items[rng.choice(files)].append({"kind": "struct", "name": "Holder%d" % rng.randint(0, 9),
                                             "derives": ["Serialize", "Deserialize"], "serde": [],
                                             "fields": [{"name": "first", "ty": P(b), "serde": [], "validate": []},
                                                        {"name": "second", "ty": CONTEXTS[rng.choice(FIELD_CTX)](P(a)), "serde": [], "validate": []}]})
            used.append(items)  # marker only
    holder = [it["name"] for its in items.values() for it in its if it["kind"] == "struct" and it["name"].startswith("Holder")]
    roots = [n for p in tpairs for n in p] + holder
    (ca, cb) = rng.choice(TIE_CMDS)
    (ea, eb) = rng.choice(TIE_EVENTS)
    for c, e in ((ca, ea), (cb, eb)):
        params = [dict(app)]
        ret = None
        for _ in range(rng.randint(1, 2)):
            if roots:
                params.append({"name": "p%d" % len(params), "ty": CONTEXTS[rng.choice(PARAM_CTX)](P(roots.pop(rng.randrange(len(roots)))))})
        if roots and rng.random() < 0.7:
            ret = P(roots.pop(rng.randrange(len(roots))))
        items[rng.choice(cmd_files)].append({"kind": "fn", "name": c, "attrs": [["tauri", "command"]], "async": False, "vis": "pub",
                                             "params": params, "ret": ret,
                                             "body": [{"emit": e, "recv": "app", "payload": "()"}]})
    if roots:       # whatever is left is used by one more command
        items[rng.choice(cmd_files)].append({"kind": "fn", "name": "use_rest", "attrs": [["command"]], "async": False, "vis": "pub",
                                             "params": [{"name": "r%d" % i, "ty": P(n)} for i, n in enumerate(roots)], "ret": None, "body": []})


# ---- configuration collections: a type_mappings table with several entries and OVERLAPPING keys (the
# bare name and a module-qualified spelling with different targets, a case variant, a prefix), the sources
# using both spellings; optionally a mapping for a type the project itself defines; a list-valued setting
EXTERNAL = [("ExtId", "legacy"), ("Stamp", "chrono"), ("Blob", "store"), ("Money", "bank::units")]
TARGETS = ["string", "number", "boolean"]


def dup_command_names(case):
    seen, dups = set(), []
    for rel in sorted(case["files"]):
        for it in case["files"][rel]:
            if it["kind"] == "fn" and is_command(it):
                if it["name"] in seen and it["name"] not in dups:
                    dups.append(it["name"])
                seen.add(it["name"])
    return dups


CFGS = ['cfg(target_os = "windows")', 'cfg(target_os = "linux")', 'cfg(not(target_os = "macos"))', 'cfg(unix)', 'cfg(feature = "desktop")']


def add_dup_commands(rng, items, files):
    """Command names defined more than once (legal Rust: one definition per platform module, or #[cfg] variants in
    one file): the same signature, no emit call in the copies. HEAD generates a wrapper and a Params declaration per
    definition, wherever the definitions stand."""
    cmds = [(f, it) for f in files for it in items[f] if it["kind"] == "fn" and is_command(it)]
    if not cmds:
        return
    def variant(it):
        cp = copy.deepcopy(it)
        cp["body"] = [st for st in cp.get("body", []) if not isinstance(st, dict)]
        cp["attrs"] = [rng.choice(CFGS)] + list(cp["attrs"])
        return cp
    platform = rng.random() < 0.6
    a, b = "src/platform/linux.rs", "src/platform/windows.rs"
    if platform:
        items[a], items[b] = [], []
    for f, it in rng.sample(cmds, min(len(cmds), rng.randint(2, 3))):
        emits = any(isinstance(st, dict) for st in it.get("body", []))
        if platform:
            if not emits and rng.random() < 0.7:
                items[f].remove(it)
                items[a].append(it)
                items[b].append(variant(it))
            else:
                items[a].append(variant(it))
                items[b].append(variant(it))
        else:
            for _ in range(rng.randint(1, 2)):
                items[f if rng.random() < 0.5 else rng.choice(files)].append(variant(it))


def add_mappings(rng, items, files, cmd_files, names):
    tm = {"PathBuf": "string", "Decimal": "number", "Uuid4": "string"}
    fields = []
    for k, (bare, mod) in enumerate(rng.sample(EXTERNAL, rng.randint(2, 3))):
        t = rng.sample(TARGETS, 3)
        qual = mod + "::" + bare
        tm[bare], tm[qual] = t[0], t[1]
        tm[bare.upper()] = t[2]
        tm[bare[:3]] = t[2]
        if rng.random() < 0.5:
            tm["other::" + bare] = t[2]
        segs = mod.split("::")
        wrap = [lambda x: x, lambda x: P("Option", x), lambda x: P("Vec", x), lambda x: P("HashMap", P("String"), x)]
        fields.append({"name": "plain_%d" % k, "ty": rng.choice(wrap)(P(bare)), "serde": [], "validate": []})
        fields.append({"name": "qualified_%d" % k, "ty": rng.choice(wrap)(P(bare, segs=segs)), "serde": [], "validate": []})
    rng.shuffle(fields)
    rec = "MappedRec%d" % rng.randint(0, 9)
    items[rng.choice(files)].append({"kind": "struct", "name": rec, "derives": ["Serialize", "Deserialize"], "serde": [], "fields": fields})
    first = fields[0]["ty"]
    items[rng.choice(cmd_files)].append({"kind": "fn", "name": "use_mapped", "attrs": [["tauri", "command"]], "async": False, "vis": "pub",
                                         "params": [{"name": "key", "ty": first}, {"name": "other_key", "ty": fields[-1]["ty"]}],
                                         "ret": P(rec), "body": []})
    if rng.random() < 0.4:
        tm[rng.choice(names)] = rng.choice(TARGETS)       # a type the project defines (and keeps declaring)
    keys = list(tm)
    rng.shuffle(keys)
    return {"typeMappings": {k: tm[k] for k in keys}, "excludePatterns": rng.sample(["**/gen/**", "target", "*.bak", "node_modules", "dist/**"], 3)}


def gen_project(rng, shape=None):
    """shape: 'multi' (commands/events/types spread over all files), 'onefile' (a single file),
    'cmd1' (all commands and emit calls in one file, types elsewhere; chain-shaped type graph),
    'dup' (multi + one type name defined in two or three files), 'dupev', 'dupcmd' (multi + command names defined
    more than once: per-platform modules, #[cfg] variants in one file)."""
    shape = shape or rng.choice(["multi", "multi", "multi", "cmd1", "cmd1", "cmd1", "onefile", "onefile", "dup", "dupev", "dupcmd", "dupcmd"])
    nfiles = 1 if shape == "onefile" else rng.randint(1, 4) if shape == "dupev" else rng.randint(2, 6)
    if rng.random() < 0.25:
        files = ["src/lib.rs"] + ["src/m%d.rs" % k for k in range(1, nfiles)]
        if nfiles > 2 and rng.random() < 0.5:
            files[-1] = "src/sub/deep/m%d.rs" % (nfiles - 1)
        if nfiles > 3 and rng.random() < 0.3:
            files[1] = "src/cmds/a%d.rs" % rng.randint(1, 9)
    else:
        # paths that collide under a coarser key (case, underscores, trailing digit, prefix, a directory
        # named like a file stem: PathBuf order is component-wise, not string order)
        pair = list(rng.choice(TIE_FILE_PAIRS)) if nfiles >= 3 else []
        rest = [f for f in TIE_FILES if f not in pair]
        files = ["src/lib.rs"] + pair + rng.sample(rest, nfiles - 1 - len(pair))
        rng.shuffle(files)
        files.remove("src/lib.rs")
        files.insert(0, "src/lib.rs")
    items = {f: [] for f in files}
    ntypes = rng.randint(2, 8)
    names = rng.sample(TYPE_POOL, ntypes)
    chain = shape == "cmd1" and rng.random() < 0.7
    acyclic = rng.random() < 0.85
    is_enum = [(not chain) and rng.random() < 0.2 for _ in names]
    edges = {}
    if chain:
        for i in range(ntypes - 1):
            edges[(i, i + 1)] = rng.choice(FIELD_CTX)
    else:
        p_edge = rng.choice([0.15, 0.3, 0.5])
        for i in range(ntypes):
            if is_enum[i]:
                continue
            for j in range(ntypes):
                if acyclic and j <= i:
                    continue
                if rng.random() < p_edge:
                    edges[(i, j)] = rng.choice(FIELD_CTX if i != j else ["vec", "opt_vec", "map_value"])
    type_files = files if shape != "cmd1" else (files[1:] or files)
    for i, n in enumerate(names):
        f = rng.choice(type_files)
        if is_enum[i]:
            items[f].append(enum_item(rng, n))
        else:
            out = [(names[b], ctx) for (a, b), ctx in sorted(edges.items()) if a == i]
            if rng.random() < 0.15:
                out.append(("Missing%d" % i, "direct"))        # a name nothing defines
            items[f].append(struct_item(rng, n, out))
    ncmds = rng.randint(1, 3) if shape == "onefile" else rng.randint(2, min(10, 2 * nfiles + 1))
    cmds = rng.sample(CMD_POOL, ncmds)
    cmd_files = [files[0]] if shape == "cmd1" else files
    evnames = rng.sample(EVENT_POOL, len(EVENT_POOL))
    if shape == "dupev" or rng.random() < 0.15:
        # one event name emitted at several sites (one listener is generated: the first site wins)
        evnames = evnames[:4] + [evnames[0], evnames[1], evnames[0]]
        rng.shuffle(evnames)
    roots_pool = [0] if chain else list(range(ntypes))
    # a few identifiers per file, reused by the functions of that file with different bindings
    file_vars = {f: rng.sample(VAR_POOL, 2) for f in files}
    for c in cmds:
        f = rng.choice(cmd_files)
        params, ret, body = [], None, []
        for _ in range(rng.randint(0, 2)):
            j = rng.choice(roots_pool)
            params.append({"name": rng.choice(["arg", "input", "req_data", "the_value"]) + str(len(params)),
                           "ty": CONTEXTS[rng.choice(PARAM_CTX)](P(names[j]))})
        if rng.random() < 0.3:
            params.append({"name": "count", "ty": P("u32")})
        if rng.random() < 0.6:
            ret = CONTEXTS[rng.choice(RET_CTX)](P(names[rng.choice(roots_pool)]))
        elif rng.random() < 0.3:
            ret = P("Result", P("String"), P("String"))
        if rng.random() < 0.25:
            params.append({"name": "on_event", "ty": P("Channel", P(names[rng.choice(roots_pool)]),
                                                       segs=rng.choice([[], ["tauri", "ipc"], ["ipc"]]))})
        if rng.random() < 0.3:
            params.insert(0, {"name": "app", "ty": P("AppHandle", segs=["tauri"])})
        if rng.random() < (0.6 if shape == "dupev" else 0.3) and evnames:
            if not any(p["name"] == "app" for p in params):
                params.insert(0, {"name": "app", "ty": P("AppHandle", segs=["tauri"])})
            if rng.random() < 0.8:
                pay = bind_payload(rng, params, body, rng.choice(file_vars[f]), names[rng.choice(roots_pool)])
                body.append({"emit": evnames.pop(), "recv": "app", "payload": pay})
            else:
                body.append({"emit": evnames.pop(), "recv": "app", "payload": "()"})
        items[f].append({"kind": "fn", "name": c, "attrs": [rng.choice([["tauri", "command"], ["command"]])],
                         "async": rng.random() < 0.5, "vis": "pub", "params": params, "ret": ret, "body": body})
    # emit calls in ordinary functions (harvested as well); payload types become used types
    for _ in range(rng.randint(2, 4) if shape == "dupev" else rng.randint(0, 2)):
        if not evnames:
            break
        f = rng.choice(cmd_files)
        j = rng.randrange(ntypes)
        params, body = [{"name": "app", "ty": P("AppHandle", segs=["tauri"])}], []
        pay = bind_payload(rng, params, body, rng.choice(file_vars[f]), names[j])
        fname = "notify_%s_%d" % (evnames[-1].replace("-", "_").replace(":", "_").replace("/", "_"), len(evnames))
        body.append({"emit": evnames.pop(), "recv": "app", "payload": pay})
        items[f].append({"kind": "fn", "name": fname, "attrs": [], "async": False, "vis": "pub",
                         "params": params, "ret": None, "body": body})
    if shape == "dupcmd" or rng.random() < 0.1:
        add_dup_commands(rng, items, files)
    add_ties(rng, items, files, cmd_files, names)
    config = add_mappings(rng, items, files, cmd_files, names) if rng.random() < 0.6 else {}
    # decoys
    for n in rng.sample(["Hidden", "Internal", "Scratch", "PlainData"], rng.randint(0, 2)):
        f = rng.choice(files)
        items[f].append({"kind": "struct", "name": n, "derives": rng.choice([["Debug", "Clone"], ["Serialize", "Deserialize"], []]),
                         "serde": [], "fields": [{"name": "v", "ty": P("i32"), "serde": [], "validate": []}]})
    if rng.random() < 0.5:
        items[rng.choice(files)].append({"kind": "raw", "text": "fn helper_fn(x: i32) -> i32 { x + 1 }"})
    # helper functions that emit nothing but bind the same identifiers (part of the project itself, so
    # that reordering / moving functions changes what precedes an emitting function)
    for k in range(rng.randint(0, 2)):
        f = rng.choice(cmd_files)
        items[f].append({"kind": "raw", "text": helper_text(rng, "prepare_%d" % k, file_vars[f] + ["evt_payload"], names)})
    for f in files:
        rng.shuffle(items[f])
    case = {"files": items, "config": config}
    if shape == "dup":
        sk = Skeleton(case)
        structs = [(rel, it) for rel in files for it in items[rel] if it["kind"] == "struct" and is_serde(it)
                   and it["name"] in names]
        if structs and nfiles >= 2:
            rel, it = rng.choice(structs)
            others = [f for f in files if f != rel]
            it["fields"].insert(0, {"name": "from_0", "ty": P("i32"), "serde": [], "validate": []})
            for k, f in enumerate(rng.sample(others, min(len(others), rng.randint(1, 2)))):
                tgt = [(names[j], rng.choice(FIELD_CTX)) for j in range(ntypes) if rng.random() < 0.2 and names[j] != it["name"]
                       and not is_enum[j]]
                items[f].append(struct_item(rng, it["name"], tgt, marker="from_%d" % (k + 1)))
    return case, shape


# ----------------------------------------------------------------------------- transformations

NOISE_ITEMS = [
    "// a line comment mentioning #[tauri::command] fn fake() {}",
    "/* block comment\n   #[derive(Serialize)] struct Fake { x: i32 }\n*/",
    "fn plain_helper(a: i32, b: i32) -> i32 {\n    // nothing here\n    a + b\n}",
    "pub(crate) fn other_helper() -> String { String::from(\"x\") }",
    "#[inline]\nfn inlined(v: Vec<u8>) -> usize { v.len() }",
    "#[derive(Debug, Clone, PartialEq)]\npub struct NotSerde { pub a: i32, pub b: String }",
    "pub struct Bare(pub i32);",
    "#[derive(Debug)]\nenum LocalOnly { A, B }",
    "const LIMIT: usize = 10;",
    "static NAME: &str = \"typegen\";",
    "type Alias = Vec<String>;",
    "impl NotSerdeImpl { pub fn new() -> Self { NotSerdeImpl } }\npub struct NotSerdeImpl;",
    "pub trait Marker { fn id(&self) -> u32; }",
    "use std::fmt::Debug;",
    "\n\n\n",
    "#[cfg(test)]\nmod tests {\n    #[test]\n    fn t() { assert_eq!(1 + 1, 2); }\n}",
    "macro_rules! nothing { () => {}; }",
]


def t_noise(rng, case):
    """Insert comments / whitespace / non-command functions / non-serde items at random places."""
    c = copy.deepcopy(case)
    pool = rng.sample(NOISE_ITEMS, rng.randint(2, 6))      # each text at most once (one definition per name)
    for txt in pool:
        f = rng.choice(sorted(c["files"]))
        c["files"][f].insert(rng.randint(0, len(c["files"][f])), {"kind": "raw", "text": txt})
    # helper functions and non-serde decoys that share identifiers with the real items: variable names of
    # the real functions, real (serde) type names and a non-serde decoy type, real function names as prefix
    fns = [(f, i, it) for f in sorted(c["files"]) for i, it in enumerate(c["files"][f]) if it["kind"] == "fn"]
    tnames = sorted({it["name"] for its in c["files"].values() for it in its if it["kind"] in ("struct", "enum")}) or ["String"]
    decoy = "AuditRecord%d" % rng.randint(0, 9)
    vars_all = sorted({p["name"] for _, _, it in fns for p in it.get("params", []) if p["name"] != "app"} |
                      {m.group(1) for _, _, it in fns for st in it.get("body", []) if isinstance(st, str)
                       for m in [re.match(r"^let (?:mut )?(\w+)", st)] if m}) or list(VAR_POOL)
    emitting = sorted({f for f, _, it in fns if any(isinstance(st, dict) for st in it.get("body", []))})
    k = 0
    for f in sorted(c["files"]):
        where = []
        if f in emitting:
            where = [w for w in ("before", "between", "after") if rng.random() < 0.6]
        elif rng.random() < 0.2:
            where = ["between"]
        for w in where:
            prefix = rng.choice([it["name"] for _, _, it in fns] or ["helper"])
            txt = helper_text(rng, "%s_helper_%d" % (prefix, k), vars_all, tnames + [decoy, decoy])
            k += 1
            n = len(c["files"][f])
            pos = 0 if w == "before" else n if w == "after" else rng.randint(0, n)
            c["files"][f].insert(pos, {"kind": "raw", "text": txt})
    if k:
        f = rng.choice(sorted(c["files"]))
        c["files"][f].insert(rng.randint(0, len(c["files"][f])),
                             {"kind": "raw", "text": "#[derive(Debug, Clone, Default)]\npub struct %s {\n    pub line: String,\n}" % decoy})
    if rng.random() < 0.4:
        c["files"]["src/only_noise_%d.rs" % rng.randint(0, 99)] = [{"kind": "raw", "text": "// nothing but a comment\nfn unused() {}"}]
    add_shadows(rng, c)
    return c


SHADOW_TYPE = ["#[derive(Debug, Clone, PartialEq)]\npub enum %s { Alpha, Beta }", "pub enum %s { Only }",
               "#[derive(Debug)]\npub struct %s { pub shadow: u8 }", "pub struct %s;", "pub type %s = u32;",
               "pub mod %s { pub fn inner() {} }", "pub trait %s { fn id(&self) -> u32; }"]
SHADOW_VALUE = ["#[allow(non_upper_case_globals)]\npub const %s: u32 = 7;", "#[allow(non_snake_case)]\npub fn %s() -> u32 { 1 }",
                "#[allow(non_upper_case_globals)]\npub static %s: &str = \"x\";"]


def add_shadows(rng, c):
    """Noise items that SHARE NAMES with real items: non-serde enum / struct / type alias / mod / trait / const /
    fn / static named like a used serde type, a command or an event payload type, put into files that sort
    before and after the real definition (a new first and a new last file among them) and, where Rust's
    namespaces allow it (value namespace next to a braced struct, a module next to a fn), into the same file."""
    files = c["files"]
    where = {}          # name -> files that already hold an item of that name
    types, cmds = [], []
    for rel in sorted(files):
        for it in files[rel]:
            if it["kind"] in ("struct", "enum", "fn"):
                where.setdefault(it["name"], set()).add(rel)
                if it["kind"] == "fn" and is_command(it):
                    cmds.append((it["name"], rel))
                elif it["kind"] != "fn" and is_serde(it):
                    types.append((it["name"], rel, it))
    if not types:
        return
    first, last = "src/aaa_shadow.rs", "src/zzz_shadow.rs"
    for name, rel, it in rng.sample(types, min(len(types), rng.randint(2, 4))):
        targets = [f for f in list(files) + [first, last] if f not in where.get(name, set())]
        for f in rng.sample(targets, min(len(targets), rng.randint(1, 3))) + ([last] if last in targets and rng.random() < 0.7 else []):
            if f in where.get(name, set()):
                continue
            files.setdefault(f, [])
            files[f].insert(rng.randint(0, len(files[f])), {"kind": "raw", "text": rng.choice(SHADOW_TYPE) % name})
            where.setdefault(name, set()).add(f)
        if it["kind"] == "struct" and not it.get("unit") and rng.random() < 0.5:
            k = files[rel].index(it)
            files[rel].insert(rng.choice([k, k + 1]), {"kind": "raw", "text": rng.choice(SHADOW_VALUE) % name})
    for name, rel in rng.sample(cmds, min(len(cmds), 2)):
        targets = [f for f in list(files) + [first, last] if f not in where.get(name, set())]
        if targets:
            f = rng.choice(targets)
            files.setdefault(f, [])
            txt = rng.choice(["pub fn %s(x: u32) -> u32 { x }", "#[allow(non_camel_case_types)]\npub struct %s;",
                              "#[inline]\nfn %s() {}"]) % name
            files[f].insert(rng.randint(0, len(files[f])), {"kind": "raw", "text": txt})
            where.setdefault(name, set()).add(f)
        if rng.random() < 0.4:
            files[rel].append({"kind": "raw", "text": "pub mod %s { pub const INNER: u8 = 1; }" % name})


def t_reorder(rng, case):
    c = copy.deepcopy(case)
    for f in c["files"]:
        rng.shuffle(c["files"][f])
    return c


def t_move(rng, case):
    """Move a few items to other (existing) files."""
    c = copy.deepcopy(case)
    fs = sorted(c["files"])
    if len(fs) < 2:
        return t_split(rng, case)
    for _ in range(rng.randint(1, 4)):
        src = rng.choice(fs)
        if not c["files"][src]:
            continue
        em = [i for i, x in enumerate(c["files"][src]) if x["kind"] == "fn" and any(isinstance(st, dict) for st in x.get("body", []))]
        it = c["files"][src].pop(rng.choice(em) if em and rng.random() < 0.6 else rng.randrange(len(c["files"][src])))
        dst = rng.choice([f for f in fs if f != src])
        c["files"][dst].insert(rng.randint(0, len(c["files"][dst])), it)
    return c


def t_split(rng, case):
    """Split one file into two."""
    c = copy.deepcopy(case)
    fs = [f for f in sorted(c["files"]) if len(c["files"][f]) >= 2]
    if not fs:
        return c
    f = rng.choice(fs)
    its = c["files"][f]
    k = rng.randint(1, len(its) - 1)
    c["files"][f] = its[:k]
    c["files"]["src/split_%d.rs" % rng.randint(0, 99)] = its[k:]
    return c


def t_merge(rng, case):
    """Merge everything into one file (or two files into one)."""
    c = copy.deepcopy(case)
    fs = sorted(c["files"])
    if len(fs) < 2:
        return c
    if rng.random() < 0.5:
        allits = [it for f in fs for it in c["files"][f]]
        c["files"] = {"src/lib.rs": allits}
    else:
        a, b = rng.sample(fs, 2)
        c["files"][a] = c["files"][a] + c["files"].pop(b)
    return c


def t_reverse(rng, case):
    """Reverse the item order of every file."""
    c = copy.deepcopy(case)
    for f in c["files"]:
        c["files"][f].reverse()
    return c


def t_movedef(rng, case):
    """For a type name defined in several files: move the definition of the first file (in path order)
    into a new file whose path sorts last. Every file keeps at most one definition of the name."""
    c = copy.deepcopy(case)
    sk = Skeleton(c)
    dn = sk.dup_names()
    if not dn:
        return c
    n = dn[0]
    rel = sorted((r for r, _ in sk.defs[n]), key=lambda q: q.split("/"))[0]
    i = next(k for k, it in enumerate(c["files"][rel]) if it["kind"] in ("struct", "enum") and it["name"] == n and is_serde(it))
    it = c["files"][rel].pop(i)
    c["files"]["src/zz_moved.rs"] = [it]
    return c


def t_adjdup(rng, case):
    """For a command name defined more than once: move a later definition so that it stands directly after the
    first one (or, if it already does, to the end of the last file)."""
    c = copy.deepcopy(case)
    dn = dup_command_names(c)
    if not dn:
        return c
    n = rng.choice(dn)
    fs = sorted(c["files"], key=lambda q: q.split("/"))
    pos = [(f, i) for f in fs for i, it in enumerate(c["files"][f]) if it["kind"] == "fn" and is_command(it) and it["name"] == n]
    (f0, i0), (f1, i1) = pos[0], pos[-1]
    it = c["files"][f1].pop(i1)
    # adjacent = no other command between the two definitions
    between = [x for f in fs[fs.index(f0):fs.index(f1) + 1] for j, x in enumerate(c["files"][f])
               if x["kind"] == "fn" and is_command(x) and x["name"] != n and (f != f0 or j > i0) and (f != f1 or j < i1)]
    if between:
        c["files"][f0].insert(i0 + 1, it)
    else:
        c["files"][fs[-1]].append(it)
    return c


TRANSFORMS = {"adjdup": t_adjdup, "reorder": t_reorder, "move": t_move, "split": t_split, "merge": t_merge, "reverse": t_reverse,
              "movedef": t_movedef}


if __name__ == "__main__":
    import sys
    rng = random.Random(int(sys.argv[1]) if len(sys.argv) > 1 else 0)
    case, shape = gen_project(rng)
    print(shape)
    for rel, txt in projgen.render_project(case).items():
        print("//", rel)
        print(txt)
    print(json.dumps(Skeleton(case).project))
