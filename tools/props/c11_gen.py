"""C11 case construction: the declared attribute tree (python dicts), its rendering to Rust source and to
the runner's s-expression syntax, and the generators (structured, trigger-bearing, exhaustive, offsets).

field = {"name", "ty", "attrs": [attr]}
ty    = "s" | ["n", rust_name] | "b" | ["v", ty] | ["o", ty] | ["c", name]
attr  = {"k": "validate", "items": [item]} | {"k": "path"} | {"k": "other", "src": "#[serde(default)]"}
item  = {"k": "length"|"range", "args": [arg]} | {"k": "email"|"url", "args": None | [arg]}
      | {"k": "x", "name": ident, "kv": None | [[key, literal_source, value]]}
arg   = {"k": "min"|"max"|"equal", "neg": bool, "lit": text} | {"k": "msg", "lit": literal_source, "value": str}
      | {"k": "code", "lit": literal_source, "value": str}
"""
import itertools

KEYWORDS = ["email", "url", "length", "range", "min", "max", "message"]
NUM_TYPES = ["i8", "i16", "i32", "i64", "u8", "u16", "u32", "u64", "usize", "isize", "f32", "f64", "i128", "u128"]


# ------------------------------------------------------------------ rendering
def ty_rust(t):
    if t == "s":
        return "String"
    if t == "b":
        return "bool"
    if t[0] == "n":
        return t[1]
    if t[0] == "v":
        return "Vec<%s>" % ty_rust(t[1])
    if t[0] == "o":
        return "Option<%s>" % ty_rust(t[1])
    if t[0] == "c":
        return t[1]
    raise ValueError(t)


def ty_sx(t):
    if t in ("s", "b"):
        return t
    if t[0] == "n":
        return "n"
    if t[0] in ("v", "o"):
        return [t[0], ty_sx(t[1])]
    if t[0] == "c":
        return ["c", Q(t[1])]
    raise ValueError(t)


class Q(str):
    """marks a python string that must be written as a quoted s-expression atom"""


def arg_rust(a):
    if a["k"] == "msg":
        return "message = %s" % a["lit"]
    if a["k"] == "code":
        return "code = %s" % a["lit"]
    return "%s = %s%s" % (a["k"], "-" if a["neg"] else "", a["lit"])


def item_rust(i):
    k = i["k"]
    if k in ("length", "range"):
        return "%s(%s)" % (k, ", ".join(arg_rust(a) for a in i["args"]))
    if k in ("email", "url"):
        return k if i["args"] is None else "%s(%s)" % (k, ", ".join(arg_rust(a) for a in i["args"]))
    if i["kv"] is None:
        return i["name"]
    return "%s(%s)" % (i["name"], ", ".join("%s = %s" % (kv[0], kv[1]) for kv in i["kv"]))


def attr_rust(a):
    if a["k"] == "validate":
        return "#[validate(%s)]" % ", ".join(item_rust(i) for i in a["items"])
    if a["k"] == "path":
        return "#[validate]"
    return a["src"]


def struct_rust(fields, name="S"):
    out = ["pub struct %s {" % name]
    for f in fields:
        for a in f["attrs"]:
            out.append("    " + attr_rust(a))
        out.append("    pub %s: %s," % (f["name"], ty_rust(f["ty"])))
    out.append("}")
    return "\n".join(out) + "\n"


def arg_sx(a):
    if a["k"] == "msg":
        return ["msg", Q(a["lit"]), Q(a["value"])]
    if a["k"] == "code":
        return ["code", Q(a["lit"])]
    return [a["k"], bool(a["neg"]), Q(a["lit"])]


def item_sx(i):
    k = i["k"]
    if k in ("length", "range"):
        return [k] + [arg_sx(a) for a in i["args"]]
    if k in ("email", "url"):
        return [k] if i["args"] is None else [k, [arg_sx(a) for a in i["args"]]]
    if i["kv"] is None:
        return ["x", Q(i["name"])]
    return ["x", Q(i["name"]), [[Q(kv[0]), Q(kv[1])] for kv in i["kv"]]]


def attr_sx(a):
    if a["k"] == "validate":
        return ["validate"] + [item_sx(i) for i in a["items"]]
    return "path" if a["k"] == "path" else "other"


def field_sx(f):
    return [ty_sx(f["ty"]), [attr_sx(a) for a in f["attrs"]]]


def sx(v):
    """like vlib.sx but bare atoms for plain str and quoted atoms for Q"""
    from tools.vlib import sx_quote
    if isinstance(v, Q):
        return sx_quote(v.encode("utf-8"))
    if isinstance(v, bool):
        return "true" if v else "false"
    if isinstance(v, int):
        return str(v)
    if isinstance(v, str):
        return v
    if v is None:
        return "()"
    return "(" + " ".join(sx(x) for x in v) + ")"


def declared_literals(f):
    """values of all string literals of the field's validate attributes, in source order"""
    out = []
    for a in f["attrs"]:
        if a["k"] != "validate":
            continue
        for i in a["items"]:
            if i["k"] == "x":
                for kv in i["kv"] or []:
                    out.append(kv[2])
            else:
                for g in i["args"] or []:
                    if g["k"] in ("msg", "code"):
                        out.append(g["value"])
    return out


# ------------------------------------------------------------------ Rust string literals
def lit_of(value, rng=None, style="esc"):
    """A Rust string literal whose value is `value`. style: esc (ordinary literal, minimal escapes:
    only quote, backslash, CR, NUL; LF/TAB as \\n \\t), rich (random use of \\u{..} \\x.. raw LF/TAB),
    raw (r"..." / r#"..."#)."""
    if style == "raw":
        if "\r" in value:
            style = "esc"
        else:
            hashes = 0
            while ('"' + "#" * hashes) in value:
                hashes += 1
            if '"' not in value and "\\" not in value:
                hashes = 0
            return "r" + "#" * hashes + '"' + value + '"' + "#" * hashes
    out = ['"']
    for ch in value:
        o = ord(ch)
        if ch == '"':
            out.append('\\"')
        elif ch == "\\":
            out.append("\\\\")
        elif ch == "\r":
            out.append("\\r")
        elif ch == "\0":
            out.append("\\0")
        elif ch == "\n":
            out.append("\n" if (style == "rich" and rng.random() < 0.3) else "\\n")
        elif ch == "\t":
            out.append("\t" if (style == "rich" and rng.random() < 0.3) else "\\t")
        elif style == "rich" and rng.random() < 0.15:
            if o < 0x80 and rng.random() < 0.5:
                out.append("\\x%02x" % o)
            else:
                out.append("\\u{%x}" % o)
        elif ch == "'" and style == "rich" and rng.random() < 0.3:
            out.append("\\'")
        else:
            out.append(ch)
    out.append('"')
    return "".join(out)


def msg(value, rng=None, style="esc"):
    return {"k": "msg", "lit": lit_of(value, rng, style), "value": value}


def code(value):
    return {"k": "code", "lit": '"%s"' % value, "value": value}


def bound(k, text):
    neg = text.startswith("-")
    return {"k": k, "neg": neg, "lit": text[1:] if neg else text}


def V(*items):
    return {"k": "validate", "items": list(items)}


def length(*args):
    return {"k": "length", "args": list(args)}


def rangev(*args):
    return {"k": "range", "args": list(args)}


def email(args=None):
    return {"k": "email", "args": args}


def url(args=None):
    return {"k": "url", "args": args}


def other(name, kv=None):
    return {"k": "x", "name": name, "kv": None if kv is None else [[k, '"%s"' % v, v] for k, v in kv]}


def F(name, ty, *attrs):
    return {"name": name, "ty": ty, "attrs": list(attrs)}


# ------------------------------------------------------------------ random pieces
CLEAN_WORDS = ["Too", "short", "value", "must", "be", "at", "least", "chars", "long", "between", "and", "invalid",
               "bad", "input", "please", "fix", "1", "5", "100", ">=", "<", "ok", "A-Z", "x", "Name", "field"]
# words and fragments that look like argument keys or key = value pairs but are none of HEAD's scanner keywords
KEYLIKE = ["equal", "equals", "equal = 3,", "equal to 5", "code", "code = 7", "size = 2,", "n = 1", "= 4,", ", 9", "required",
           "nested", "pattern", "path", "other", "function", "custom", "regex", "len", "lenght", "rang", "mi n", "ma x", "e-mail", "u r l",
           "mess age", "limit = 10", "count", "exactly 3"]
CLEAN_CODES = ["too_short", "bad_size", "invalid", "size", "E1001", "equal_size", "out_of_bounds", "code"]
CLEAN_PUNCT = ['"', "'", "\\", "(", ",", "=", ":", ";", "!", "?", "{", "}", "[", "]", "#", "%", "\n", "\t", ".", "/", "<b>"]
MULTI = ["é", "ü", "ß", "€", "中", "文", "\U0001f600", "\U00010348", "́", " ", " "]


def has_trigger(value, lit):
    low = lit
    if any(k in low for k in KEYWORDS):
        return True
    if ")" in lit:
        return True
    return False


def clean_message(rng):
    """message outside every known class: quotes, backslashes, opening parentheses, commas, equals signs,
    LF/TAB and (since the char_indices repair) multi-byte characters are allowed; keywords and closing
    parentheses are not."""
    for _ in range(50):
        n = rng.randint(0, 7)
        parts = []
        for _ in range(n):
            r = rng.random()
            if r < 0.25:
                parts.append(rng.choice(CLEAN_PUNCT))
            elif r < 0.37:
                parts.append(rng.choice(MULTI))
            elif r < 0.55:
                parts.append(rng.choice(KEYLIKE))
            else:
                parts.append(rng.choice(CLEAN_WORDS))
            if rng.random() < 0.7:
                parts.append(" ")
        v = "".join(parts)
        # a backslash in the value becomes \\ in the literal; \\n / \\t in the SOURCE would be class C11-6
        v = v.replace("\\n", "\\ n").replace("\\t", "\\ t")
        lit = lit_of(v)
        if not has_trigger(v, lit) and "\\\\n" not in lit and "\\\\t" not in lit:
            return v
    return "bad value"


def wild_message(rng):
    n = rng.randint(0, 8)
    parts = []
    for _ in range(n):
        r = rng.random()
        if r < 0.25:
            parts.append(rng.choice(KEYWORDS + ["min = 3", "max = 7,", "message = \"x\"", "length(min = 2)", "email)", "url,"]))
        elif r < 0.45:
            parts.append(rng.choice(MULTI))
        elif r < 0.65:
            parts.append(rng.choice(CLEAN_PUNCT + [")", "\\n", "\\t", "\r", "\0", "\\\\"]))
        else:
            parts.append(rng.choice(CLEAN_WORDS))
        if rng.random() < 0.5:
            parts.append(" ")
    return "".join(parts)


INT_BOUNDS = ["0", "1", "2", "3", "5", "8", "10", "16", "50", "64", "100", "255", "256", "1000", "65535", "4294967295",
              "9007199254740991", "9007199254740992", "007", "00"]
BIG_INTS = ["9007199254740993", "18446744073709551615", "18446744073709551614", "9223372036854775807", "123456789012345678"]


def f64_bound(rng, allow_neg, allow_big):
    r = rng.random()
    if r < 0.35:
        t = rng.choice(INT_BOUNDS)
    elif r < 0.6:
        ip = rng.choice(["0", "1", "3", "10", "99", "1234"])
        fp = rng.choice(["5", "25", "1", "01", "999", "125", "10", "000001", "0"])
        t = ip + "." + fp
    elif r < 0.8:
        m = rng.choice(["1", "2", "5", "1.5", "2.25", "12", "9.99"])
        e = rng.choice(["e0", "e1", "e3", "e-3", "E2", "e10", "e21", "e-7", "e+2", "e100", "e-100", "e300"])
        t = m + e
    elif r < 0.9:
        # up to 15 significant digits: exact through f64 Display
        nd = rng.randint(1, 15)
        ds = "".join(rng.choice("0123456789") for _ in range(nd))
        k = rng.randint(0, nd)
        t = (ds[:k] or "0") + "." + (ds[k:] or "0")
    elif allow_big:
        t = rng.choice(BIG_INTS + ["0.1234567890123456789", "1.0000000000000001"])
    else:
        t = rng.choice(INT_BOUNDS)
    if allow_neg and rng.random() < 0.5:
        t = "-" + t
    return t


def u64_bound(rng):
    return rng.choice(INT_BOUNDS + ["18446744073709551615", "12345678901234567890"]) if rng.random() < 0.3 \
        else str(rng.choice([0, 1, 2, 3, 4, 5, 8, 10, 20, 32, 50, 100, 128, 255, 500, 1024]))


def gen_type(rng, kind, wild):
    if kind == "s":
        t = "s"
    elif kind == "n":
        t = ["n", rng.choice(NUM_TYPES)]
    elif kind == "v":
        inner = rng.choice(["s", ["n", "i32"], "b", ["n", "u8"], ["v", "s"], ["c", "Inner"]])
        if rng.random() < (0.5 if wild else 0.25):
            inner = rng.choice([["o", "s"], ["o", ["n", "f64"]], ["v", ["o", "s"]], ["o", ["v", "s"]]])
        t = ["v", inner]
    elif kind == "b":
        t = "b"
    else:
        t = ["c", rng.choice(["Inner", "Address", "Profile"])]
    r = rng.random()
    if r < 0.3:
        t = ["o", t]
    elif r < 0.34:
        t = ["o", ["o", t]]
    return t


OTHER_CLEAN = [("custom", [("function", "check_it")]), ("must_match", [("other", "confirm")]), ("required", None),
               ("nested", None), ("contains", [("pattern", "abc")]), ("does_not_contain", [("pattern", "xyz")]),
               ("credit_card", None), ("non_control_character", None), ("custom", [("function", "crate::v::f")])]
OTHER_WILD = [("custom", [("function", "validate_email")]), ("must_match", [("other", "email_confirm")]),
              ("contains", [("pattern", "url")]), ("custom", [("function", "check_range")]),
              ("custom", [("function", "max_len")]), ("contains", [("pattern", "a)b")]),
              ("must_match", [("other", "password_min")]), ("custom", [("function", "check_length"), ("message", "m")])]


def gen_field(rng, name, wild):
    """wild=False: outside every known class (the theorem's domain); wild=True: triggers allowed."""
    kind = rng.choice(["s", "s", "s", "n", "n", "v", "b", "c"])
    ty = gen_type(rng, kind, wild)
    items = []

    def message():
        if rng.random() < 0.55:
            return []
        if wild:
            v = wild_message(rng) if rng.random() < 0.7 else clean_message(rng)
            style = rng.choice(["esc", "esc", "rich", "raw"])
            return [msg(v, rng, style)]
        return [msg(clean_message(rng))]

    def args_for(boundf):
        args = []
        r = rng.random()
        if r < 0.4:
            args = [bound("min", boundf()), bound("max", boundf())]
        elif r < 0.65:
            args = [bound("min", boundf())]
        elif r < 0.9:
            args = [bound("max", boundf())]
        args += message()
        if rng.random() < 0.2:
            args.append(code(rng.choice(CLEAN_CODES) if not wild else rng.choice(CLEAN_CODES + ["min_len", "max_size", "email_bad", "length", "a)b"])))
        if rng.random() < 0.5:
            rng.shuffle(args)            # message / code first, bounds after is legal
        return args

    def length_item():
        if wild and rng.random() < 0.12:          # length(equal = n): class C11-10
            args = [bound("equal", u64_bound(rng))] + message()
            rng.shuffle(args)
            return length(*args)
        return length(*args_for(lambda: u64_bound(rng)))

    if kind == "s":
        if rng.random() < 0.6:
            items.append(length_item())
        if rng.random() < 0.3:
            items.append(email([msg(clean_message(rng))] if (wild and rng.random() < 0.3) else None))
        if rng.random() < 0.25:
            items.append(url([msg(clean_message(rng))] if (wild and rng.random() < 0.3) else None))
    elif kind == "n":
        if rng.random() < 0.8:
            items.append(rangev(*args_for(lambda: f64_bound(rng, wild, wild))))
    elif kind == "v":
        if rng.random() < 0.7:
            items.append(length_item())
    if rng.random() < 0.2:
        n, kv = rng.choice(OTHER_WILD if (wild and rng.random() < 0.6) else OTHER_CLEAN)
        items.append(other(n, kv))
    rng.shuffle(items)
    attrs = []
    if items:
        # one attribute, or split over several
        if len(items) > 1 and rng.random() < 0.35:
            k = rng.randint(1, len(items) - 1)
            attrs = [V(*items[:k]), V(*items[k:])]
        else:
            attrs = [V(*items)]
    elif rng.random() < 0.1:
        attrs = [rng.choice([{"k": "path"}, V()])]
    if rng.random() < 0.15:
        attrs.insert(rng.randint(0, len(attrs)), {"k": "other", "src": rng.choice(["#[serde(default)]", "#[doc = \"email url length(min = 1)\"]", "#[allow(unused)]"])})
    return F(name, ty, *attrs)


def gen_struct(rng, wild, nmax=5):
    n = rng.randint(1, nmax)
    fields = [gen_field(rng, "f%d" % i, wild and rng.random() < 0.6) for i in range(n)]
    return {"fields": fields}


# ------------------------------------------------------------------ exhaustive small scope
def exhaustive_structs():
    """every combination of length{min,max,message subsets} x email{absent,bare} x url{absent,bare} on String and
    Option<String>; range subsets on numbers; length subsets on Vec; both argument orders; the items in one
    attribute or one attribute each. Grouped five fields to a struct."""
    m = msg("must \"fit\" \\ (1, 2")
    fields = []

    def subsets(mk_min, mk_max):
        out = [None]
        for use_min, use_max, use_msg in itertools.product([0, 1], repeat=3):
            args = ([mk_min] if use_min else []) + ([mk_max] if use_max else []) + ([m] if use_msg else [])
            out.append(args)
            if len(args) > 1:
                out.append(list(reversed(args)))
        return out
    for ty in ("s", ["o", "s"]):
        for la in subsets(bound("min", "2"), bound("max", "30")):
            for e in (0, 1):
                for u in (0, 1):
                    items = ([length(*la)] if la is not None else []) + ([email()] if e else []) + ([url()] if u else [])
                    if not items:
                        fields.append((ty, []))
                        continue
                    for perm in set(itertools.permutations(range(len(items)))):
                        its = [items[i] for i in perm]
                        fields.append((ty, [V(*its)]))
                        if len(its) > 1:
                            fields.append((ty, [V(i) for i in its]))
    for ty in (["n", "i32"], ["n", "f64"], ["o", ["n", "u8"]]):
        for ra in subsets(bound("min", "0.5"), bound("max", "1e3")):
            fields.append((ty, [V(rangev(*ra))] if ra is not None else []))
    for ty in (["v", "s"], ["o", ["v", ["n", "i32"]]], ["v", ["v", "s"]]):
        for la in subsets(bound("min", "1"), bound("max", "8")):
            fields.append((ty, [V(length(*la))] if la is not None else []))
    structs = []
    for i in range(0, len(fields), 5):
        chunk = fields[i:i + 5]
        structs.append({"fields": [F("f%d" % j, ty, *attrs) for j, (ty, attrs) in enumerate(chunk)]})
    return structs


def offset_structs(tier):
    """a multi-byte character (2, 3, 4 bytes) at every offset of ASCII messages of length 0..n"""
    n = 4 if tier == "quick" else 8
    out = []
    for ch in ("é", "€", "\U0001f600"):
        for total in range(0, n + 1):
            fields = []
            for pos in range(0, total + 1):
                base = "abcdefgh"[:total]
                v = base[:pos] + ch + base[pos:]
                fields.append(F("f%d" % pos, "s", V(length(bound("min", "1"), msg(v)))))
            out.append({"fields": fields})
    return out


def order_structs(tier):
    """argument ORDER x key-like message words: every permutation of {message, code?, bounds} for length and range on
    String / Vec / Option fields, with messages built from words a substring scanner could take for a key although
    HEAD's scanners do not (equal, code, required, digits, '=' and ',' ...). All outside every class: must pass."""
    import itertools
    words = KEYLIKE if tier != "quick" else KEYLIKE[:12]
    fields = []
    shapes = [("s", "length", ["2", "30"]), (["v", "s"], "length", ["1", "8"]), (["o", "s"], "length", ["3", "5"]),
              (["n", "i32"], "range", ["0", "1e3"]), (["o", ["n", "f64"]], "range", ["0.5", "99.5"])]
    k = 0
    for w in words:
        for ty, kind, (lo, hi) in shapes:
            for bounds in ([bound("max", hi)], [bound("min", lo)], [bound("min", lo), bound("max", hi)]):
                m = msg("must not be %s to it" % w if k % 2 else "%s 5" % w)
                base = [m] + bounds + ([code("size")] if k % 3 == 0 else [])
                k += 1
                for perm in itertools.permutations(base):
                    if perm[0]["k"] in ("min", "max") and perm[-1]["k"] == "msg":
                        continue          # the usual order is covered by the other streams
                    it = {"k": kind, "args": list(perm)}
                    fields.append((ty, [V(it)]))
    out = []
    for i in range(0, len(fields), 6):
        out.append({"fields": [F("f%d" % j, ty, *attrs) for j, (ty, attrs) in enumerate(fields[i:i + 6])]})
    return out


# ------------------------------------------------------------------ run histories (edits between runs)
SAME_LEN_MSGS = [["too small", "too short", "too large", "not valid", "bad value"], ["no", "ok", "hm"],
                 ["value is out of bounds", "value is not accepted", "please check the size"], ["wrong", "short", "large"]]


def _hist_fields(rng):
    g = rng.choice(SAME_LEN_MSGS)
    g2 = rng.choice(SAME_LEN_MSGS)
    d = lambda: str(rng.randint(1, 9))
    dd = lambda: str(rng.randint(10, 99))
    return [
        F("name", "s", V(length(bound("min", d()), bound("max", dd()), msg(rng.choice(g))))),
        F("age", ["n", rng.choice(["i32", "u8", "f64"])], V(rangev(bound("min", d()), bound("max", dd())))),
        F("tags", ["v", "s"], V(length(bound("min", d()), msg(rng.choice(g))))),
        F("mail", ["o", "s"], V(email(), length(bound("max", dd())))),
        F("note", "s", V(length(bound("max", dd()), msg(rng.choice(g2))))),
    ]


def _args(f, kind):
    for a in f["attrs"]:
        for it in a["items"]:
            if it["k"] == kind:
                return it["args"]
    return None


def _edit(rng, structs):
    """returns (new structs, edit name); same-width edits keep the byte size of types.ts"""
    import copy
    st = copy.deepcopy(structs)
    fields = [f for s in st for f in s["fields"]]
    bounds = [a for f in fields for k in ("length", "range") for a in (_args(f, k) or []) if a["k"] in ("min", "max")]
    msgs = [a for f in fields for k in ("length", "range") for a in (_args(f, k) or []) if a["k"] == "msg"]
    kind = rng.choice(["digit", "digit", "message", "message", "swap-bounds", "swap-messages", "grow-bound", "grow-message", "add-url"])
    if kind == "digit":
        a = rng.choice(bounds)
        last = a["lit"][-1]
        a["lit"] = a["lit"][:-1] + rng.choice([c for c in "123456789" if c != last])
    elif kind == "message":
        a = rng.choice(msgs)
        group = [g for g in SAME_LEN_MSGS if a["value"] in g][0]
        v = rng.choice([m for m in group if m != a["value"]])
        a.update(msg(v))
    elif kind == "swap-bounds":
        same = [(x, y) for i, x in enumerate(bounds) for y in bounds[i + 1:] if len(x["lit"]) == len(y["lit"]) and x["lit"] != y["lit"]]
        if not same:
            return _edit(rng, structs)
        x, y = rng.choice(same)
        x["lit"], y["lit"] = y["lit"], x["lit"]
    elif kind == "swap-messages":
        same = [(x, y) for i, x in enumerate(msgs) for y in msgs[i + 1:] if len(x["value"]) == len(y["value"]) and x["value"] != y["value"]]
        if not same:
            return _edit(rng, structs)
        x, y = rng.choice(same)
        xv, yv = x["value"], y["value"]
        x.update(msg(yv))
        y.update(msg(xv))
    elif kind == "grow-bound":
        a = rng.choice(bounds)
        a["lit"] = a["lit"] + "0"
    elif kind == "grow-message":
        a = rng.choice(msgs)
        a.update(msg(a["value"] + " now"))
    else:
        # a flag is declared at most once per field (in_domain: count <= 1), so url is added only where it is absent
        cand = [f for f in fields if f["name"] == "note" and not any(i["k"] == "url" for a in f["attrs"] if a["k"] == "validate" for i in a["items"])]
        if not cand:
            return _edit(rng, structs)
        f = rng.choice(cand)
        f["attrs"][0]["items"].append(url())
    return st, kind


def history_cases(rng, n):
    out = []
    for _ in range(n):
        structs = [{"fields": _hist_fields(rng)} for _ in range(rng.randint(1, 2))]
        steps = [{"structs": structs, "force": rng.random() < 0.5}]
        edits = []
        for _ in range(rng.randint(1, 2)):
            structs, e = _edit(rng, structs)
            edits.append(e)
            steps.append({"structs": structs, "force": rng.random() < 0.5})
        out.append({"steps": steps, "edits": edits})
    return out
