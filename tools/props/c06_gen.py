"""C06: case generators and the Rust-source printer.
case = {"kind": "struct"|"enum", "cattrs": [[cmeta, ...], ...], "items": [{"ident", "attrs": [[meta, ...], ...]}], "dfc"}
meta  = ["rename", v] | ["skip"] | ["other", name] | ["other", name, v]        (v = VALUE of the string literal)
cmeta = ["ra", v] | ["flag", name]"""
import itertools

RULES = ["lowercase", "UPPERCASE", "PascalCase", "camelCase", "snake_case", "SCREAMING_SNAKE_CASE", "kebab-case", "SCREAMING-KEBAB-CASE"]

# identifier shapes: one word, many words, digits, single letters, acronyms, underscores in odd places
FIELD_IDENTS = ["id", "user_id", "first_last_name", "a", "x1", "user_2fa", "http_url", "_private", "a__b", "trailing_",
                "userName", "myHTTPServer", "URL", "x_y_z", "field1_name2", "i", "__", "r#type", "r#async_fn"]
VARIANT_IDENTS = ["Active", "InProgress", "A", "HTTPError", "V2", "Ok", "MyHTTPServer", "Snake_Case", "lower", "X_Y",
                  "ABC", "A1B2", "NotFound404", "IoError", "x", "UserID", "r#type", "r#Match"]

# values: plain, with skip / rename inside, with characters that need escaping, non-ASCII
PLAIN_VALUES = ["customName", "id", "user-name", "type", "Some Value", "", "a b", "x.y", "123", "Option::is_none",
                "Vec::is_empty", "default_x", "ünï", "日本", "kebab-case", "a=b", "a, b", "it's", "UPPER", "q?"]
SKIP_VALUES = ["skip_me", "is_skip", "skipper", "Self::skip", "skip_serializing_none"]
RENAME_VALUES = ["rename", "my_rename", "rename_all", "rename = \"z\"", "prerename_x"]
ESCAPE_VALUES = ["a\"b", "back\\slash", "\"", "\\", "say \"hi\"", "tab\\t"]


def esc(v):
    return v.replace("\\", "\\\\").replace('"', '\\"')


def lit(v):
    return '"' + esc(v) + '"'


SIDE = {"ser": "serialize", "de": "deserialize"}

# field types: serde writes a key for every field that is not skipped, whatever its type (markers, unit,
# empty arrays, boxes, borrows, options of unit ...); the key set must not depend on the type
FIELD_TYPES = ["String", "i32", "PhantomData<u8>", "std::marker::PhantomData<String>", "core::marker::PhantomData<T0>", "()",
               "[u8; 0]", "Box<String>", "std::borrow::Cow<'static, str>", "&'static str", "Option<()>", "Vec<u8>",
               "(i32, String)", "Option<String>", "[i32; 4]", "std::collections::HashMap<String, i32>", "Option<Box<T0>>"]


def meta_src(m, ws=0):
    """one meta item; ws: 0 usual spacing, 1 tight, 2 loose (proc_macro2 prints all three alike)"""
    eq = [" = ", "=", "  =  "][ws]
    comma = [", ", ",", " ,\n            "][ws]
    op, cl = [("(", ")"), ("(", ")"), (" ( ", " )")][ws]
    if m[0] == "rename":
        return "rename" + eq + lit(m[1])
    if m[0] == "renamep":
        return "rename" + op + comma.join(SIDE[a] + eq + lit(v) for a, v in m[1]) + cl
    if m[0] == "skip":
        return "skip"
    if m[0] == "other":
        return m[1] if len(m) == 2 else m[1] + eq + lit(m[2])
    if m[0] == "ra":
        return "rename_all" + eq + lit(m[1])
    if m[0] == "rap":
        return "rename_all" + op + comma.join(SIDE[a] + eq + lit(v) for a, v in m[1]) + cl
    if m[0] == "flag":
        return m[1]
    if m[0] == "kv":
        return m[1] + eq + lit(m[2])
    if m[0] == "raw":                       # malformed stream: verbatim attribute text
        return m[1]
    raise ValueError(m)


def attr_src(g, ws=0):
    comma = [", ", ",", " ,\n        "][ws]
    op, cl = [("(", ")"), ("(", ")"), (" ( ", " )")][ws]
    return "#[serde%s%s%s]" % (op, comma.join(meta_src(m, ws) for m in g), cl)


# predicates that are FALSE in the compilation the oracle speaks about (no such feature, not a test build):
# rustc drops the gated attribute, serde never sees it, the plain names are written. (A predicate that is true
# there is outside the closed-world premise of the check: the tool cannot evaluate predicates and HEAD
# ignores cfg_attr altogether.)
FALSE_PREDICATES = ['feature = "c06_gated_off"', "any()", "not(all())", 'all(test, feature = "c06_gated_off")', 'target_os = "c06-none"']


def gated_src(gated, ws=0):
    """#[cfg_attr(<false predicate>, serde(..), ..)]: gated = [[predicate, [group, ...]], ...]"""
    comma = [", ", ",", " ,\n        "][ws]
    out = []
    for pred, groups in gated or []:
        inner = comma.join("serde(%s)" % comma.join(meta_src(m, ws) for m in g) for g in groups)
        out.append("#[cfg_attr(%s%s%s)]" % (pred, comma, inner))
    return out


def rust_source(c):
    ws = c.get("ws", 0)
    out = ["use serde::{Deserialize, Serialize};", "use std::marker::PhantomData;", "", "#[derive(Debug, Clone, Serialize, Deserialize)]"]
    gc = gated_src(c.get("cgated"), ws)
    out += gc[:1]                               # one gated attribute before, the others after the real ones
    for g in c.get("cattrs", []):
        out.append(attr_src(g, ws))
    out += gc[1:]
    struct = c["kind"] == "struct"
    out.append("pub %s T0 {" % ("struct" if struct else "enum"))
    for k, it in enumerate(c["items"]):
        gi = gated_src(it.get("gated"), ws)
        out += ["    " + x for x in gi[:1]]
        for g in it.get("attrs", []):
            out.append("    " + attr_src(g, ws))
        out += ["    " + x for x in gi[1:]]
        if struct:
            out.append("    pub %s: %s," % (it["ident"], it.get("ty") or ("String" if k % 2 == 0 else "i32")))
        else:
            # unit, tuple and struct variants (StructParser marks them enum_variant / _tuple / _struct)
            tail = {"unit": "", "tuple": "(u32, String)", "struct": " { x_pos: i32, label: String }"}[it.get("shape", "unit")]
            out.append("    %s%s," % (it["ident"], tail))
    out.append("}")
    out += ["", "#[tauri::command]", "pub fn c06(a: T0) -> T0 {", "    a", "}", ""]
    return "\n".join(out)


# ---------------------------------------------------------------- attribute shapes of the quantifier
def attr_shapes():
    """item-level attribute lists: none, rename, skip, skip_serializing_if, default, default = s,
    pairs in either order, split over two attributes."""
    ren = lambda v: ["rename", v]
    ssi = ["other", "skip_serializing_if", "Option::is_none"]
    dflt = ["other", "default"]
    dflt_s = ["other", "default", "default_x"]
    skip = ["skip"]
    singles = [ren("customName"), ren("user-name"), ren(""), skip, ssi, dflt, dflt_s]
    shapes = [[]]
    for m in singles:
        shapes.append([[m]])
    pairs = [(ren("customName"), ssi), (ren("customName"), dflt), (ren("customName"), dflt_s), (skip, dflt), (ssi, dflt),
             (ssi, dflt_s), (skip, ssi), (ren("n2"), skip)]
    for a, b in pairs:
        shapes.append([[a, b]])
        shapes.append([[b, a]])
        shapes.append([[a], [b]])
        shapes.append([[b], [a]])
    # text that merely contains skip / rename inside another attribute
    shapes.append([[["other", "default", "skip_me"]]])
    shapes.append([[["other", "skip_serializing_if", "is_skip"]]])
    shapes.append([[["other", "default", "rename"], ["other", "alias", "x"]]])
    shapes.append([[["other", "skip_deserializing"]]])
    shapes.append([[["other", "skip_serializing"]]])
    shapes.append([[ren("a\"b")]])
    shapes.append([[ren("skipper")]])
    shapes.append([[ren("rename_all")]])
    shapes.append([[["other", "alias", "other"], ren("r3")]])
    # the parenthesised spelling of rename
    shapes.append([[["renamep", [["ser", "serName"]]]]])
    shapes.append([[["renamep", [["ser", "ser-name"], ["de", "deName"]]], dflt]])
    shapes.append([[dflt], [["renamep", [["de", "same"], ["ser", "same"]]]]])
    shapes.append([[["renamep", [["de", "deName"], ["ser", "serName"]]]]])       # C06-8
    shapes.append([[["renamep", [["de", "deOnly"]]]]])                             # C06-8
    return shapes


def other_rule(rule):
    return RULES[(RULES.index(rule) + 3) % len(RULES)]


def cattrs_for(rule, variant=0, kind="struct"):
    """container attributes in every legal serde spelling: rename_all = .., rename_all(serialize = ..,
    deserialize = ..) with equal / different / one-sided conventions in both orders, other keys (flags,
    tag, container rename, rename_all_fields) before and after, split over several #[serde]."""
    enum = kind == "enum"
    side_key = ["kv", "tag", "type"] if enum else ["kv", "rename", "WireName"]
    if rule is None:
        opts = [[], [[["flag", "deny_unknown_fields"]]], [[side_key]], [[["kv", "rename", "Wire"]], [["flag", "deny_unknown_fields"]]]]
        if enum:
            opts.append([[["kv", "rename_all_fields", "camelCase"]]])                       # C06-9
        return opts[variant % len(opts)]
    ra = ["ra", rule]
    d = other_rule(rule)
    opts = [
        [[ra]],
        [[["flag", "deny_unknown_fields"], ra]],
        [[ra], [["flag", "default"]]],
        [[["flag", "default"]], [ra]],
        [[["rap", [["ser", rule], ["de", rule]]]]],
        [[["rap", [["ser", rule]]], ["flag", "deny_unknown_fields"]]],
        [[["rap", [["ser", rule], ["de", d]]], ["kv", "rename", "Wire"]]],
        [[side_key], [["rap", [["de", rule], ["ser", rule]]]]],
        [[["rap", [["de", d], ["ser", rule]]]]],                                            # C06-8
        [[["rap", [["de", rule]]]]],                                                        # C06-8
    ]
    if enum:
        opts.append([[["kv", "rename_all_fields", d], ra]])                                 # C06-9
        opts.append([[ra, ["kv", "rename_all_fields", d]]])
    return opts[variant % len(opts)]


def has_tag(cattrs):
    return any(m[0] == "kv" and m[1] == "tag" for g in cattrs for m in g)


def shaped(kind, cattrs, ident, attrs, k):
    it = {"ident": ident, "attrs": attrs}
    if kind == "struct":
        it["ty"] = FIELD_TYPES[k % len(FIELD_TYPES)]
    if kind == "enum":
        sh = ["unit", "tuple", "struct"][k % 3]
        if sh == "tuple" and has_tag(cattrs):      # serde rejects tuple variants in internally tagged enums
            sh = "struct"
        it["shape"] = sh
    return it


def typed_fields():
    """field types as a dimension of the key set: every type x a few rules x {no attribute, rename, skip,
    default} next to an ordinary field (seed C06-8: a PhantomData field silently left out)."""
    cases = []
    for ti, ty in enumerate(FIELD_TYPES):
        for ri, rule in enumerate([None, "camelCase", "SCREAMING-KEBAB-CASE"]):
            for ai, attrs in enumerate([[], [[["rename", "renamed-key"]]], [[["skip"]]], [[["other", "default"]]]]):
                items = [{"ident": "first_field", "attrs": []}, {"ident": "marker_field", "attrs": attrs, "ty": ty},
                         {"ident": "last", "attrs": [], "ty": FIELD_TYPES[(ti + 3) % len(FIELD_TYPES)]}]
                cases.append({"kind": "struct", "cattrs": cattrs_for(rule, ri + ai, "struct"), "items": items, "dfc": "snake_case",
                              "ws": (ti + ai) % 3})
    return cases


def gated_cases():
    """serde attributes behind cfg_attr with a false predicate (seed C06-11): gated rename_all / rename / skip on
    containers, fields and variants, alone and next to real attributes; the names must be the plain ones."""
    cases = []
    k = 0
    for kind in ("struct", "enum"):
        idents = ["first_name", "legacy_id", "debug_info"] if kind == "struct" else ["InProgress", "HTTPError", "Idle"]
        for grule in RULES:
            for real_rule in (None, other_rule(grule)):
                for item_gate in ([], [[["rename", "gatedName"]]], [[["skip"]]], [[["renamep", [["ser", "g-ser"]]]], [["other", "default"]]]):
                    pred = FALSE_PREDICATES[k % len(FALSE_PREDICATES)]
                    cattrs = cattrs_for(real_rule, k, kind)
                    items = [shaped(kind, cattrs, idn, [[["other", "default"]]] if (j + k) % 3 == 0 else [], k + j) for j, idn in enumerate(idents)]
                    if item_gate:
                        items[k % 3]["gated"] = [[FALSE_PREDICATES[(k + 2) % len(FALSE_PREDICATES)], item_gate]]
                    cgated = [[pred, [[["ra", grule]]]]]
                    if k % 4 == 1:
                        cgated.append([FALSE_PREDICATES[(k + 1) % 5], [[["flag", "deny_unknown_fields"]], [["ra", other_rule(grule)]]]])
                    cases.append({"kind": kind, "cattrs": cattrs, "cgated": cgated, "items": items, "dfc": "snake_case", "ws": k % 3})
                    k += 1
    return cases


def spellings():
    """every container spelling x rule x kind x variant shape on multi-word identifiers without item
    attributes (the dimension seeds C06-5 / C06-6 live in)."""
    cases = []
    for kind in ("struct", "enum"):
        idents = ["user_id", "first_last_name", "a"] if kind == "struct" else ["TaskStarted", "HTTPError", "A"]
        for rule in [None] + RULES:
            for v in range(12 if rule else 5):
                cattrs = cattrs_for(rule, v, kind)
                for k in range(3 if kind == "enum" else 1):
                    items = [shaped(kind, cattrs, idn, [], k + j) for j, idn in enumerate(idents)]
                    cases.append({"kind": kind, "cattrs": cattrs, "items": items, "dfc": "snake_case", "ws": (v + k) % 3})
    return cases


def exhaustive(thorough):
    cases = []
    shapes = attr_shapes()
    for kind in ("struct", "enum"):
        idents = FIELD_IDENTS if kind == "struct" else VARIANT_IDENTS
        for rule in [None] + RULES:
            for si, shape in enumerate(shapes):
                for ii, ident in enumerate(idents):
                    # quick tier: every shape meets every rule; identifiers rotate so that each
                    # (rule, identifier) and (shape, identifier) pair occurs
                    if not thorough and (si + ii) % 3 != 0 and si != 0:
                        continue
                    cattrs = cattrs_for(rule, si, kind)
                    cases.append({"kind": kind, "cattrs": cattrs, "items": [shaped(kind, cattrs, ident, shape, si + ii)],
                                  "dfc": "snake_case", "ws": (si + 2 * ii) % 3})
    return cases


# ---------------------------------------------------------------- non-ASCII identifiers (deepening round 7)
# in the domain under every field rule and under the PascalCase / lowercase / UPPERCASE variant rules, and under
# camelCase when the first character is ASCII (Spec/C06SerdeRule.v uni_rule_ok); the other combinations are
# generated too and count as correspondence only. No non-ASCII UPPER-case letter after the first position of a
# variant: there the SnakeCase-based rules consult char::is_uppercase, which the byte-level model does not contain.
UNI_FIELD_IDENTS = ["größe_x", "naïve_été", "x_ß", "a_名前", "名前", "été_x", "_ö_b", "user_ñ_id", "r#größe", "ünï"]
UNI_VARIANT_IDENTS = ["Été", "Naïve", "Größe", "A名", "Snake_ünder", "Éa", "HTTPñError", "r#Größe", "Ünï"]


def unicode_cases():
    cases = []
    shapes = [[], [[["other", "default"]]], [[["rename", "re-nämed"]]], [[["skip"]]], [[["other", "alias", "größe"]], [["renamep", [["ser", "s-ü"], ["de", "d"]]]]]]
    k = 0
    for kind in ("struct", "enum"):
        idents = UNI_FIELD_IDENTS if kind == "struct" else UNI_VARIANT_IDENTS
        for rule in [None] + RULES:
            for ii, ident in enumerate(idents):
                for si, shape in enumerate(shapes):
                    if si and (si + ii + k) % 2:
                        continue
                    cattrs = cattrs_for(rule, k, kind)
                    plain = "id" if kind == "struct" else "Done"
                    items = [shaped(kind, cattrs, ident, shape, k), shaped(kind, cattrs, plain, [], k + 1)]
                    cases.append({"kind": kind, "cattrs": cattrs, "items": items, "dfc": "snake_case", "ws": k % 3})
                    k += 1
    return cases


# ---------------------------------------------------------------- size / count thresholds (seed C06-12)
SIZE_WORDS_V = ["Task", "Http", "Io", "User", "Queue", "Started", "Error", "Id", "Moved", "Empty"]
SIZE_WORDS_F = ["user", "id", "http", "url", "first", "last", "name", "queue", "io", "x"]


def sized_cases():
    """containers with MANY items: enums with 8..40 variants and structs with 8..100 fields, plain and Zod, under
    rules and rename / skip mixes that make every wire name differ from its identifier (a layout branch that a
    generator takes only above some member count must still print the serialized names)."""
    cases = []
    k = 0
    for kind, counts, rules in (("enum", [8, 9, 10, 13, 16, 17, 25, 33, 40], [None, "snake_case", "SCREAMING_SNAKE_CASE", "kebab-case", "lowercase"]),
                                ("struct", [8, 9, 16, 17, 33, 100], [None, "camelCase", "PascalCase", "SCREAMING-KEBAB-CASE"])):
        for n in counts:
            for rule in rules:
                cattrs = cattrs_for(rule, 0, kind)
                items = []
                for i in range(n):
                    if kind == "enum":
                        ident = SIZE_WORDS_V[i % 10] + SIZE_WORDS_V[(i // 10 + i + 5) % 10] + (str(i) if i >= 10 else "")
                        if any(it["ident"] == ident for it in items):
                            ident += "X%d" % i
                    else:
                        ident = SIZE_WORDS_F[i % 10] + "_" + SIZE_WORDS_F[(i // 10 + i + 3) % 10] + ("_%d" % i if i >= 10 else "")
                        if any(it["ident"] == ident for it in items):
                            ident += "_y%d" % i
                    attrs = []
                    if (i + k) % 4 == 1 or rule is None and i % 2 == 0:
                        attrs = [[["rename", "wire-%d" % i]]]
                    elif (i + k) % 7 == 3:
                        attrs = [[["skip"]]]
                    elif (i + k) % 5 == 2:
                        attrs = [[["other", "default"]]]
                    items.append(shaped(kind, cattrs, ident, attrs, 0 if kind == "struct" else i + k))
                cases.append({"kind": kind, "cattrs": cattrs, "items": items, "dfc": "snake_case", "ws": k % 3})
                k += 1
    return cases


def config_grid():
    """every container rename_all value (and none) x every default_field_case value on a struct with multi-word
    fields (seed C06-13: a container rule must win over the configured case; without a rule the setting applies
    and the case falls into C06-7)."""
    cases = []
    k = 0
    for rule in [None] + RULES:
        for dfc in RULES + ["bogusCase"]:
            items = [{"ident": "user_id", "attrs": []}, {"ident": "first_last_name", "attrs": [[["other", "default"]]]},
                     {"ident": "display_name", "attrs": [[["rename", "shown-as"]]] if k % 2 else []},
                     {"ident": "tmp_val", "attrs": [[["skip"]]]}, {"ident": "a", "attrs": []}]
            cases.append({"kind": "struct", "cattrs": cattrs_for(rule, k % 4 if rule else 0, "struct"), "items": items, "dfc": dfc, "ws": k % 3})
            k += 1
    return cases


# ---------------------------------------------------------------- random containers
def rand_ident(rng, kind):
    if rng.random() < 0.6:
        return rng.choice(FIELD_IDENTS if kind == "struct" else VARIANT_IDENTS)
    words = [rng.choice(["user", "id", "x", "http", "url", "a", "v2", "name", "io", "b1"]) for _ in range(rng.randint(1, 3))]
    if kind == "struct":
        s = rng.choice(["", "", "", "_"]) + rng.choice(["_", "_", "_", "__"]).join(words)
        if rng.random() < 0.1:
            s = s.upper()
        return s
    style = rng.random()
    if style < 0.7:
        return "".join(w[:1].upper() + w[1:] for w in words)
    if style < 0.85:
        return "".join(w.upper() for w in words)
    return "_".join(w[:1].upper() + w[1:] for w in words)


def rand_value(rng, clean):
    r = rng.random()
    if clean or r < 0.7:
        return rng.choice(PLAIN_VALUES)
    if r < 0.8:
        return rng.choice(SKIP_VALUES)
    if r < 0.9:
        return rng.choice(RENAME_VALUES)
    return rng.choice(ESCAPE_VALUES)


OTHER_FLAGS = ["default", "skip_deserializing", "skip_serializing", "flatten_not", "getter_x"]
OTHER_KV = ["skip_serializing_if", "default", "alias", "with", "serialize_with", "deserialize_with", "bound"]


def rand_meta(rng, clean, have_rename):
    r = rng.random()
    if r < 0.3 and not have_rename:
        if rng.random() < 0.3:           # the parenthesised spelling; clean: serialize first or alone
            sv, dv = rand_value(rng, clean), rand_value(rng, clean)
            forms = [[["ser", sv]], [["ser", sv], ["de", dv]], [["de", sv], ["ser", sv]]]
            if not clean:
                forms += [[["de", dv], ["ser", sv]], [["de", dv]]]
            return ["renamep", rng.choice(forms)]
        return ["rename", rand_value(rng, clean)]
    if r < 0.42:
        return ["skip"]
    if r < 0.6:
        names = ["default"] if clean else OTHER_FLAGS
        return ["other", rng.choice(names)]
    names = ["default", "alias", "with", "bound"] if clean else OTHER_KV
    return ["other", rng.choice(names), rand_value(rng, clean)]


def rand_item(rng, kind, clean, used):
    for _ in range(20):
        ident = rand_ident(rng, kind)
        if ident not in used:
            break
    used.add(ident)
    groups = []
    have_rename = False
    nattrs = rng.choice([0, 0, 1, 1, 1, 2, 3])
    metas = []
    for _ in range(nattrs):
        m = rand_meta(rng, clean, have_rename)
        have_rename |= m[0] in ("rename", "renamep")
        metas.append(m)
    # split over one or several #[serde(..)]
    while metas:
        k = rng.randint(1, len(metas))
        groups.append(metas[:k])
        metas = metas[k:]
    return {"ident": ident, "attrs": groups}


def rand_container(rng, clean):
    kind = rng.choice(["struct", "enum"])
    rule = rng.choice([None] + RULES)
    used = set()
    items = [rand_item(rng, kind, clean, used) for _ in range(rng.randint(1, 5))]
    # clean: the spellings outside C06-8 / C06-9 (variants 0-7 with a rule, 0-3 without)
    v = rng.randrange(8 if rule else 4) if clean else rng.randrange(12)
    cattrs = cattrs_for(rule, v, kind)
    if kind == "struct":
        for it in items:
            if rng.random() < 0.4:
                it["ty"] = rng.choice(FIELD_TYPES)
    if kind == "enum":
        for it in items:
            it["shape"] = rng.choice(["unit", "unit", "tuple", "struct"])
            if it["shape"] == "tuple" and has_tag(cattrs):
                it["shape"] = "struct"
    c = {"kind": kind, "cattrs": cattrs, "items": items, "dfc": "snake_case", "ws": rng.randrange(3)}
    if rng.random() < 0.15:
        c["cgated"] = [[rng.choice(FALSE_PREDICATES), [[["ra", rng.choice(RULES)]]]]]
        it = rng.choice(items)
        it["gated"] = [[rng.choice(FALSE_PREDICATES), [[rng.choice([["rename", "gatedName"], ["skip"]])]]]]
    return c


def random_cases(rng, n):
    # 75% of the containers avoid every trigger of a recorded class (the theorem's domain)
    return [rand_container(rng, rng.random() < 0.75) for _ in range(n)]


def config_cases(rng, n):
    """other default_field_case settings, unknown ones included (oracle applied; class C06-7 where the
    setting changes a field of a struct without rename_all)."""
    out = []
    for _ in range(n):
        c = rand_container(rng, True)
        if rng.random() < 0.5:            # where the setting matters: a struct without rename_all
            c["kind"] = "struct"
            c["cattrs"] = cattrs_for(None, rng.randrange(2))
            for it in c["items"]:
                it.pop("shape", None)
                it["ident"] = it["ident"].lower() if it["ident"][:2] != "r#" else it["ident"]
        c["dfc"] = rng.choice(RULES + ["camelcase", "", "Snake_Case"])
        out.append(c)
    return out


# ---------------------------------------------------------------- malformed / out-of-domain attribute text
RAW_ATTRS = [
    'rename _all = "x"', 'rename', 'rename = ', 'rename = 5', 'rename(serialize = "s", deserialize = "d")',
    'rename_all = "camelCase"', 'rename_all = "nope"', 'rename_all', 'skip = "x"', 'skip_serializing_if', 'rename = "a" "b"',
    'rename_all = "lowercase", rename = "x"', 'rename = r"raw"', 'rename = r#"ra"w"#', 'other(rename = "in")', 'rename = b"bytes"',
    'default = "rename_all = \\"x\\""', 'rename_all = "SCREAMING_SNAKE_CASE", rename_all = "lowercase"', 'skip, skip',
    'rename = "one", rename = "two"', '', 'alias = "rename", alias = "y"', 'rename_all(serialize = "UPPERCASE")',
    'rename="tight"', 'skip,default', 'rename = "éè" , rename_all = "z"', 'default = "rename\t_alléx"',
]


def malformed_cases(rng, n):
    out = []
    for k in range(n):
        kind = rng.choice(["struct", "enum"])
        used = set()
        items = []
        for _ in range(rng.randint(1, 3)):
            it = rand_item(rng, kind, False, used)
            if rng.random() < 0.7:
                g = [["raw", rng.choice(RAW_ATTRS)]]
                it["attrs"].insert(rng.randint(0, len(it["attrs"])), g)
            items.append(it)
        cattrs = cattrs_for(rng.choice([None] + RULES), rng.randrange(4))
        if rng.random() < 0.5:
            cattrs.insert(rng.randint(0, len(cattrs)), [["raw", rng.choice(RAW_ATTRS)]])
        out.append({"kind": kind, "cattrs": cattrs, "items": items, "dfc": "snake_case"})
    return out
