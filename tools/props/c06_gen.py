"""C06: case generators and the Rust-source printer.
case = {"kind": "struct"|"enum", "cattrs": [[cmeta, ...], ...], "items": [{"ident", "attrs": [[meta, ...], ...]}], "dfc"}
meta  = ["rename", v] | ["skip"] | ["other", name] | ["other", name, v]        (v = VALUE of the string literal)
cmeta = ["ra", v] | ["flag", name]"""
import itertools

RULES = ["lowercase", "UPPERCASE", "PascalCase", "camelCase", "snake_case", "SCREAMING_SNAKE_CASE", "kebab-case", "SCREAMING-KEBAB-CASE"]

# identifier shapes: one word, many words, digits, single letters, acronyms, underscores in odd places
FIELD_IDENTS = ["id", "user_id", "first_last_name", "a", "x1", "user_2fa", "http_url", "_private", "a__b", "trailing_",
                "userName", "myHTTPServer", "URL", "x_y_z", "field1_name2", "i", "__", "r#type", "r#async_fn"]
VARIANT_IDENTS = ["Active", "InProgress", "A", "HTTPError", "V2", "Ok", "MyHTTPServer", "Snake_Case", "lower", "X_Y",
                  "ABC", "A1B2", "NotFound404", "IoError", "x", "UserID", "r#type", "r#Match"]

# values: plain, with skip / rename inside, with characters that need escaping, non-ASCII
PLAIN_VALUES = ["customName", "id", "user-name", "type", "Some Value", "", "a b", "x.y", "123", "Option::is_none",
                "Vec::is_empty", "default_x", "ünï", "日本", "kebab-case", "a=b", "a, b", "it's", "UPPER", "q?"]
SKIP_VALUES = ["skip_me", "is_skip", "skipper", "Self::skip", "skip_serializing_none"]
RENAME_VALUES = ["rename", "my_rename", "rename_all", "rename = \"z\"", "prerename_x"]
ESCAPE_VALUES = ["a\"b", "back\\slash", "\"", "\\", "say \"hi\"", "tab\\t"]


def esc(v):
    return v.replace("\\", "\\\\").replace('"', '\\"')


def lit(v):
    return '"' + esc(v) + '"'


def meta_src(m):
    if m[0] == "rename":
        return "rename = " + lit(m[1])
    if m[0] == "skip":
        return "skip"
    if m[0] == "other":
        return m[1] if len(m) == 2 else m[1] + " = " + lit(m[2])
    if m[0] == "ra":
        return "rename_all = " + lit(m[1])
    if m[0] == "flag":
        return m[1]
    if m[0] == "raw":                       # malformed stream: verbatim attribute text
        return m[1]
    raise ValueError(m)


def rust_source(c):
    out = ["use serde::{Deserialize, Serialize};", "", "#[derive(Debug, Clone, Serialize, Deserialize)]"]
    for g in c.get("cattrs", []):
        out.append("#[serde(%s)]" % ", ".join(meta_src(m) for m in g))
    struct = c["kind"] == "struct"
    out.append("pub %s T0 {" % ("struct" if struct else "enum"))
    for k, it in enumerate(c["items"]):
        for g in it.get("attrs", []):
            out.append("    #[serde(%s)]" % ", ".join(meta_src(m) for m in g))
        if struct:
            out.append("    pub %s: %s," % (it["ident"], "String" if k % 2 == 0 else "i32"))
        else:
            out.append("    %s," % it["ident"])
    out.append("}")
    out += ["", "#[tauri::command]", "pub fn c06(a: T0) -> T0 {", "    a", "}", ""]
    return "\n".join(out)


# ---------------------------------------------------------------- attribute shapes of the quantifier
def attr_shapes():
    """item-level attribute lists: none, rename, skip, skip_serializing_if, default, default = s,
    pairs in either order, split over two attributes."""
    ren = lambda v: ["rename", v]
    ssi = ["other", "skip_serializing_if", "Option::is_none"]
    dflt = ["other", "default"]
    dflt_s = ["other", "default", "default_x"]
    skip = ["skip"]
    singles = [ren("customName"), ren("user-name"), ren(""), skip, ssi, dflt, dflt_s]
    shapes = [[]]
    for m in singles:
        shapes.append([[m]])
    pairs = [(ren("customName"), ssi), (ren("customName"), dflt), (ren("customName"), dflt_s), (skip, dflt), (ssi, dflt),
             (ssi, dflt_s), (skip, ssi), (ren("n2"), skip)]
    for a, b in pairs:
        shapes.append([[a, b]])
        shapes.append([[b, a]])
        shapes.append([[a], [b]])
        shapes.append([[b], [a]])
    # text that merely contains skip / rename inside another attribute
    shapes.append([[["other", "default", "skip_me"]]])
    shapes.append([[["other", "skip_serializing_if", "is_skip"]]])
    shapes.append([[["other", "default", "rename"], ["other", "alias", "x"]]])
    shapes.append([[["other", "skip_deserializing"]]])
    shapes.append([[["other", "skip_serializing"]]])
    shapes.append([[ren("a\"b")]])
    shapes.append([[ren("skipper")]])
    shapes.append([[ren("rename_all")]])
    shapes.append([[["other", "alias", "other"], ren("r3")]])
    return shapes


def cattrs_for(rule, variant=0):
    if rule is None:
        return [] if variant == 0 else [[["flag", "deny_unknown_fields"]]]
    ra = ["ra", rule]
    return [[[ra]], [[["flag", "deny_unknown_fields"], ra]], [[ra], [["flag", "default"]]], [[["flag", "default"]], [ra]]][variant % 4]


def exhaustive(thorough):
    cases = []
    shapes = attr_shapes()
    for kind in ("struct", "enum"):
        idents = FIELD_IDENTS if kind == "struct" else VARIANT_IDENTS
        for rule in [None] + RULES:
            for si, shape in enumerate(shapes):
                for ii, ident in enumerate(idents):
                    # quick tier: every shape meets every rule; identifiers rotate so that each
                    # (rule, identifier) and (shape, identifier) pair occurs
                    if not thorough and (si + ii) % 3 != 0 and si != 0:
                        continue
                    cases.append({"kind": kind, "cattrs": cattrs_for(rule, si), "items": [{"ident": ident, "attrs": shape}],
                                  "dfc": "snake_case"})
    return cases


# ---------------------------------------------------------------- random containers
def rand_ident(rng, kind):
    if rng.random() < 0.6:
        return rng.choice(FIELD_IDENTS if kind == "struct" else VARIANT_IDENTS)
    words = [rng.choice(["user", "id", "x", "http", "url", "a", "v2", "name", "io", "b1"]) for _ in range(rng.randint(1, 3))]
    if kind == "struct":
        s = rng.choice(["", "", "", "_"]) + rng.choice(["_", "_", "_", "__"]).join(words)
        if rng.random() < 0.1:
            s = s.upper()
        return s
    style = rng.random()
    if style < 0.7:
        return "".join(w[:1].upper() + w[1:] for w in words)
    if style < 0.85:
        return "".join(w.upper() for w in words)
    return "_".join(w[:1].upper() + w[1:] for w in words)


def rand_value(rng, clean):
    r = rng.random()
    if clean or r < 0.7:
        return rng.choice(PLAIN_VALUES)
    if r < 0.8:
        return rng.choice(SKIP_VALUES)
    if r < 0.9:
        return rng.choice(RENAME_VALUES)
    return rng.choice(ESCAPE_VALUES)


OTHER_FLAGS = ["default", "skip_deserializing", "skip_serializing", "flatten_not", "getter_x"]
OTHER_KV = ["skip_serializing_if", "default", "alias", "with", "serialize_with", "deserialize_with", "bound"]


def rand_meta(rng, clean, have_rename):
    r = rng.random()
    if r < 0.3 and not have_rename:
        return ["rename", rand_value(rng, clean)]
    if r < 0.42:
        return ["skip"]
    if r < 0.6:
        names = ["default"] if clean else OTHER_FLAGS
        return ["other", rng.choice(names)]
    names = ["default", "alias", "with", "bound"] if clean else OTHER_KV
    return ["other", rng.choice(names), rand_value(rng, clean)]


def rand_item(rng, kind, clean, used):
    for _ in range(20):
        ident = rand_ident(rng, kind)
        if ident not in used:
            break
    used.add(ident)
    groups = []
    have_rename = False
    nattrs = rng.choice([0, 0, 1, 1, 1, 2, 3])
    metas = []
    for _ in range(nattrs):
        m = rand_meta(rng, clean, have_rename)
        have_rename |= m[0] == "rename"
        metas.append(m)
    # split over one or several #[serde(..)]
    while metas:
        k = rng.randint(1, len(metas))
        groups.append(metas[:k])
        metas = metas[k:]
    return {"ident": ident, "attrs": groups}


def rand_container(rng, clean):
    kind = rng.choice(["struct", "enum"])
    rule = rng.choice([None] + RULES)
    used = set()
    items = [rand_item(rng, kind, clean, used) for _ in range(rng.randint(1, 5))]
    return {"kind": kind, "cattrs": cattrs_for(rule, rng.randrange(4)), "items": items, "dfc": "snake_case"}


def random_cases(rng, n):
    # 75% of the containers avoid every trigger of a recorded class (the theorem's domain)
    return [rand_container(rng, rng.random() < 0.75) for _ in range(n)]


def config_cases(rng, n):
    """other default_field_case settings, unknown ones included (oracle applied; class C06-7 where the
    setting changes a field of a struct without rename_all)."""
    out = []
    for _ in range(n):
        c = rand_container(rng, True)
        if rng.random() < 0.5:            # where the setting matters: a struct without rename_all
            c["kind"] = "struct"
            c["cattrs"] = cattrs_for(None, rng.randrange(2))
            for it in c["items"]:
                it["ident"] = it["ident"].lower() if it["ident"][:2] != "r#" else it["ident"]
        c["dfc"] = rng.choice(RULES + ["camelcase", "", "Snake_Case"])
        out.append(c)
    return out


# ---------------------------------------------------------------- malformed / out-of-domain attribute text
RAW_ATTRS = [
    'rename _all = "x"', 'rename', 'rename = ', 'rename = 5', 'rename(serialize = "s", deserialize = "d")',
    'rename_all = "camelCase"', 'rename_all = "nope"', 'rename_all', 'skip = "x"', 'skip_serializing_if', 'rename = "a" "b"',
    'rename_all = "lowercase", rename = "x"', 'rename = r"raw"', 'rename = r#"ra"w"#', 'other(rename = "in")', 'rename = b"bytes"',
    'default = "rename_all = \\"x\\""', 'rename_all = "SCREAMING_SNAKE_CASE", rename_all = "lowercase"', 'skip, skip',
    'rename = "one", rename = "two"', '', 'alias = "rename", alias = "y"', 'rename_all(serialize = "UPPERCASE")',
    'rename="tight"', 'skip,default', 'rename = "éè" , rename_all = "z"', 'default = "rename\t_alléx"',
]


def malformed_cases(rng, n):
    out = []
    for k in range(n):
        kind = rng.choice(["struct", "enum"])
        used = set()
        items = []
        for _ in range(rng.randint(1, 3)):
            it = rand_item(rng, kind, False, used)
            if rng.random() < 0.7:
                g = [["raw", rng.choice(RAW_ATTRS)]]
                it["attrs"].insert(rng.randint(0, len(it["attrs"])), g)
            items.append(it)
        cattrs = cattrs_for(rng.choice([None] + RULES), rng.randrange(4))
        if rng.random() < 0.5:
            cattrs.insert(rng.randint(0, len(cattrs)), [["raw", rng.choice(RAW_ATTRS)]])
        out.append({"kind": kind, "cattrs": cattrs, "items": items, "dfc": "snake_case"})
    return out
