"""C02 - generated modules are closed; nothing is declared twice.
Implementation side: the real CLI binary run in a sandbox on closed-world projects, both modes;
its four files are parsed by the Coq module parser and summarised/judged by the extracted oracle
(Spec/C02Closed.v closed_b, nodup_b). Model side: Model/C02Model.v (set-level export/reference
sets per file and mode, defects included). Correspondence: equal canonical summaries (exports as
multisets; imports, non-built-in references, re-exports as sets) of every file; inside the class
where an emitted type is not a type at all the model only predicts that the oracle fails."""
import json
import os
import random

from tools import vlib
from tools import projgen as pg
from tools.vlib import Outcome, sx
from tools.props import c02_gen as G

MANIFEST = {
    "level_text": "Coq theorems (Properties/C02.v, 17 obligations, no axioms) about a set-level Gallina model of what types.ts, commands.ts, events.ts and index.ts export, import and mention in each mode (faithful to the repaired code, remaining defects included). C02_closed (both modes; instances C02_closed_zod, C02_closed_plain): for every well-formed project whose types are of the documented type language (dom), in which every named type used is a serde struct/enum of the project or covered by a type mapping (closed_world, the premise of the property text), and which lies outside the four recorded defect classes, every reference of every generated module resolves (types.ts: declaration, import or built-in; commands.ts/events.ts: types.X exported by types.ts, Zod schemas and inferred aliases of enums and structs included), index.ts re-exports exactly the files written (C02_index_exact: unconditionally), and no module declares an exported name twice. The proof goes through C02_closed_world_declares (harvester, parser, resolve_types_lazily closure and collect_used_types closure agree: every mentioned custom name is declared), which uses the C07 worker's theorems parse_tts_faithful and harvest_names for the repaired splitter and a fixed-point argument for the bounded closure. The boolean oracle is proved equivalent to the Prop-level definitions (C02_oracle_closed_iff, C02_oracle_nodup_iff). C02_reuse_closed: the same conclusion for every round of ONE analyzer and generator reused over a history of analyse+generate rounds (Model/C02Reuse.v: state machine of what HEAD accumulates - AST cache that keeps removed files, discovered structs that keep their first definition, accumulated events; a round is observed through the view of the state under the round's mappings), for histories outside the class C02-9 (kf_reuse_maps, a Gallina predicate; refuted inside the class by C02_reuse_refuted) whose rounds only add names that are discovered or mapped (fresh_ok, decidable); the closed-world premise of each round's view is not assumed but carried as an invariant through the fold of the rounds (C02_reuse_closed_world_invariant). The model and the oracle are tied to /repo on every run: the real CLI is run on closed-world projects (custom types at every structural position of every site, enums, events, channels, type mappings, adversarial names, multi-file projects in several fresh processes) and the parsed files must have exactly the export/import/reference sets the model predicts; the reused library objects (harness c02-reuse) must produce, in every round of every reuse history, exactly the summaries of the state machine.",
    "design_ref": "DESIGN.md section 5 C02, section 12",
    "level_note": "Full at the level of name sets. Reuse: fresh_ok (what a round adds mentions only discovered or mapped names) is a decidable premise evaluated on every round at run time, not yet derived from the round's sources (C02_reuse_fresh_full_statement is stated, not asserted: needs the completeness of resolve_types_lazily relativised to names not yet discovered); wf / dom / outside-the-classes are asked of each round's view. Not covered by a theorem: that a rendered type text lexes to exactly the names the model lists (C01/C05's business; covered here by the correspondence run and the add_types_prefix small-scope stream); function bodies are token sequences in which only types.X members, call heads and instanceof operands are resolved; the type-language premise dom excludes qualified paths (std::collections::HashMap), unknown generic heads (DateTime<Utc>), lower-case type names and bare container names - outside dom only C02_closed_if_declared (decidable side condition refs_declared) applies. Model/C07TypeParse.v and Model/C07Harvest.v (parser and harvester) are the C07 worker's models, imported read-only together with their faithfulness theorems. Cross-module ambiguity through index.ts's two export * and import/declaration conflicts are observed and compared with the model but not judged: the property text speaks of names a module declares.",
    "technique": "Rocq/Coq proof over hand-written model + correspondence check (extracted OCaml oracle on the real CLI's output vs extracted model)"
}

RULE = ("corpus: one witness per recorded finding; adversarial: 40 hand-written naming/shape projects x 2 modes; positions: every "
        "(site in param/return/field/channel/event) x (18 constructor contexts of projgen.CONTEXTS) x (struct|enum leaf) x 2 modes, "
        "exhaustively; crossfile: multi-file projects in which every root type (per root kind: parameter / return / channel message / event payload "
        "through a helper fn, a command, a struct literal / emit_to) and every dependency is defined in another file than the function or type that "
        "mentions it - 33-case matrix + 40 (quick) / 400 (thorough) random ones, x 2 modes, each run in 4 (quick) / 16 (thorough) fresh processes "
        "(hash orders), a failure in any run counts; multisite: one event name emitted from 2 or 3 sites with different payload types (each with a "
        "nested dependency, reachable from nothing else), every order of the sites x one file | one file per site x helper | struct literal | emit_to, "
        "49 projects x 2 modes x 2 processes; mappedcount: COUNT relations between the type collector's collections - 2..6 distinct type-mapped external names (PathBuf, Uuid, Url, Decimal, NaiveDate, Duration) directly in command signatures (parameters of one command / own commands / returns and containers) beside FEW structs: one command-used struct above a chain of nested-only types of length 2..4 (struct or enum at the bottom), no error or event-only struct, 60 projects x 2 modes x 6 (quick) / 16 (thorough) fresh processes (hash order of the worklist); rebinding: emitting functions whose payload variable is typed by a parameter / typed let / struct literal / path call and then re-bound by 0..2 "
        "further lets (untypable method or plain call, reference, copy of another variable, struct literal, typed let) in every order, emitted by value or "
        "by reference (220 projects x 2 modes); layout: serde types defined below module directories named dist, node_modules, build, out, gen, vendor, "
        "tests, examples, benches, bin, .cargo, target2, my_target, git, foo.rs, src, lib (flat, nested, doubled; 51 projects x 2 modes); "
        "names: a project-defined serde struct / enum named like a std or ecosystem type, a TypeScript global, a primitive look-alike or a tool-internal name "
        "(76 names x struct|enum x 2 modes; among them names that merely contain a special name as prefix, suffix or infix: MapMarker, RecordingState, PromiseLike, RoadMap, ...), unmapped, at every site kind; derives: 13 legal spellings of the serde derive (path-qualified, one trait only, "
        "split over attributes, spacing, trailing commas, multi-line) on a struct and an enum used as parameter, return, field, payload (x 2 modes); "
        "reuse: ONE CommandAnalyzer and ONE generator (library API, harness c02-reuse) taken through 2-3 analyse+generate rounds on edited sources - payload struct "
        "renamed / removed, event removed and re-added with another payload, a type added to an existing file and used from a new file, a field of a new type, "
        "addition then removal, a file removed, another project (and back), the same project again - 11 histories on each of 15 (quick) / 123 (thorough) base "
        "projects x 2 modes, closedness and duplicate-freedom judged after EVERY round, and the four summaries of every round compared with the extracted state machine of the accumulated analyzer state (Model/C02Reuse.v); "
        "history: 60 (quick) / 600 (thorough) two-generation histories into one output directory (event removed / "
        "added / unrelated project / same project; same or other mode), the second run is judged: the files it wrote (marker technique) against the "
        "model of the second project, index.ts against exactly those files; random: 600 (quick) / 6000 (thorough) projgen graph projects with events, channels, enums, type mappings, 70% clean contexts / 30% wild, x 2 modes; "
        "atp: add_types_prefix through the real Tera filter on every Rust type of depth <= 2 (quick) / 3 (thorough) over 8 constructors and "
        "3 leaves, compared with the shape-level transcription. A case is non-trivial when it declares at least one custom type; "
        "distinct = distinct (project, mode) pairs")
TRUSTED = ["Spec/TsLex.v + TsModule.v (module parser) and Spec/C02Closed.v summarise: a model of TypeScript's module/name resolution, not proved against tsc (none in the sandbox)",
           "tools/props/c02_gen.py + tools/projgen.py: Rust source printer and the s-expression encoding of the same case"]
ASSUMPTIONS = ["the set of TypeScript built-in names is Spec/C02Closed.v builtin_names",
               "type names and command names are unique per project; event names mangle to identifiers; mapping targets are string/number/boolean/void (wf)"]

KF_ORDER = ["C02-2", "C02-6", "C02-7", "C02-8"]   # order of the kf flags in c02_model
FILES = ("types.ts", "commands.ts", "events.ts", "index.ts")
DEV = bool(os.environ.get("C02_SKIP_BUILD"))
DOM_COUNT = {}


def build():
    vlib.build_repo_bin()
    if not DEV:
        vlib.build_runner("c02")
        vlib.build_harness("c02")


# ----------------------------------------------------------------------------- evaluation

def run_impl(job):
    case, mode = job
    with vlib.Sandbox("c02") as sb:
        r = pg.generate(sb, G.render_ready(case), mode)
    return r


MARK = "\n// C02-NOT-WRITTEN-BY-THIS-RUN\n"


def run_impl_history(job):
    """Two generations into one output directory; the observation is what the SECOND run wrote.
    Before the second run every file of the output directory gets a marker appended: a file that
    still carries it afterwards was not written by the second run (reported under "stale")."""
    import shutil
    first, m1, second, m2 = job
    with vlib.Sandbox("c02h") as sb:
        pg.generate(sb, G.render_ready(first), m1)
        shutil.rmtree(sb.path("proj"), ignore_errors=True)
        if os.path.exists(sb.path("tauri.conf.json")):
            os.remove(sb.path("tauri.conf.json"))
        od = sb.path("out")
        if os.path.isdir(od):
            for n in os.listdir(od):
                fp = os.path.join(od, n)
                if os.path.isfile(fp):
                    with open(fp, "a") as f:
                        f.write(MARK)
        r = pg.generate(sb, G.render_ready(second), m2)
    stale = {n: t for n, t in r["files"].items() if MARK.strip() in t}
    r["files"] = {n: t for n, t in r["files"].items() if n not in stale}
    r["stale"] = stale
    return r


def canon_fobs(f):
    if f[0] != "parsed":
        return [f[0]]
    ex, im, star, re_, refs = f[1]
    return ["parsed", sorted(ex), sorted(set(im)), sorted(set(tuple(x) for x in star)), sorted(re_), sorted(set(refs))]


def canon_report(rep):
    files, closed, nodup, unres, dups, amb, conf = rep
    return {"files": [canon_fobs(f) for f in files], "closed": closed == "true", "nodup": nodup == "true",
            "unresolved": [sorted(set(u)) for u in unres], "dups": [sorted(d) for d in dups],
            "index_ambiguous": sorted(set(amb)), "import_decl_conflicts": sorted(set(conf))}


def judge_one(r, irep, mrep, broken):
    """One run of the real CLI against the model's prediction: (ok, corr, why)."""
    generated = r["status"] == 0 and "types.ts" in r["files"]
    ok = generated and irep["closed"] and irep["nodup"]
    if broken:
        return ok, not ok, "model: some emitted type is not a type; predicts only that the oracle fails"
    same = all(irep[k] == mrep[k] for k in ("files", "closed", "nodup", "index_ambiguous", "import_decl_conflicts"))
    corr = generated and same
    return ok, corr, (None if corr else "summaries differ")


def evaluate(jobs, reps=1, history=None):
    """jobs: list of (label, case, mode). Each job is run `reps` times, every run in a fresh
    process of the real CLI (fresh hash seeds, hence fresh iteration orders of the file cache and of
    every HashMap/HashSet); the property must hold and the model must be matched in EVERY run.
    The reported observation is that of the first failing run. Returns Outcomes."""
    if history is not None:
        impl = vlib.pmap(run_impl_history, [history[label] for label, _, _ in jobs for _ in range(reps)])
    else:
        impl = vlib.pmap(run_impl, [(c, m) for _, c, m in jobs for _ in range(reps)])
    judge_in = [sx([[r["files"][n]] if n in r["files"] else [] for n in FILES]) for r in impl]
    model_in = [sx(G.model_sx(case, mode)) for _, case, mode in jobs]
    judged = vlib.run_runner("c02-judge", judge_in)
    modeled = vlib.run_runner("c02-model", model_in)
    outs = []
    for k, ((label, case, mode), m) in enumerate(zip(jobs, modeled)):
        c = {"label": label, "mode": mode, "files": case["files"], "config": case.get("config", {})}
        if reps > 1:
            c["reps"] = reps
        if history is not None:
            first, m1, _, _ = history[label]
            c["first_generation"] = {"mode": m1, "files": first["files"], "config": first.get("config", {})}
        if m and m[0] == "runner-error":
            raise vlib.BuildError("runner: %s" % (m[:2],))
        wf, cw, broken = (x == "true" for x in m[0:3])
        kfs = [x == "true" for x in m[3]]
        refs_declared = m[4] == "true"
        in_dom = len(m) > 8 and m[8] == "true"
        DOM_COUNT[in_dom] = DOM_COUNT.get(in_dom, 0) + 1
        mrep = canon_report(m[5])
        if not (wf and cw):
            raise AssertionError("generator produced a case outside the premise (wf=%s closed_world=%s): %s" % (wf, cw, label))
        kf = next((KF_ORDER[i] for i, b in enumerate(kfs) if b), None)
        ok = corr = True
        shown = None
        nbad = 0
        for r, j in zip(impl[k * reps:(k + 1) * reps], judged[k * reps:(k + 1) * reps]):
            if j and j[0] == "runner-error":
                raise vlib.BuildError("runner: %s" % (j[:2],))
            irep = canon_report(j)
            ok1, corr1, why1 = judge_one(r, irep, mrep, broken)
            if not (ok1 and corr1):
                nbad += 1
            if shown is None or (shown[2] and shown[3] and not (ok1 and corr1)):
                shown = (r, irep, ok1, corr1, why1)
            ok &= ok1
            corr &= corr1
        r, irep, _, corr1, why = shown
        detail = {"status": r["status"], "impl": {x: irep[x] for x in ("closed", "nodup", "unresolved", "dups", "index_ambiguous", "import_decl_conflicts")},
                  "model": {"broken": broken, "kf": [KF_ORDER[i] for i, b in enumerate(kfs) if b], "refs_declared": refs_declared,
                            "closed": mrep["closed"], "nodup": mrep["nodup"], "unresolved": mrep["unresolved"], "dups": mrep["dups"]}}
        if reps > 1:
            detail["fresh_process_runs"] = reps
            detail["runs_failing_or_disagreeing"] = nbad
        if why:
            detail["why"] = why
        if not corr1 and not broken:
            detail["diff"] = [{"file": FILES[i], "impl": a, "model": b} for i, (a, b) in enumerate(zip(irep["files"], mrep["files"])) if a != b]
        if r["status"] != 0 or "types.ts" not in r["files"]:
            detail["log"] = r["log"][-600:]
        if history is not None:
            detail["written_by_second_run"] = sorted(n for n in r["files"] if n in FILES)
            detail["left_over_from_first_run"] = sorted(n for n in r.get("stale", {}) if n in FILES)
            # closedness over what index.ts re-exports as it is on disk (stale modules included)
            idx = irep["files"][3]
            if idx[0] == "parsed":
                detail["index_reexports_on_disk"] = idx[4]
        # C02_closed, re-checked on the extracted code: in the documented type language and outside every class
        # the model itself predicts a closed graph (a failure here would be an extraction / decoding fault)
        if kf is None and not broken and not (mrep["closed"] and mrep["nodup"]):
            corr = False
            detail["why"] = "model predicts a violation outside every recorded class (in_dom=%s; contradicts theorem C02_closed when in_dom)" % in_dom
        detail["model"]["in_type_language"] = in_dom
        nontrivial = any(it["kind"] in ("struct", "enum") for its in case["files"].values() for it in its)
        outs.append(Outcome(c, corr, ok, kf=kf, detail=detail, nontrivial=nontrivial))
    return outs


# ----------------------------------------------------------------------------- one analyzer reused over several rounds

def reuse_model_sx(rounds, mode):
    """((round ..) zod) for Model/C02Reuse.v: a path is its rank in the sorted PathBuf order of all paths of the history."""
    paths = sorted({rel for r in rounds for rel in r["files"]}, key=lambda x: x.split("/"))
    rank = {rel: i for i, rel in enumerate(paths)}
    rs = []
    for r in rounds:
        files = [[rank[rel], [G.sx_item(i) for i in r["files"][rel]]] for rel in sorted(r["files"], key=lambda x: x.split("/"))]
        maps = sorted(((r.get("config") or {}).get("typeMappings") or {}).items())
        rs.append([files, [[k, v] for k, v in maps]])
    return [rs, mode == "zod"]


REUSE_STATS = {"rounds": 0, "rounds_fresh_ok": 0, "rounds_view_in_theorem_premises": 0, "rounds_types_ts_differs_from_fresh_model": 0}


def evaluate_reuse(hists, modes=("none", "zod")):
    """hists: (label, [case per round]). One CommandAnalyzer and one generator (harness c02-reuse) go through
    all rounds; the oracle judges the four files of EVERY round. Model: the state machine of Model/C02Reuse.v
    (accumulated AST cache, discovered structs with their first definition, accumulated events); the four
    files of every round must have exactly the summaries of gen (view state maps). The class flag of C02-9
    (kf_reuse_maps) and the per-round class flags come from the extracted model."""
    import shutil
    jobs = [(label, rounds, m) for label, rounds in hists for m in modes]
    boxes = [vlib.Sandbox("c02r") for _ in jobs]
    try:
        cases = [{"id": i, "dir": b.root, "mode": m,
                  "rounds": [{"files": pg.render_project(G.render_ready(r)), "mappings": (r.get("config") or {}).get("typeMappings", {})} for r in rounds]}
                 for i, ((label, rounds, m), b) in enumerate(zip(jobs, boxes))]
        obs = vlib.run_harness("c02-reuse", cases, per_case_timeout=60)
    finally:
        for b in boxes:
            shutil.rmtree(b.root, ignore_errors=True)
    judge_in, model_in, index = [], [], []
    for i, ((label, rounds, m), o) in enumerate(zip(jobs, obs)):
        for k, r in enumerate(rounds):
            fs = (o.get("rounds") or [{}] * len(rounds))[k].get("files", {}) if "panic" not in o else {}
            judge_in.append(sx([[fs[n]] if n in fs else [] for n in FILES]))
            model_in.append(sx(G.model_sx(r, m)))
            index.append((i, k))
    judged = vlib.run_runner("c02-judge", judge_in)
    modeled = vlib.run_runner("c02-model", model_in)
    machine = vlib.run_runner("c02-reuse", [sx(reuse_model_sx(rounds, m)) for label, rounds, m in jobs])
    per = {}
    for key, j, mo in zip(index, judged, modeled):
        per[key] = (j, mo)
    outs = []
    for i, ((label, rounds, m), o) in enumerate(zip(jobs, obs)):
        c = {"label": label, "mode": m, "rounds": [{"files": r["files"], "config": r.get("config", {})} for r in rounds]}
        if "panic" in o:
            outs.append(Outcome(c, False, False, detail={"impl": "PANIC " + str(o["panic"])}))
            continue
        mach = machine[i]
        if mach and mach[0] == "runner-error":
            raise vlib.BuildError("runner: %s" % (mach[:2],))
        dropped = mach[0] == "true"          # kf_reuse_maps (Model/C02Reuse.v): a later round lacks a mapping key an earlier round had
        ok = corr = True
        kf = "C02-9" if dropped else None
        rdet = []
        for k in range(len(rounds)):
            j, mo = per[(i, k)]
            if (j and j[0] == "runner-error") or (mo and mo[0] == "runner-error"):
                raise vlib.BuildError("runner: %s %s" % (j[:2], mo[:2]))
            wf, cw, broken = (x == "true" for x in mo[0:3])
            if not (wf and cw):
                raise AssertionError("reuse round outside the premise: %s round %d" % (label, k))
            vm, fresh_ok, known = mach[1][k]
            fresh_ok = fresh_ok == "true"
            vwf, vcw, vbroken = (x == "true" for x in vm[0:3])
            vkfs = [x == "true" for x in vm[3]]
            vdom = vm[8] == "true"
            kf = kf or next((KF_ORDER[n] for n, b in enumerate(vkfs) if b), None)
            irep, frep, vrep = canon_report(j), canon_report(mo[5]), canon_report(vm[5])
            st = o["rounds"][k].get("status")
            ok_k = st == "ok" and irep["closed"] and irep["nodup"]
            # the state machine predicts every file of the round exactly
            same = st == "ok" and all(irep[x] == vrep[x] for x in ("files", "closed", "nodup", "index_ambiguous", "import_decl_conflicts"))
            if vbroken:
                same = not ok_k
            # wrappers and listeners of a fresh analysis of the round's sources are all there (accumulation)
            sup = st == "ok" and all(b[0] != "parsed" or (a[0] == "parsed" and set(b[1]) <= set(a[1]))
                                     for a, b in zip(irep["files"][1:3], frep["files"][1:3]))
            why = None
            # C02_reuse_closed re-checked on the extracted code: outside the class, fresh part closed, view well formed, in the
            # type language and outside the per-round classes => the view's graph is closed and duplicate-free
            in_prem = (not dropped) and fresh_ok and vwf and vdom and not any(vkfs)
            if in_prem and not (vrep["closed"] and vrep["nodup"] and vcw):
                same = False
                why = "state-machine model predicts a violation inside the premises of theorem C02_reuse_closed"
            REUSE_STATS["rounds"] += 1
            REUSE_STATS["rounds_fresh_ok"] += fresh_ok
            REUSE_STATS["rounds_view_in_theorem_premises"] += in_prem
            REUSE_STATS["rounds_types_ts_differs_from_fresh_model"] += irep["files"][0] != frep["files"][0]
            ok &= ok_k
            corr &= same and sup
            d = {"round": k, "status": st, "closed": irep["closed"], "nodup": irep["nodup"], "unresolved": irep["unresolved"],
                 "dups": irep["dups"], "summaries_equal_state_machine_model": same, "wrappers_and_listeners_superset_of_fresh_model": sup,
                 "model": {"fresh_ok": fresh_ok, "view_wf": vwf, "view_closed_world": vcw, "view_dom": vdom,
                           "view_kf": [KF_ORDER[n] for n, b in enumerate(vkfs) if b], "closed": vrep["closed"], "nodup": vrep["nodup"],
                           "unresolved": vrep["unresolved"], "discovered_structs": sorted(known)},
                 "commands": o["rounds"][k].get("commands")}
            if why:
                d["why"] = why
            if not same and not vbroken:
                d["diff"] = [{"file": FILES[n], "impl": a, "model": b} for n, (a, b) in enumerate(zip(irep["files"], vrep["files"])) if a != b]
            rdet.append(d)
        outs.append(Outcome(c, corr, ok, kf=kf, detail={"kf_reuse_maps": dropped, "rounds": rdet}, nontrivial=True))
    return outs


# ----------------------------------------------------------------------------- add_types_prefix, small scope

def atp_types(depth):
    leaves = ["String", "User", "()"]

    def go(d):
        if d == 0:
            return list(leaves)
        sub = go(d - 1)
        out = list(leaves)
        for s in sub:
            out += ["Option<%s>" % s, "Vec<%s>" % s, "HashSet<%s>" % s, "HashMap<String, %s>" % s, "Result<%s, String>" % s, "&%s" % s]
        for a in sub[:6]:
            for b in sub[:6]:
                out.append("(%s, %s)" % (a, b))
        return sorted(set(out))
    return go(depth)


def eval_atp(depth):
    cases = [{"id": i, "rust": t} for i, t in enumerate(atp_types(depth))]
    obs = vlib.run_harness("c02-atp", cases)
    res = vlib.run_runner("c02-atp", [sx([c["rust"], o.get("atp", "")]) for c, o in zip(cases, obs)])
    outs = []
    for c, o, m in zip(cases, obs, res):
        if "panic" in o:
            outs.append(Outcome({"rust": c["rust"]}, False, False, detail={"impl": "PANIC " + o["panic"]}))
            continue
        text, shape, parsed, garbage = m
        garbage = garbage == "true"
        shape = sorted(set(shape[0])) if shape else None
        parsed = sorted(set(parsed[0])) if parsed else None
        # text-level transcription equals the real filter; shape-level names equal the names of the real output
        corr = text == o["atp"] and (garbage or shape == parsed)
        outs.append(Outcome({"rust": c["rust"]}, corr, True, detail={"impl": o["atp"], "model_text": text, "model_names": shape, "impl_names": parsed},
                            nontrivial="User" in c["rust"]))
    return outs


# ----------------------------------------------------------------------------- streams

def corpus_jobs():
    jobs = []
    for e in vlib.load_known_findings("C02"):
        w = e["witness"]
        if "rounds" in w:
            continue
        jobs.append(("kf:" + e["id"], {"files": w["files"], "config": w.get("config", {})}, w["mode"]))
    cdir = os.path.join(vlib.VERIF, "corpus", "C02")
    if os.path.isdir(cdir):
        for n in sorted(os.listdir(cdir)):
            if n.endswith(".json"):
                w = json.load(open(os.path.join(cdir, n)))
                if "rounds" in w:
                    continue           # reuse histories: see corpus_reuse
                jobs.append(("corpus:" + n, {"files": w["files"], "config": w.get("config", {})}, w["mode"]))
    return jobs


def corpus_reuse():
    out = [("kf:" + e["id"], e["witness"]["rounds"], e["witness"]["mode"]) for e in vlib.load_known_findings("C02") if "rounds" in e["witness"]]
    cdir = os.path.join(vlib.VERIF, "corpus", "C02")
    if os.path.isdir(cdir):
        for n in sorted(os.listdir(cdir)):
            if n.endswith(".json"):
                w = json.load(open(os.path.join(cdir, n)))
                if "rounds" in w:
                    out.append(("corpus:" + n, w["rounds"], w["mode"]))
    return [(label, [{"files": r["files"], "config": r.get("config", {})} for r in rounds], mode) for label, rounds, mode in out]


def both(pairs):
    return [(label, case, mode) for label, case in pairs for mode in ("none", "zod")]


def run(rep):
    build()
    rng = random.Random(rep.seed)
    rep.add("corpus", evaluate(corpus_jobs()), sample_count=1)
    rep.add("adversarial", evaluate(both(G.adversarial())))
    rep.add("positions", evaluate(both(G.position_matrix())))
    reps = 4 if rep.tier == "quick" else 16
    xf = G.crossfile_matrix()
    nx = 40 if rep.tier == "quick" else 400
    for i in range(nx):
        xf.append(("crossfile-random-%d" % i, G.crossfile_random(rng)))
    rep.add("crossfile", evaluate(both(xf), reps=reps))
    rep.add("multisite", evaluate(both(G.multisite_cases()), reps=2))
    rep.add("mappedcount", evaluate(both(G.mapped_count_cases()), reps=6 if rep.tier == "quick" else 16))
    rep.add("rebinding", evaluate(both(G.rebinding_cases())))
    rep.add("layout", evaluate(both(G.layout_cases())))
    rep.add("names", evaluate(both(G.special_name_cases())))
    rep.add("derives", evaluate(both(G.derive_spelling_cases())))
    for label, rounds, mode in corpus_reuse():
        rep.add("corpus", evaluate_reuse([(label, rounds)], modes=(mode,)), sample_count=1)
    rep.add("reuse", evaluate_reuse(G.reuse_histories(rng, 6 if rep.tier == "quick" else 60)))
    hp = G.history_pairs(rng, 60 if rep.tier == "quick" else 600)
    hist = {label: (a, m1, b, m2) for label, a, m1, b, m2 in hp}
    rep.add("history", evaluate([(label, b, m2) for label, a, m1, b, m2 in hp], history=hist))
    n = 600 if rep.tier == "quick" else 6000
    rnd, nwild = [], 0
    for i in range(n):
        wild = rng.random() < 0.3
        nwild += wild
        case, _ = G.random_case(rng, wild)
        rnd.append(("random-%d%s" % (i, "-wild" if wild else ""), case))
    rep.add("random", evaluate(both(rnd)))
    rep.add("atp", evaluate_atp(rep.tier))
    st = rep.streams
    rep.extra["input_distribution"] = {
        "random_projects": n, "random_wild": nwild, "crossfile_projects": len(xf), "fresh_process_runs_per_crossfile_case": reps,
        "in_known_class_by_stream": {k: v["in_known_class"] for k, v in st.items()},
        "cases_by_stream": {k: v["cases"] for k, v in st.items()},
        "known_finding_cases": dict(rep.kf_counts)}
    tot = sum(v["cases"] for k, v in st.items() if k != "atp")
    inside = sum(v["in_known_class"] for k, v in st.items() if k != "atp")
    rep.extra["outside_every_class_fraction"] = round(1 - inside / max(1, tot), 3)
    rep.extra["cases_in_documented_type_language(dom)"] = {str(k): v for k, v in DOM_COUNT.items()}
    rep.extra["reuse_state_machine"] = dict(REUSE_STATS)
    rep.extra["not_judged_observations"] = "index_ambiguous and import_decl_conflicts are compared with the model (corr) but are not part of ok; see notes/C02.md"


def evaluate_atp(tier):
    if not DEV or os.path.exists(vlib.harness_bin("c02")):
        return eval_atp(2 if tier == "quick" else 3)
    return []


def replay(rep, payload):
    build()
    items = payload.get("disagreeing_cases") or [payload]
    for it in items:
        c = it["case"]
        if it.get("stream") == "reuse" or "rounds" in c:
            rep.add("reuse", evaluate_reuse([(c.get("label", "replay"), [{"files": r["files"], "config": r.get("config", {})} for r in c["rounds"]])], modes=(c["mode"],)))
            continue
        if it.get("stream") == "atp":
            cases = [{"id": 0, "rust": c["rust"]}]
            obs = vlib.run_harness("c02-atp", cases)
            rep.add("atp", eval_atp_cases(cases, obs))
            continue
        job = (c.get("label", "replay"), {"files": c["files"], "config": c.get("config", {})}, c["mode"])
        hist = None
        if c.get("first_generation"):
            fg = c["first_generation"]
            hist = {job[0]: ({"files": fg["files"], "config": fg.get("config", {})}, fg["mode"], job[1], job[2])}
        rep.add(it.get("stream") or "replay", evaluate([job], reps=max(16, 4 * int(c.get("reps", 1))) if c.get("reps") else 1, history=hist))


def eval_atp_cases(cases, obs):
    res = vlib.run_runner("c02-atp", [sx([c["rust"], o.get("atp", "")]) for c, o in zip(cases, obs)])
    outs = []
    for c, o, m in zip(cases, obs, res):
        text, shape, parsed, garbage = m
        shape = sorted(set(shape[0])) if shape else None
        parsed = sorted(set(parsed[0])) if parsed else None
        corr = text == o.get("atp") and (garbage == "true" or shape == parsed)
        outs.append(Outcome({"rust": c["rust"]}, corr, True, detail={"impl": o.get("atp"), "model_text": text, "model_names": shape, "impl_names": parsed}))
    return outs
