"""C12 - one correctly named, correctly subscribed listener per emitted event.
Implementation side: (a) EventParser through the library API (Rust driver c12-events: the list of
EventInfo per file), (b) the real CLI in a sandbox (events.ts / index.ts as written).
Model side: coq/Model/Events.v (walker, symbol table, payload inference, naming, events.ts text),
specification and oracle coq/Spec/C12Spec.v, both extracted (runner c12-case). The generated
files are read back by the extracted module parser (Spec/TsModule.v, Spec/TsObs.v)."""
import json
import os
import random
import shutil

from tools import vlib
from tools.vlib import Outcome
from tools.props import c12_gen as G

MANIFEST = {
    "level_text": "Coq theorems (Properties/C12.v, no axioms) about a structural Gallina transcription of event_parser.rs (expression/statement walker, receiver heuristic, function-wide symbol table, infer_payload_type with its fall-backs), event_name_to_function and the events.ts template, for all projects, function bodies (no depth bound), receivers, names and payload forms: every emit at a documented placement is found by the walker (C12_walker_complete, rule induction on EmitsAt over the mutually inductive syntax, any symbol table); on in-domain projects the event list is exactly the list of documented sites in order (C12_walker_exact / C12_walker_sound, nested induction); the listener identifier is a legal non-reserved TypeScript identifier for every event name whatsoever (every non-alphanumeric character becomes '_' before PascalCase); one listener per distinct name however often it is emitted (first emit site in sorted file order wins); main theorem C12_listeners_partial on the complement of the one remaining naming class kf_collision (distinct names with one identifier) and, for payloads, of kf_name_fallback / kf_last_segment / kf_ctor_guess / kf_scope: listeners in bijection with the documented names, each subscribed to its own name, identifiers legal and pairwise distinct, every event from a documented site, and outside the payload classes the payload string is the evident type's name, `()` for unit, `unknown` when nothing is evident (C12_payload_site); no events implies no events.ts and no re-export. String level, token part (C12_events_tokens_parse, for every list of listener records): the token stream of events.ts - two imports, then the listener template once per record with holes for identifier, event name and payload type - has no lexical error, parses with Spec/TsModule.v into the imports plus exactly one function item per record, and the observation layer (find_listen) reads back exactly the records; character part (C12_lex_statement, proved, fuel included): the specification lexer reads exactly that token stream from the text the model prints, for every event list with legal names, hence C12_events_text_parses: parse_module (events_text l) yields exactly the listener records; C12_payload_text_custom: every custom payload type name N renders to the text types.N. Composition: C12_full / C12_full_names - the extracted oracle returns no complaint on the files the model generates, for every in-domain project outside the classes under a boolean payload-name condition (C12_sites_legal discharges the event-name condition; C12_name_ok_prim / C12_name_ok_custom discharge the name condition for primitive and unmapped custom names). Six narrow defect classes (boolean predicates shared by the theorems and the run-time matcher) carry computed witnesses; the witnesses of the four repaired defects (C12-dup, C12-ident, C12-tuple, C12-path) are positive theorems now (C12_*_repaired). Binding histories (Spec/C12Bind.v, C12_bindings_*): the symbol table as a state machine bind / run / infer over the statements before an emit; for every history and start table the entry of a name is its LAST TYPABLE binding (un-typable re-bindings can be deleted without changing any table), the fold equals the walker on straight-line bodies, the class C12-scope is restated on histories (kf_bind_scope: last binding un-typable and an entry left) and on its complement with a typable last binding the listener's payload text is that binding's type; witness inside the class. The model is tied to /repo on every run: EventParser's events per file compared in order, events.ts compared token for token and in order with the model's text, index.ts re-export and presence of the file compared, and the extracted oracle applied to the files the real CLI wrote.",
    "design_ref": "DESIGN.md section 5 C12, section 11 (Events.v spike), section 12",
    "level_note": "The composition is now asserted: C12_full (for every in-domain project outside the classes whose sites satisfy the boolean payload-text condition payload_dom, the oracle has no complaint about the model's files), C12_full_names (the same with the condition reduced, through the absence of the payload classes, to payload type NAMES: names_dom = no mapping for `unknown`, no empty struct path, name_ok for every inferred type name), C12_oracle_accepts_text (text level, any site list and mapping), C12_sites_legal (event names of in-domain sites are legal: no longer a side condition), C12_name_ok_prim / C12_name_ok_custom (name_ok for every primitive Rust name under every mapping and for every unmapped custom identifier that is not a TypeScript builtin, a container name or `listen`). What remains between C12_full_names and the unrestricted C12_full_statement is name hygiene only, kept as the unasserted Definition C12_names_dom_statement (false as it stands: a type named `string`, `Vec` without arguments or `listen`, or a mapping with a non-identifier target, defeats it): name_ok for mapped names is shown by evaluation (Example C12_ex_full_dom) but not for all targets, and the hygiene conditions are not part of in_domain. The theorem names C12_listeners_partial / C12_listener_records_partial / C12_payload_simple_partial are kept for reference stability; they are ingredients of C12_full. Domain restriction: event names over [A-Za-z0-9_/:-] (the template does not escape quote, backslash, line break or star-slash). Trusted: Coq kernel; python case printer; syn; Tera; Spec/TsModule.v as the reading of TypeScript; files handed to the model in sorted path order.",
    "technique": "Rocq/Coq proof over hand-written model + correspondence check (extracted OCaml vs Rust harness and the real CLI)"
}

RULE = ("placements: every documented placement (22) x every documented receiver form and every non-receiver (17) x emit/emit_to; "
        "fnshapes: enclosing function with no parameters / only non-handle parameters / only the handle / a local let named app, window or webview (untyped, mut, typed) x receivers that fit (static method chain, clone of it, call().clone(), field of a global, field of a call result, plain call and the static itself which must not count) x attributes/visibility/async/unsafe/const/command-or-not (29 combinations) x rotating placement x emit/emit_to; "
        "bindings: histories of the bindings of one name (16 binding kinds pairwise and random histories of 3-6, with / without a parameter of the name, emit after every prefix); "
        "receiver-types: declared TYPE of the emitting receiver (56 declarations: handle types plain / referenced / qualified / with runtime parameter, generic parameter with bound or where clause, impl Trait, dyn Trait, Arc / Box / Rc / State / MutexGuard / Option / Cow wrappers, alias-like and application type names, tuple, let-bound handles from associated calls, struct expressions, copies of typed variables, method results, typed lets, shadowing, leaking block-local bindings) x receiver name app / window / webview (and a non-handle name that must not count) x variable / .clone() x emit / emit_to x rotating placement and payload; also drawn as a function shape in the structured stream; "
        "unicode-names (judged by the oracle beyond the ASCII name alphabet): 77 non-ASCII characters of 8 classes (letters of 10 scripts, letters with special case mappings, enclosed / circled letters and numbers, symbols and emoji, digits of other scripts, combining marks and joiners, punctuation and spaces) x 10 positions (alone, doubled, leading, trailing, between separators, inside a word, next to a digit), several such names in one module; identifier legality decided per code point (Spec/C12Uni.v); "
        "compositions: every ordered pair of 33 wrappers around one emit (15 documented: method receiver without/with arguments, await, ?, block, if-then, if-else, else-if, match arm expression/block, loop, while, for, let and let-else initialiser in a block; 18 undocumented: parentheses, &, unary, cast, call/method argument, field access, index, closure call, return, break value, macro argument, tuple, closure body, unsafe/async block, condition, scrutinee), 500 (quick) sampled triples, as let initialiser and as expression statement; "
        "mappings: 6 type_mappings sets (primitive targets, one non-primitive target, keys that are Rust primitives, an unrelated key, none) x 13 payload types (mapped names bare / referenced / qualified, unmapped, primitives, nested in Vec / Option / HashMap / tuple) x param / let / alias / struct expression / clone, both modes, through a configuration file (CLI) and through both visitors (library API); expected type computed by the spec with the mapping applied; a quarter of the structured cases carry a mapping; "
        "rawidents: raw identifiers r#type r#match r#final r#async r#in as payload variable (typed parameter, typed let, untyped let, alias, plain-spelled decoy, unbound, struct field) x 4 types x {x,&x,x.clone()}, and as names of the hosting functions; "
        "payloads: every payload form (27) and every leaf/depth-1 type (36) x param/let/let-without-init/alias x {x,&x,x.clone(),&x.clone(),&&x}, "
        "every untyped initialiser form x fresh/shadowing, scoping cases; names: every name of length <= 2 over {a,B,1,_,-,:,/}, every pair of "
        "distinct names of length <= 2 over {a,A,_,-}; repeats across sites/functions/files, no-event and no-command projects; "
        "random structured projects (1-3 files, 1-3 functions each with a random shape: std parameters / none / non-handle only / handle only, handle from a static or a local let, random attributes, visibility, qualifiers, return type, command or not; 1-6 emit sites, nesting depth <= 3; 70% generated outside every recorded class); "
        "histories: 3 base projects x 13 single edits (payload type at first/middle/last site of a multi-site event, rename, add, remove, move to another file, swap, emit/emit_to, remove all, unchanged) + unchanged re-run x {CLI, build-script entry point}, plus 160 (quick) random histories of 2-4 unforced runs into one output directory, judged after every run against the sources of that run; "
        "a malformed/out-of-domain stream (emit at undocumented positions, heuristic receivers, names outside the alphabet, non-top-level functions) "
        "where only the correspondence is judged. Non-trivial = at least one emit call in the sources; distinct = distinct cases.")
TRUSTED = ["Spec/C12Uni.v + Spec/C01Wf.v: explicit table of ECMAScript ID_Start / ID_Continue ranges (conservative: a code point outside the listed scripts is rejected); it only matters when a listener identifier contains a non-ASCII byte, which the unchanged tool never prints",
           "types the tool calls `unknown` (impl Trait, dyn Trait, lifetime arguments) are printed as Rust text and handed to the model as a one-element tuple type (type_name = unknown)",
           "run histories: a leftover events.ts that a run neither wrote (same inode/mtime/size) nor re-exports is not counted as that run's events module",
           "tools/props/c12_gen.py renders one case both to Rust source and to the model's s-expression (trusted printer)",
           "Spec/TsModule.v + Spec/TsObs.v (extracted) are the reading of the generated TypeScript; Spec/C12Spec.v oracle is the run-time judge",
           "syn parses the Rust source; the model starts from the AST"]
ASSUMPTIONS = ["files are analysed in sorted path order (C13-sort-before-use); the case's files are handed to the model in that order (python sorts by path components) and listeners are compared in order"]

CLASS_TO_ID = {
    "kf_no_command": "C12-nocmd", "kf_collision": "C12-collide", "kf_name_fallback": "C12-name",
    "kf_last_segment": "C12-lastseg", "kf_ctor_guess": "C12-ctor", "kf_scope": "C12-scope",
}
KIND_TO_CLASSES = {
    "no-events-module": ["kf_no_command"], "identifier-collision": ["kf_collision"], "duplicate-export": ["kf_collision"],
    "payload-type": ["kf_name_fallback", "kf_last_segment", "kf_ctor_guess", "kf_scope"],
}


def read_opt(path):
    try:
        with open(path, encoding="utf-8", errors="surrogateescape") as f:
            return f.read()
    except OSError:
        return None


def run_cli(sb, idx, case):
    root = "c%d" % idx
    for f in G.rust_files(case):
        sb.write(os.path.join(root, f["name"]), f["src"])
    if case.get("mappings"):
        # configuration file route: type_mappings can only be given there
        sb.write(os.path.join(root, "typegen.json"), json.dumps({
            "project_path": sb.path(root, "src"), "output_path": sb.path(root, "out"),
            "validation_library": "zod" if case.get("zod") else "none", "type_mappings": case["mappings"]}))
        args = ["generate", "-c", sb.path(root, "typegen.json"), "--force"]
    else:
        args = ["generate", "-p", sb.path(root, "src"), "-o", sb.path(root, "out")]
    if case.get("zod"):
        args += ["-v", "zod"]
    rc, out = sb.cli(args, cwd=sb.path(root))
    ev = read_opt(sb.path(root, "out", "events.ts"))
    ix = read_opt(sb.path(root, "out", "index.ts"))
    listing = sorted(os.listdir(sb.path(root, "out"))) if os.path.isdir(sb.path(root, "out")) else []
    shutil.rmtree(sb.path(root), ignore_errors=True)
    return {"rc": rc, "events_ts": ev, "index_ts": ix, "files": listing, "out": out[-400:] if rc != 0 else ""}


def count_emit(case):
    return sum(f["src"].count(".emit") for f in G.rust_files(case))


def evaluate(cases, judge_property=True, observed=None):
    """cases -> list of Outcome. judge_property=False: only the correspondence is judged.
    observed: what a run left behind for each case (histories); default: one fresh CLI run per case."""
    for i, c in enumerate(cases):
        c["id"] = i
        c["files"] = sorted(c["files"], key=lambda f: f["name"].split("/"))     # PathBuf order = the model's file order
    hcases = [{"id": c["id"], "files": G.rust_files(c), "mappings": c.get("mappings", {})} for c in cases]
    hobs = vlib.run_harness("c12-events", hcases, per_case_timeout=20)
    if observed is not None:
        cli = observed
    else:
        with vlib.Sandbox("c12") as sb:
            cli = vlib.pmap(lambda ic: run_cli(sb, ic[0], ic[1]), list(enumerate(cases)))
    sexps = [G.case_sexp(c, o["events_ts"], o["index_ts"]) for c, o in zip(cases, cli)]
    res = vlib.run_runner("c12-case", sexps)
    outs = []
    for c, h, o, m in zip(cases, hobs, cli, res):
        case = {"files": c["files"], "zod": c.get("zod", False)}
        if c.get("mappings"):
            case["mappings"] = c["mappings"]
        if c.get("judge"):
            case["judge"] = c["judge"]
        if m and m[0] == "runner-error":
            raise vlib.BuildError("runner: %s on %s" % (m, json.dumps(case)[:500]))
        if h.get("skipped"):
            continue
        nontrivial = count_emit(c) > 0
        if "panic" in h:
            outs.append(Outcome(case, False, False, detail={"impl": "PANIC " + h["panic"]}, nontrivial=nontrivial))
            continue
        in_dom, classes, m_events, m_out, i_obs, i_compl, m_compl, spec, m_texts = m
        in_dom = in_dom == "true"
        # (a) analysis: EventInfo per top-level-visible file, in order
        h_events = []
        syntax = None
        for hf in h["files"]:
            if "syntax_error" in hf:
                syntax = hf["syntax_error"]
            h_events.append([[e["name"], e["payload"]] for e in hf.get("events", [])])
        # the model's files carry only top-level functions but keep one entry per file
        corr_events = h_events == [[list(e) for e in f] for f in m_events]
        # library API: what both visitors print for each payload under the configured type_mappings
        # (before the add_types_prefix filter) against the model's payload text
        for hf, mf in zip(h["files"], m_texts):
            for e, (mn, mt) in zip(hf.get("events", []), mf):
                for k in ("ts", "ts_zod"):
                    if mt not in (e[k], "types." + e[k]):
                        corr_events = False
        # (b) generation: events.ts token chunks (multiset), presence, re-export
        m_generated, m_chunks, m_reexp = m_out[0] == "true", m_out[1], m_out[2] == "true"
        i_chunks, i_reexp = i_obs
        i_generated = o["index_ts"] is not None
        # since C13-sort-before-use files are analysed in sorted path order: listeners are compared in order
        canon = lambda ch: [json.dumps(x) for x in ch[0]] if ch else None
        corr_gen = (i_generated == m_generated and canon(i_chunks) == canon(m_chunks)
                    and (i_reexp == ["true"]) == m_reexp and o["rc"] == 0)
        corr = corr_events and corr_gen and syntax is None
        complaints = [(k, n, e == "true") for k, n, e in i_compl]
        # judge_property == "beyond-ascii": the stream's only departure from the domain is the event-name alphabet; the oracle
        # (one listener per name, subscribed to exactly that name, legal identifier) decides there as well
        ok = (not judge_property) or (not in_dom and judge_property != "beyond-ascii") or not complaints
        kf = None
        if not ok and all(e for _, _, e in complaints):
            for k, n, _ in complaints:
                for cl in KIND_TO_CLASSES.get(k, []):
                    if cl in classes:
                        kf = CLASS_TO_ID[cl]
                        break
                if kf:
                    break
        detail = {"in_domain": in_dom, "classes": classes, "complaints": [[k, n, "explained" if e else "UNEXPLAINED"] for k, n, e in complaints],
                  "impl_events": h_events, "model_events": m_events, "corr_events": corr_events, "corr_generated": corr_gen,
                  "impl_files": o["files"], "impl_rc": o["rc"], "spec": spec,
                  "rust": [f["src"] for f in G.rust_files(c)]}
        if syntax:
            detail["syntax_error"] = syntax
        if not corr_gen:
            detail["impl_chunks"] = i_chunks
            detail["model_chunks"] = m_chunks
            detail["impl_events_ts"] = o["events_ts"]
            detail["cli_output"] = o["out"]
        outs.append(Outcome(case, corr, ok, kf=kf, detail=detail, nontrivial=nontrivial))
    return outs


# ------------------------------------------------------------------ run histories into one output directory
def stamp(path):
    try:
        st = os.stat(path)
        return (st.st_mtime_ns, st.st_ino, st.st_size)
    except OSError:
        return None


def run_history(sb, idx, hist):
    """hist = {"entry": "cli" | "build", "steps": [case, ...]}: the versions of one project, generated one after the other,
    unforced, into the same output directory. Returns one observation per step (what the directory holds after it)."""
    import subprocess
    root = sb.path("h%d" % idx)
    obs = []
    for k, case in enumerate(hist["steps"]):
        src = os.path.join(root, "src-tauri")
        shutil.rmtree(src, ignore_errors=True)
        for f in G.rust_files(case):
            name = f["name"][4:] if f["name"].startswith("src/") else f["name"]
            sb.write(os.path.join("h%d" % idx, "src-tauri", name), f["src"])
        cfg = {"project_path": "./src-tauri", "output_path": "./gen", "validation_library": "zod" if case.get("zod") else "none"}
        if case.get("mappings"):
            cfg["type_mappings"] = case["mappings"]
        sb.write(os.path.join("h%d" % idx, "typegen.json"), json.dumps(cfg))
        before = {"ev": stamp(os.path.join(root, "gen", "events.ts"))}
        if hist["entry"] == "cli":
            rc, out = sb.cli(["generate", "-c", "typegen.json"], cwd=root)
        else:
            try:
                r = subprocess.run([vlib.harness_bin("c12"), "build"], input=json.dumps({"id": k, "dir": root}) + "\n", cwd=root,
                                   stdout=subprocess.PIPE, stderr=subprocess.STDOUT, text=True, env=vlib.ENV, timeout=120)
                out = r.stdout
                rc = 0 if '"ok":true' in out else 1
            except subprocess.TimeoutExpired:
                rc, out = -1, "TIMEOUT"
        gen = os.path.join(root, "gen")
        ev, ix = read_opt(os.path.join(gen, "events.ts")), read_opt(os.path.join(gen, "index.ts"))
        after = stamp(os.path.join(gen, "events.ts"))
        # a leftover of an earlier run that this run neither wrote nor re-exports is not "the events module" of this run
        stale = ev is not None and after == before.get("ev") and "./events" not in (ix or "")
        obs.append({"rc": rc, "events_ts": None if stale else ev, "index_ts": ix, "stale_events_ts": stale,
                    "files": sorted(os.listdir(gen)) if os.path.isdir(gen) else [], "out": out[-400:] if rc != 0 else ""})
    shutil.rmtree(root, ignore_errors=True)
    return obs


def evaluate_histories(hists):
    """After EVERY run of a history the output directory is judged against the version of the sources that run saw:
    same model (generation is a function of the current sources), same oracle. One Outcome per history."""
    with vlib.Sandbox("c12h") as sb:
        allobs = vlib.pmap(lambda ih: run_history(sb, ih[0], ih[1]), list(enumerate(hists)))
    flat_cases, flat_obs, owner = [], [], []
    for i, (h, obs) in enumerate(zip(hists, allobs)):
        for k, (c, o) in enumerate(zip(h["steps"], obs)):
            flat_cases.append(json.loads(json.dumps(c)))
            flat_obs.append(o)
            owner.append((i, k))
    outs = evaluate(flat_cases, True, observed=flat_obs)
    res = []
    by = {}
    for (i, k), o in zip(owner, outs):
        by.setdefault(i, []).append((k, o))
    for i, h in enumerate(hists):
        steps = by.get(i, [])
        corr = all(o.corr for _, o in steps) and len(steps) == len(h["steps"])
        ok = all(o.ok for _, o in steps)
        bad = next(((k, o) for k, o in steps if not (o.ok and o.corr)), None)
        kf = None
        if not ok and all(o.ok or o.kf for _, o in steps):
            kf = next(o.kf for _, o in steps if not o.ok)
        detail = {"entry": h["entry"], "edits": h.get("edits"), "steps": len(h["steps"])}
        if bad:
            detail["failing_step"] = bad[0]
            detail.update(bad[1].detail)
        elif steps:
            detail["in_domain"] = all(o.detail.get("in_domain") for _, o in steps)
            detail["classes"] = sorted({c for _, o in steps for c in o.detail.get("classes", [])})
        res.append(Outcome({"history": {"entry": h["entry"], "edits": h.get("edits"), "steps": [o.case for _, o in steps]}}, corr, ok, kf=kf,
                           detail=detail, nontrivial=True))
    return res


def corpus_cases():
    d = os.path.join(vlib.VERIF, "corpus", "C12")
    out = []
    if os.path.isdir(d):
        for n in sorted(os.listdir(d)):
            if n.endswith(".json"):
                c = json.load(open(os.path.join(d, n)))["case"]
                if "history" not in c:
                    out.append(c)
    return out


def corpus_histories():
    d = os.path.join(vlib.VERIF, "corpus", "C12")
    out = []
    if os.path.isdir(d):
        for n in sorted(os.listdir(d)):
            if n.endswith(".json"):
                c = json.load(open(os.path.join(d, n)))["case"]
                if "history" in c:
                    out.append(c["history"])
    return out


def dist(outs):
    d = {"in_domain": 0, "outside_every_class": 0, "with_complaints": 0, "classes": {}}
    for o in outs:
        det = o.detail
        if det.get("in_domain"):
            d["in_domain"] += 1
            if not det.get("classes"):
                d["outside_every_class"] += 1
        if det.get("complaints"):
            d["with_complaints"] += 1
        for c in det.get("classes", []):
            d["classes"][c] = d["classes"].get(c, 0) + 1
    return d


def run(rep):
    vlib.build_harness("c12")
    vlib.build_runner("c12")
    vlib.build_repo_bin()
    rng = random.Random(rep.seed)
    thorough = rep.tier == "thorough"
    corpus = corpus_cases()
    streams = [("corpus", [c for c in corpus if c.get("judge") != "beyond-ascii"], True),
               ("corpus-beyond-ascii", [c for c in corpus if c.get("judge") == "beyond-ascii"], "beyond-ascii"),
               ("placements", G.enum_placements(), True),
               ("fnshapes", G.enum_fnshapes(), True),
               ("receiver-types", G.enum_receiver_types(), True),
               ("unicode-names", G.enum_unicode_names(), "beyond-ascii"),
               ("compositions", G.enum_compositions(rng, 6000 if thorough else 500), True),
               ("mappings", G.enum_mappings(), True),
               ("rawidents", G.enum_raw_idents(), True),
               ("payloads", G.enum_payloads(), True),
               ("names", G.enum_names(), True),
               ("repeats", G.enum_repeats(), True),
               # binding histories of one name (Spec/C12Bind.v): own generator state, the other streams keep their draws
               ("bindings", G.enum_bindings(random.Random("c12-bindings-%s" % rep.seed), 400 if thorough else 60), True)]
    n_struct = 12000 if thorough else 1400
    structured = [G.structured_case(rng, rng.random() < 0.3) for _ in range(n_struct)]
    streams.append(("structured", structured, True))
    streams.append(("malformed", G.malformed_cases(rng, 3000 if thorough else 250), False))
    for name, cases, judge in streams:
        outs = evaluate(cases, judge)
        rep.extra.setdefault("distribution", {})[name] = dist(outs)
        rep.add(name, outs)
    hists = corpus_histories() + G.enum_histories(rng, 1500 if thorough else 160)
    outs = evaluate_histories(hists)
    rep.extra.setdefault("distribution", {})["histories"] = dist(outs)
    rep.extra["history_runs"] = sum(len(h["steps"]) for h in hists)
    rep.add("histories", outs)


def judge_mode(stream, case):
    if stream == "malformed":
        return False
    if stream == "unicode-names" or case.get("judge") == "beyond-ascii":
        return "beyond-ascii"
    return True


def replay(rep, payload):
    vlib.build_harness("c12")
    vlib.build_runner("c12")
    vlib.build_repo_bin()
    items = payload.get("disagreeing_cases") or [payload]
    for it in items:
        if "history" in it["case"]:
            rep.add("histories", evaluate_histories([it["case"]["history"]]))
        else:
            rep.add(it.get("stream", "replay"), evaluate([dict(it["case"])], judge_mode(it.get("stream"), it["case"])))
