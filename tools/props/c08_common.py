"""Shared machinery of the run-history checks C08 / C14 / C17 (all owned by the C08 worker).

A *project description* (JSON) is rendered (a) to Rust sources + typegen.json in a sandbox and
(b) to the s-expression the extracted Coq model reads (the analysed data: exactly the fields the
tool's CommandInfo / StructInfo / EventInfo / GenerateConfig carry, hashed and unhashed ones).
Worlds run the real tool through its two entry points:
  cli   : cargo-tauri-typegen tauri-typegen generate -c typegen.json [--force]   (cwd = sandbox)
  build : harness/src/bin/c08.rs `gen` -> chdir(sandbox); BuildSystem::generate_at_build_time()
each step in a fresh process (fresh hash seeds)."""
import copy
import hashlib
import json
import os
import shutil
import subprocess
import threading

from tools import vlib
from tools.vlib import sx

OUT = "gen"
SRC = "src-tauri"
BINDING_FILES = ["types.ts", "commands.ts", "events.ts", "index.ts"]
GRAPH_FILES = ["dependency-graph.txt", "dependency-graph.dot"]
CACHE = ".typecache"

# ------------------------------------------------------------------ descriptions


def base_project():
    """Single-file base project exercising structs, an enum, a validator attribute, a channel and an event."""
    return {
        "files": [{
            "path": "lib.rs",
            "structs": [
                {"name": "User", "is_enum": False, "rename_all": None, "fields": [
                    {"name": "user_id", "type": "u32", "public": True, "rename": None, "skip": False, "validator": None},
                    {"name": "user_name", "type": "String", "public": True, "rename": None, "skip": False,
                     "validator": "length(min = 1, max = 20)"},
                    {"name": "email", "type": "Option<String>", "public": True, "rename": None, "skip": False, "validator": None},
                    {"name": "created", "type": "DateTime<Utc>", "public": True, "rename": None, "skip": False, "validator": None},
                ]},
                {"name": "Status", "is_enum": True, "rename_all": None, "fields": [
                    {"name": "Active", "rename": None}, {"name": "Inactive", "rename": None}]},
                {"name": "Progress", "is_enum": False, "rename_all": None, "fields": [
                    {"name": "percent", "type": "u32", "public": True, "rename": None, "skip": False, "validator": None}]},
            ],
            "commands": [
                {"name": "get_user", "async": False, "rename_all": None,
                 "params": [{"name": "user_id", "type": "u32"}, {"name": "include_email", "type": "bool"}],
                 "ret": "Result<User, String>", "channels": []},
                {"name": "set_status", "async": True, "rename_all": None,
                 "params": [{"name": "new_status", "type": "Status"}], "ret": "Result<(), String>",
                 "channels": [{"name": "on_progress", "msg": "Progress"}, {"name": "on_done", "msg": "Status"}]},
            ],
            "events": [{"name": "status-changed", "payload": "Progress"}],
        }],
        "cfg": default_cfg(),
    }


def default_cfg():
    return {"validation_library": "none", "type_mappings": None, "default_parameter_case": "camelCase",
            "default_field_case": "snake_case", "visualize_deps": False, "include_private": False, "force": None}


TIE_NAMES = ["Sync.rs", "sync.rs", "a_b.rs", "ab.rs", "a.rs", "A.rs", "a-b.rs", "sync_.rs"]


def multi_project(nfiles, with_structs=True, names=None, events_each=False):
    """nfiles source files, one command each (+ one struct each); discovery order of the commands is the
    iteration order of the tool's file map."""
    files = []
    for i in range(nfiles):
        f = {"path": names[i] if names else "m%d.rs" % i, "structs": [],
             "events": [{"name": "ev-%d" % i, "payload": "String"}] if events_each else [],
             "commands": [{"name": "cmd_%d" % i, "async": False, "rename_all": None,
                           "params": [{"name": "arg_%d" % i, "type": "T%d" % i if with_structs else "u32"}],
                           "ret": "String", "channels": []}]}
        if with_structs:
            f["structs"].append({"name": "T%d" % i, "is_enum": False, "rename_all": None, "fields": [
                {"name": "val_%d" % i, "type": "u32", "public": True, "rename": None, "skip": False, "validator": None}]})
        files.append(f)
    return {"files": files, "cfg": default_cfg()}


def _st(name, fields):
    return {"name": name, "is_enum": False, "rename_all": None, "fields": [
        {"name": n, "type": t, "public": True, "rename": None, "skip": False, "validator": None} for n, t in fields]}


ROUTE_TYPES = ["EvOnly", "EvNested", "EvKind", "ChOnly", "ChNested", "ErrT"]


def routes_project():
    """base project + types each reachable through one route only: an event payload (EvOnly), nested below one (EvNested),
    an enum payload (EvKind), a channel message (ChOnly), nested below it (ChNested), the error position of a result (ErrT)"""
    d = base_project()
    f = d["files"][0]
    f["structs"] += [_st("EvOnly", [("id", "u32"), ("inner", "EvNested")]), _st("EvNested", [("flag", "bool")]),
                     {"name": "EvKind", "is_enum": True, "rename_all": None, "fields": [{"name": "Started", "rename": None},
                                                                                       {"name": "Done", "rename": None}]},
                     _st("ChOnly", [("n", "u32"), ("deep", "ChNested")]), _st("ChNested", [("v", "String")]),
                     _st("ErrT", [("code", "u32")])]
    f["events"] += [{"name": "ev-only", "payload": "EvOnly"}, {"name": "ev-kind", "payload": "EvKind", "via_param": True}]
    f["commands"].append({"name": "stream_items", "async": True, "rename_all": None, "params": [], "ret": "Result<(), ErrT>",
                          "channels": [{"name": "on_item", "msg": "ChOnly"}]})
    return d


def route_edit(d, type_name, kind):
    """one edit confined to the definition of one type: field_type | field_add | rename | validator | variant"""
    s_ = _struct(d, type_name)
    if s_["is_enum"]:
        if kind == "variant":
            if any(v["name"] == "Failed" for v in s_["fields"]):
                s_["fields"][:] = [v for v in s_["fields"] if v["name"] != "Failed"]
            else:
                s_["fields"].append({"name": "Failed", "rename": None})
        elif kind == "rename":
            _toggle(s_["fields"][0], "rename", None, "begun")
        return
    f0 = s_["fields"][0]
    if kind == "field_type":
        other = {"u32": "String", "String": "u32", "bool": "u8", "u8": "bool"}
        f0["type"] = other.get(f0["type"], "u32")
    elif kind == "field_add":
        if any(f["name"] == "extra" for f in s_["fields"]):
            s_["fields"][:] = [f for f in s_["fields"] if f["name"] != "extra"]
        else:
            s_["fields"].append({"name": "extra", "type": "u8", "public": True, "rename": None, "skip": False, "validator": None})
    elif kind == "rename":
        _toggle(f0, "rename", None, "renamed")
    elif kind == "validator":
        _toggle(f0, "validator", None, "range(min = 1, max = 9)")


PRIV_FIELDS = {"secret": "", "internal": "pub(crate)", "parent": "pub(super)"}


# ---- type mappings by route (class of seeded C08-12): a mapped external type mentioned through ONE route only
MAP_ROUTE_TYPES = {"EvStamp": "payload of an event emitted by a helper (typed parameter)",
                   "EvList": "inside Vec<..> of an event payload",
                   "ChStamp": "channel message type", "RetStamp": "return type",
                   "FldStamp": "struct field", "ParStamp": "command parameter"}


def maproutes_project(full=True):
    """base project + one external (not project-defined) type per route; `full`: every one of them has a type_mappings
    entry (target string), otherwise none has"""
    d = base_project()
    f = d["files"][0]
    f["structs"][0]["fields"].append({"name": "stamp", "type": "FldStamp", "public": True, "rename": None, "skip": False,
                                      "validator": None})
    f["commands"].append({"name": "stamp_now", "async": False, "rename_all": None,
                          "params": [{"name": "at", "type": "ParStamp"}], "ret": "RetStamp",
                          "channels": [{"name": "on_stamp", "msg": "ChStamp"}]})
    f["events"] += [{"name": "ev-stamp", "payload": "EvStamp", "via_param": True},
                    {"name": "ev-list", "payload": "Vec<EvList>", "via_param": True}]
    d["cfg"]["type_mappings"] = {t: "string" for t in MAP_ROUTE_TYPES} if full else None
    return d


def maproute_edit(d, type_name, kind):
    """configuration-only edit of ONE type_mappings entry: target (change it; absent: add with the other target) |
    toggle (remove the entry / add it)"""
    tm = dict(d["cfg"].get("type_mappings") or {})
    if kind == "target":
        tm[type_name] = "number" if tm.get(type_name) == "string" else "string" if type_name in tm else "number"
    elif type_name in tm:
        del tm[type_name]
    else:
        tm[type_name] = "string"
    d["cfg"]["type_mappings"] = tm or None


def add_priv_fields(d):
    """User gets one field of every non-public visibility (all of them reach types.ts)"""
    for n, vis in PRIV_FIELDS.items():
        _struct(d, "User")["fields"].append({"name": n, "type": "String", "public": False, "vis": vis, "rename": None,
                                             "skip": False, "validator": None})
    return d


def pf_edit(d, field, kind):
    """an edit touching only one non-public field: type | optional | rename | validator | remove | vis (next visibility)"""
    fs = _struct(d, "User")["fields"]
    f = [x for x in fs if x["name"] == field]
    if kind == "remove":
        if f:
            fs.remove(f[0])
        else:
            fs.append({"name": field, "type": "String", "public": False, "vis": PRIV_FIELDS[field], "rename": None,
                       "skip": False, "validator": None})
        return
    if not f:
        return
    f = f[0]
    if kind == "type":
        _toggle(f, "type", "String", "u64")
    elif kind == "optional":
        _toggle(f, "type", "String", "Option<String>")
    elif kind == "rename":
        _toggle(f, "rename", None, "hidden")
    elif kind == "validator":
        _toggle(f, "validator", None, "length(min = 2, max = 5)")
    elif kind == "vis":
        order = ["", "pub(crate)", "pub(super)", "pub"]
        f["vis"] = order[(order.index(f.get("vis", "")) + 1) % 4]


PF_EDITS = ["pf:%s:%s" % (f, k) for f in PRIV_FIELDS for k in ("type", "optional", "rename", "validator", "remove", "vis")]

ROUTE_EDITS = ["rt:%s:%s" % (t, k) for t in ROUTE_TYPES
               for k in (("variant", "rename") if t == "EvKind" else ("field_type", "field_add", "rename", "validator"))]


# ------------------------------------------------------------------ rendering to Rust / config

def payload_expr(p):
    if p == "String":
        return '"x"'
    if p == "i32":
        return "1"
    if p == "bool":
        return "true"
    return "%s { ..Default::default() }" % p


def render_rs(f):
    o = ["use serde::{Deserialize, Serialize};", ""]
    if f.get("noise"):
        o += ["// a comment and a helper that is neither a command nor a serde type", "fn helper_noise() -> u8 { 0 }", ""]
    for s in f["structs"]:
        o.append("#[derive(Serialize, Deserialize, Default, Clone)]")
        if s.get("rename_all"):
            o.append('#[serde(rename_all = "%s")]' % s["rename_all"])
        if s["is_enum"]:
            o.append("pub enum %s {" % s["name"])
            for v in s["fields"]:
                if v.get("rename"):
                    o.append('    #[serde(rename = "%s")]' % v["rename"])
                o.append("    %s," % v["name"])
        else:
            o.append("pub struct %s {" % s["name"])
            for fl in s["fields"]:
                if fl.get("rename"):
                    o.append('    #[serde(rename = "%s")]' % fl["rename"])
                if fl.get("skip"):
                    o.append("    #[serde(skip)]")
                if fl.get("validator"):
                    o.append("    #[validate(%s)]" % fl["validator"])
                vis = fl.get("vis", "pub" if fl["public"] else "")
                o.append("    %s%s: %s," % (vis + " " if vis else "", fl["name"], fl["type"]))
        o.append("}")
        o.append("")
    for c in f["commands"]:
        o.append("#[tauri::command]")
        if c.get("rename_all"):
            o.append('#[serde(rename_all = "%s")]' % c["rename_all"])
        ps = ["%s%s: %s" % ('#[serde(rename = "%s")] ' % p["rename"] if p.get("rename") else "", p["name"], p["type"])
              for p in c["params"]]
        ps += ["%s: tauri::ipc::Channel<%s>" % (ch["name"], ch["msg"]) for ch in c["channels"]]
        o.append("pub %sfn %s(%s) -> %s {" % ("async " if c["async"] else "", c["name"], ", ".join(ps), c["ret"]))
        o.append("    todo!()")
        o.append("}")
        o.append("")
    for i, e in enumerate(f["events"]):
        if e.get("via_param"):
            # the payload is a typed parameter (enums: a variant path would be taken for the type name)
            o.append("fn emit_%d(app: tauri::AppHandle, payload: %s) {" % (i, e["payload"]))
            o.append('    app.emit("%s", payload).unwrap();' % e["name"])
            o.append("}")
            o.append("")
            continue
        o.append("fn emit_%d(app: tauri::AppHandle) {" % i)
        o.append('    app.emit("%s", %s).unwrap();' % (e["name"], payload_expr(e["payload"])))
        o.append("}")
        o.append("")
    return "\n".join(o)


def render_tauri_conf(cfg, with_cases=True):
    """tauri.conf.json with plugins.typegen (camelCase keys; interface/config.rs from_tauri_config)."""
    t = {"projectPath": "./" + SRC, "outputPath": "./" + OUT, "validationLibrary": cfg["validation_library"],
         "visualizeDeps": cfg["visualize_deps"], "includePrivate": cfg["include_private"]}
    if with_cases:
        t["defaultParameterCase"] = cfg["default_parameter_case"]
        t["defaultFieldCase"] = cfg["default_field_case"]
    if cfg.get("type_mappings") is not None:
        t["typeMappings"] = cfg["type_mappings"]
    if cfg.get("force") is not None:
        t["force"] = cfg["force"]
    return json.dumps({"productName": "demo", "plugins": {"typegen": t}}, indent=1)


def render_cfg(cfg):
    d = {"project_path": "./" + SRC, "output_path": "./" + OUT,
         "validation_library": cfg["validation_library"],
         "default_parameter_case": cfg["default_parameter_case"],
         "default_field_case": cfg["default_field_case"],
         "visualize_deps": cfg["visualize_deps"], "include_private": cfg["include_private"]}
    if cfg.get("type_mappings") is not None:
        d["type_mappings"] = cfg["type_mappings"]
    if cfg.get("force") is not None:
        d["force"] = cfg["force"]
    return json.dumps(d, indent=1)


def desc_hash(desc):
    return hashlib.sha256(json.dumps(desc, sort_keys=True).encode()).hexdigest()[:16]


# ------------------------------------------------------------------ rendering to the model's input

def opt(v):
    return [] if v is None else [v]


def sx_struct(path, s):
    fields = []
    for f in s["fields"]:
        if s["is_enum"]:
            fields.append(["f", f["name"], "enum_variant", False, True, opt(f.get("rename")), []])
        elif not f.get("skip"):
            # is_optional as the struct parser computes it: the type is an Option
            # is_public as the struct parser computes it: a plain `pub` only
            fields.append(["f", f["name"], f["type"], f["type"].startswith("Option<"), f.get("vis", "pub" if f["public"] else "") == "pub",
                           opt(f.get("rename")), opt(f.get("validator"))])
    return ["s", s["name"], path, s["is_enum"], fields, opt(s.get("rename_all"))]


def sx_command(path, c, line=0):
    ps = [["p", p["name"], p["type"], p["type"].startswith("Option<"), opt(p.get("rename"))] for p in c["params"]]
    chs = [["c", ch["name"], ch["msg"]] for ch in c["channels"]]
    return ["k", c["name"], path, str(line), ps, c["ret"], c["async"], chs, opt(c.get("rename_all"))]


def discovered_structs(desc):
    """Names of the structs/enums the analysis discovers: those mentioned by a parameter, return, channel message or
    event payload type, closed under field types (analysis/mod.rs resolve_types_lazily)."""
    import re
    defs = {s["name"]: s for f in desc["files"] for s in f["structs"]}
    todo = []
    for f in desc["files"]:
        for c in f["commands"]:
            todo += [p["type"] for p in c["params"]] + [c["ret"]] + [ch["msg"] for ch in c["channels"]]
        todo += [e["payload"] for e in f["events"]]
    seen = set()
    while todo:
        t = todo.pop()
        for name in re.findall(r"[A-Za-z_][A-Za-z0-9_]*", t):
            if name in defs and name not in seen:
                seen.add(name)
                if not defs[name]["is_enum"]:
                    todo += [fl["type"] for fl in defs[name]["fields"] if not fl.get("skip")]
    return seen


def sx_project(desc, src="./" + SRC):
    """src: the project path as spelled to the tool (file_path = <project path>/<file>).
    project = list of source files (path, commands, discovered structs, events); the discovery order is chosen
    by the schedule argument of the model, not here."""
    files = []
    disc = discovered_structs(desc)
    # two definitions of one name: the index of type definitions keeps the one of the last file in sorted path order
    winner = {}
    for f in sorted(desc["files"], key=lambda f: f["path"]):
        for s_ in f["structs"]:
            winner[s_["name"]] = f["path"]
    for f in desc["files"]:
        p = src + "/" + f["path"]
        text = render_rs(f).split("\n")
        lines = {c["name"]: 1 + next(i for i, l in enumerate(text) if ("fn %s(" % c["name"]) in l) for c in f["commands"]}
        files.append([p, [sx_command(p, c, lines[c["name"]]) for c in f["commands"]],
                      [sx_struct(p, s) for s in f["structs"] if s["name"] in disc and winner[s["name"]] == f["path"]],
                      [["e", e["name"], e["payload"]] for e in f["events"]], str(len(f["structs"]))])
    return files


def sx_cfg(cfg, map_order=None, ppath="./" + SRC):
    tm = cfg.get("type_mappings")
    if tm is None:
        maps = []
    else:
        keys = map_order if map_order is not None else sorted(tm)
        maps = [[[k, tm[k]] for k in keys]]
    return [cfg["validation_library"], bool(cfg["include_private"]), maps, cfg["default_parameter_case"],
            cfg["default_field_case"], bool(cfg["visualize_deps"]), bool(cfg.get("force")), ppath]


# ------------------------------------------------------------------ worlds (the real tool)

class World:
    """One sandbox holding a project, its configuration and the output directory."""

    def __init__(self, sandbox, entry, conf="cfile"):
        self.sb = sandbox
        self.entry = entry            # "cli" | "build"
        self.conf = conf              # "cfile": typegen.json (CLI: -c typegen.json) | "tauri": tauri.conf.json plugins.typegen
        self.desc = None

    # -- inputs
    def set_desc(self, desc):
        src = self.sb.path(SRC)
        if os.path.isdir(src):
            shutil.rmtree(src)
        os.makedirs(src)
        for f in desc["files"]:
            self.sb.write(os.path.join(SRC, f["path"]), render_rs(f))
        self.write_cfg(desc["cfg"])
        self.desc = copy.deepcopy(desc)

    def write_cfg(self, cfg):
        for n in ("typegen.json", "tauri.conf.json"):
            if os.path.exists(self.sb.path(n)):
                os.remove(self.sb.path(n))
        if self.conf == "tauri":
            self.sb.write("tauri.conf.json", render_tauri_conf(cfg))
        else:
            self.sb.write("typegen.json", render_cfg(cfg))

    def out(self, *rel):
        return self.sb.path(OUT, *rel)

    # -- observation of the output directory
    def stat(self):
        """{name: (mtime_ns, inode, bytes)} for regular files, {name: 'dir'} for directories."""
        d = {}
        top = self.out()
        if not os.path.isdir(top):
            return d
        for n in sorted(os.listdir(top)):
            p = os.path.join(top, n)
            if os.path.isdir(p) or not os.path.isfile(p):
                d[n] = "dir"          # an obstacle: a directory, or a link to a device (a link to a regular file is a file)
            else:
                st = os.stat(p)
                d[n] = (st.st_mtime_ns, st.st_ino, open(p, "rb").read())
        return d

    def files(self):
        """{name: content with the timestamp line neutralised} for regular files of the output directory."""
        return {n: vlib.strip_generated_at(v[2]) for n, v in self.stat().items() if v != "dir"}

    def cache_record(self):
        try:
            return json.load(open(self.out(CACHE)))
        except (OSError, ValueError):
            return None

    # -- one run in a fresh process
    def _exec(self, argv, stdin=None, fsize0=False):
        """fsize0: RLIMIT_FSIZE = 0 with SIGXFSZ ignored - every write to a regular file fails with EFBIG after a
        successful open (what a full disk looks like)."""
        if fsize0:
            blocks = 0 if fsize0 is True else int(fsize0)        # 512-byte blocks; True = 0 = every write fails
            argv = ["/bin/sh", "-c", "trap '' XFSZ; ulimit -f %d; exec \"$@\"" % blocks, "sh"] + list(argv)
        try:
            r = subprocess.run(argv, cwd=self.sb.root, input=stdin, stdout=subprocess.PIPE, stderr=subprocess.STDOUT,
                               text=True, env=vlib.ENV, timeout=120)
            return r.returncode, r.stdout
        except subprocess.TimeoutExpired:
            return -1, "TIMEOUT"

    def run(self, force=False, extra=(), args=None, fsize0=False):
        """args: complete CLI argument list after `generate` (invocation spellings); default: the configuration file.
        entry init: the `init` subcommand (writes typegen.json, then runs a generation with -p/-g/-v/--visualize-deps
        taken from the description); entry libgen: generate_from_config through the driver."""
        before = self.stat()
        if self.entry in ("cli", "init"):
            if self.entry == "init":
                cfg = self.desc["cfg"]
                args = ["init", "-p", "./" + SRC, "-g", "./" + OUT, "-o", "typegen.json", "--force",
                        "-v", cfg["validation_library"]] + (["--visualize-deps"] if cfg["visualize_deps"] else [])
            else:
                if args is None:
                    args = ["-c", "typegen.json"] if self.conf == "cfile" else []
                args = ["generate"] + list(args) + (["--force"] if force else []) + list(extra)
            rc, text = self._exec([vlib.REPO_BIN, "tauri-typegen"] + list(args), fsize0=fsize0)
            failed = rc != 0
        else:
            # the build entry has no flag: forcing goes through the configuration (done by the caller)
            sub = "gen" if self.entry == "build" else "genconf"
            _, out = self._exec([vlib.harness_bin("c08"), sub], stdin=json.dumps({"id": 0, "dir": self.sb.root}) + "\n", fsize0=fsize0)

            class _R:
                stdout = out
                returncode = 0
            r = _R()
            text = r.stdout
            obs = None
            for line in text.splitlines():
                if line.startswith('{"') and '"id"' in line:
                    try:
                        obs = json.loads(line)
                    except ValueError:
                        pass
            if obs is None:
                rc, failed = r.returncode or 99, True
                text += "\n<driver gave no observation>"
            elif "panic" in obs:
                rc, failed = 101, True
                text += "\nPANIC " + str(obs["panic"])
            else:
                failed = not obs["ok"]
                rc = 1 if failed else 0
                text = (obs.get("err") or "") + "\n" + text
        after = self.stat()
        rewritten = sorted(n for n in after if after[n] != "dir" and
                           (n not in before or before[n] == "dir" or before[n][:2] != after[n][:2]))
        changed_bytes = sorted(n for n in after if after[n] != "dir" and
                               (n not in before or before[n] == "dir" or before[n][2] != after[n][2]))
        removed = sorted(n for n in before if n not in after)
        if failed:
            decision = "failed"
        elif "No Tauri commands found" in text:
            decision = "no_commands"
        elif not rewritten and not removed:
            decision = "up_to_date"
        else:
            decision = "regenerated"
        if self.entry in ("cli", "init") and not failed:
            said_utd = "bindings are up to date" in text
            if said_utd != (decision == "up_to_date"):
                decision = "inconsistent(%s,said_up_to_date=%s)" % (decision, said_utd)
        return {"decision": decision, "rc": rc, "rewritten": rewritten, "changed_bytes": changed_bytes,
                "removed": removed, "text": text[-600:], "full_text": text}


_ref_lock = threading.Lock()
_ref_cache = {}


def reference(desc, entry):
    """Files of a forced generation of `desc` into an empty directory (timestamp neutralised), per entry point.
    Memoised on the description."""
    key = (desc_hash(desc), entry)
    with _ref_lock:
        if key in _ref_cache:
            return _ref_cache[key]
    with vlib.Sandbox("c08ref") as sb:
        w = World(sb, entry)
        d = copy.deepcopy(desc)
        if entry == "build":
            d["cfg"]["force"] = True
        w.set_desc(d)
        r = w.run(force=True)
        files = w.files()
        files.pop(CACHE, None)
        res = {"decision": r["decision"], "files": files}
    with _ref_lock:
        _ref_cache[key] = res
    return res


def canon(b):
    """Exact content. (Before C13-sort-before-use the declaration order followed hash order and contents were compared
    modulo the order of lines; generation is deterministic now, and the order of the items is part of the content:
    swapping two commands of a file changes what is generated.)"""
    return b


def stale_files(world, desc):
    """(missing, different, order_only): files of the reference generation that are absent from / differ in
    the world's output directory."""
    ref = reference(desc, world.entry)["files"]
    have = world.files()
    missing, different, order_only = [], [], []
    for n, b in sorted(ref.items()):
        if n not in have:
            missing.append(n)
        elif have[n] != b:
            if canon(have[n]) == canon(b):
                order_only.append(n)
            else:
                different.append(n)
    return missing, different, order_only


def model_file_name(n):
    return {"types.ts": "types", "commands.ts": "commands", "events.ts": "events", "index.ts": "index",
            "dependency-graph.txt": "graphtxt", "dependency-graph.dot": "graphdot", CACHE: "cache"}[n]


# ------------------------------------------------------------------ edit classes (one representative each)
# Every edit is an involution-free *toggle* on the description: applying it to a description that already has
# it applied undoes it, so that histories such as [e; e] visit the original state again.

def _struct(d, name):
    for f in d["files"]:
        for s in f["structs"]:
            if s["name"] == name:
                return s
    raise KeyError(name)


def _cmd(d, name):
    for f in d["files"]:
        for c in f["commands"]:
            if c["name"] == name:
                return c
    raise KeyError(name)


def _toggle(obj, key, a, b):
    obj[key] = b if obj.get(key) == a else a


def e_cmd_add(d):
    cs = d["files"][0]["commands"]
    if any(c["name"] == "ping" for c in cs):
        cs[:] = [c for c in cs if c["name"] != "ping"]
    else:
        cs.append({"name": "ping", "async": False, "rename_all": None, "params": [], "ret": "String", "channels": []})


def e_cmd_rename(d):
    c = d["files"][0]["commands"][0]
    _toggle(c, "name", "get_user", "fetch_user")


def e_param_type(d):
    _toggle(d["files"][0]["commands"][0]["params"][0], "type", "u32", "String")


def e_param_name(d):
    _toggle(d["files"][0]["commands"][0]["params"][0], "name", "user_id", "account_id")


def e_ret_type(d):
    _toggle(d["files"][0]["commands"][0], "ret", "Result<User, String>", "Result<Vec<User>, String>")


def e_async(d):
    c = d["files"][0]["commands"][0]
    c["async"] = not c["async"]


def e_field_add(d):
    s = _struct(d, "User")
    if any(f["name"] == "age" for f in s["fields"]):
        s["fields"][:] = [f for f in s["fields"] if f["name"] != "age"]
    else:
        s["fields"].append({"name": "age", "type": "u8", "public": True, "rename": None, "skip": False, "validator": None})


def e_field_type(d):
    _toggle(_struct(d, "User")["fields"][0], "type", "u32", "String")


def e_field_optional(d):
    _toggle(_struct(d, "User")["fields"][1], "type", "String", "Option<String>")


def e_serde_rename(d):
    _toggle(_struct(d, "User")["fields"][0], "rename", None, "uid")


def e_serde_rename_all(d):
    _toggle(_struct(d, "User"), "rename_all", None, "camelCase")


def e_serde_skip(d):
    f = _struct(d, "User")["fields"][2]
    f["skip"] = not f["skip"]


def e_cmd_rename_all(d):
    _toggle(d["files"][0]["commands"][0], "rename_all", None, "snake_case")


def e_param_rename(d):
    _toggle(d["files"][0]["commands"][0]["params"][0], "rename", None, "uid")


def e_enum_variant(d):
    s = _struct(d, "Status")
    if any(f["name"] == "Banned" for f in s["fields"]):
        s["fields"][:] = [f for f in s["fields"] if f["name"] != "Banned"]
    else:
        s["fields"].append({"name": "Banned", "rename": None})


def e_variant_rename(d):
    _toggle(_struct(d, "Status")["fields"][0], "rename", None, "on")


def e_validator(d):
    _toggle(_struct(d, "User")["fields"][1], "validator", "length(min = 1, max = 20)", "length(min = 3, max = 8)")


def _first_site(d):
    """the first emit site of the base event: in the active event list, or in the saved one while the project
    emits nothing (events_off), so that what comes back differs from what was removed"""
    f = d["files"][0]
    es = f["events"] if f["events"] else f.setdefault("_ev_saved", [])
    for e in es:
        if e["name"] in ("status-changed", "status-updated"):
            return e
    return None


def e_event_name(d):
    e = _first_site(d)
    if e is None:
        return
    new = "status-updated" if e["name"] == "status-changed" else "status-changed"
    f = d["files"][0]
    for x in (f["events"] if f["events"] else f.get("_ev_saved", [])):
        if x["name"] == e["name"] and x is not e:
            x["name"] = new
    e["name"] = new


def e_event_payload(d):
    e = _first_site(d)
    if e is not None:
        _toggle(e, "payload", "Progress", "String")


def e_event_add(d):
    es = d["files"][0]["events"]
    if any(e["name"] == "tick" for e in es):
        es[:] = [e for e in es if e["name"] != "tick"]
    else:
        es.append({"name": "tick", "payload": "i32"})


def e_events_off(d):
    """remove every emit (events present -> absent); applied again: bring the saved ones back"""
    f = d["files"][0]
    if f["events"]:
        f["_ev_saved"] = f["events"]
        f["events"] = []
    else:
        f["events"] = f.pop("_ev_saved", [])


def e_event_site2(d):
    """a second emit site of the first event's name with another payload type: absent -> i32 -> bool -> absent"""
    f = d["files"][0]
    es = f["events"] if f["events"] else f.setdefault("_ev_saved", [])
    first = _first_site(d)
    if first is None:
        return
    dup = [e for e in es if e["name"] == first["name"] and e is not first]
    if not dup:
        es.append({"name": first["name"], "payload": "i32"})
    elif dup[0]["payload"] == "i32":
        dup[0]["payload"] = "bool"
    else:
        es.remove(dup[0])


def e_channel(d):
    _toggle(_cmd(d, "set_status")["channels"][0], "msg", "Progress", "User")


def e_mode(d):
    _toggle(d["cfg"], "validation_library", "none", "zod")


def e_type_mapping(d):
    _toggle(d["cfg"], "type_mappings", None, {"DateTime<Utc>": "string"})


def e_map_target(d):
    """change the TypeScript target of an existing mapping (or introduce the mapping with the other target)"""
    tm = d["cfg"].get("type_mappings")
    if not tm or "DateTime<Utc>" not in tm:
        d["cfg"]["type_mappings"] = {"DateTime<Utc>": "Date"}
    else:
        tm["DateTime<Utc>"] = "Date" if tm["DateTime<Utc>"] == "string" else "string"


def e_map_add(d):
    """add / remove a further mapping next to whatever is configured"""
    tm = d["cfg"].get("type_mappings")
    if tm and "Uuid" in tm:
        del tm["Uuid"]
        if not tm:
            d["cfg"]["type_mappings"] = None
    else:
        d["cfg"]["type_mappings"] = dict(tm or {}, Uuid="string")


def e_include_private(d):
    d["cfg"]["include_private"] = not d["cfg"]["include_private"]


def e_param_case(d):
    _toggle(d["cfg"], "default_parameter_case", "camelCase", "snake_case")


def e_field_case(d):
    _toggle(d["cfg"], "default_field_case", "snake_case", "camelCase")


def e_cmd_swap(d):
    """reorder items within a file"""
    d["files"][0]["commands"].reverse()


def e_cmd_move(d):
    """move an item to another file (and back)"""
    fs = d["files"]
    more = [f for f in fs if f["path"] == "zz_more.rs"]
    if more:
        fs[0]["commands"] += more[0]["commands"]
        fs.remove(more[0])
    elif len(fs[0]["commands"]) >= 2:
        fs.append({"path": "zz_more.rs", "structs": [], "events": [], "commands": [fs[0]["commands"].pop()]})


def e_unused_struct(d):
    """add / remove an item nothing refers to"""
    ss = d["files"][0]["structs"]
    if any(s_["name"] == "Orphan" for s_ in ss):
        ss[:] = [s_ for s_ in ss if s_["name"] != "Orphan"]
    else:
        ss.append({"name": "Orphan", "is_enum": False, "rename_all": None, "fields": [
            {"name": "x", "type": "u8", "public": True, "rename": None, "skip": False, "validator": None}]})


# order-only edits: one per ordered collection that reaches the output
def e_param_swap(d):
    d["files"][0]["commands"][0]["params"].reverse()


def e_field_swap(d):
    _struct(d, "User")["fields"].reverse()


def e_variant_swap(d):
    _struct(d, "Status")["fields"].reverse()


def e_channel_swap(d):
    _cmd(d, "set_status")["channels"].reverse()


def e_event_swap(d):
    """order of the emit sites (only meaningful with two or more)"""
    d["files"][0]["events"].reverse()


def e_struct_swap(d):
    """order of the type definitions within the file"""
    d["files"][0]["structs"].reverse()


# a rename / rename_all that spells out what would apply anyway - or that opts one member out of the container rule
def e_rename_own_field(d):
    """#[serde(rename = "<the Rust name itself>")] on a field (opts it out of rename_all / defaultFieldCase)"""
    _toggle(_struct(d, "User")["fields"][0], "rename", None, _struct(d, "User")["fields"][0]["name"])


def e_rename_own_variant(d):
    _toggle(_struct(d, "Status")["fields"][0], "rename", None, _struct(d, "Status")["fields"][0]["name"])


def e_enum_rename_all(d):
    _toggle(_struct(d, "Status"), "rename_all", None, "snake_case")


def e_cmd_rename_all_camel(d):
    """rename_all = "camelCase" on a command: the default convention spelled out (matters under another defaultParameterCase)"""
    _toggle(d["files"][0]["commands"][0], "rename_all", None, "camelCase")


def e_serde_rename_all_snake(d):
    """rename_all = "snake_case" on a struct: the default field convention spelled out"""
    _toggle(_struct(d, "User"), "rename_all", None, "snake_case")


def e_force(d):
    """force: true in the configuration file"""
    _toggle(d["cfg"], "force", None, True)


def e_noise(d):
    f = d["files"][0]
    f["noise"] = not f.get("noise")


def e_visualize(d):
    d["cfg"]["visualize_deps"] = not d["cfg"]["visualize_deps"]


EDITS = {
    "cmd_add": e_cmd_add, "cmd_rename": e_cmd_rename, "param_type": e_param_type, "param_name": e_param_name,
    "ret_type": e_ret_type, "async": e_async, "field_add": e_field_add, "field_type": e_field_type,
    "field_optional": e_field_optional, "serde_rename": e_serde_rename, "serde_rename_all": e_serde_rename_all,
    "serde_skip": e_serde_skip, "cmd_rename_all": e_cmd_rename_all, "param_rename": e_param_rename, "enum_variant": e_enum_variant,
    "variant_rename": e_variant_rename, "validator": e_validator, "event_name": e_event_name,
    "event_payload": e_event_payload, "event_add": e_event_add, "events_off": e_events_off, "event_site2": e_event_site2, "channel": e_channel, "mode": e_mode,
    "type_mapping": e_type_mapping, "param_case": e_param_case, "field_case": e_field_case,
    "visualize": e_visualize, "noise": e_noise, "rename_own_field": e_rename_own_field, "rename_own_variant": e_rename_own_variant, "enum_rename_all": e_enum_rename_all,
    "cmd_rename_all_camel": e_cmd_rename_all_camel, "serde_rename_all_snake": e_serde_rename_all_snake,
    "cmd_swap": e_cmd_swap, "param_swap": e_param_swap, "field_swap": e_field_swap, "variant_swap": e_variant_swap,
    "channel_swap": e_channel_swap, "event_swap": e_event_swap, "struct_swap": e_struct_swap, "cmd_move": e_cmd_move, "unused_struct": e_unused_struct, "map_target": e_map_target, "map_add": e_map_add, "include_private": e_include_private,
}


def apply_edit(desc, name):
    d = copy.deepcopy(desc)
    for part in name.rstrip("!").split("+"):
        if part.startswith("rt:"):
            _, t, k = part.split(":")
            route_edit(d, t, k)
        elif part.startswith("pf:"):
            _, f_, k_ = part.split(":")
            pf_edit(d, f_, k_)
        elif part.startswith("mt:"):
            _, t, k = part.split(":")
            maproute_edit(d, t, k)
        elif part == "force":
            e_force(d)
        elif part:
            EDITS[part](d)
    return d
