"""C08 - the cache never leaves stale bindings. Correspondence: scripted histories (edits from one
representative per output-affecting class, deletion of output files, non-forced runs) run through the real
tool on both entry points, each step compared with the extracted run/cache model (decision, files missing
from / differing from a forced generation into an empty directory); plus the fingerprint partition test.
Oracle: Model/C08Run.v c08_ok applied to what the implementation did."""
import copy
import itertools
import os
import random

from tools import vlib
from tools.vlib import Outcome, sx
from tools.props import c08_common as C
from tools.props import c08_text

MANIFEST = {
    "level_text": "Coq theorems (Properties/C08.v, no axioms) about an executable model of the run/cache state machine shared by run_generate and BuildSystem::generate_bindings, instantiated with the fingerprint = exactly the fields hash_commands/hash_structs/hash_config serialise and with per-file views of the data the generators read: for every history of edits, file deletions, cache deletions and (un)forced runs under every discovery order, a non-forced run that reports success or up-to-date leaves every file of a forced generation in place, unless the final state lies in one of three recorded classes (events differ, command line numbers differ under visualize_deps, loss of a vouched file), each refuted on the faithful model by a computed history; the former classes (serde rename/rename_all, validator attributes, command rename_all, parameter rename, visualize_deps) are hashed since the repair C08-C14-hash-inputs and their old witnesses are proved detected; completeness of the class list (equal fingerprint and equal unhashed components give equal files); the repaired design (sound fingerprint + presence test) is sound for all histories. Tied to /repo on every run by replaying all edit/deletion histories of length <=2 (quick) / <=3 (thorough) through the real CLI binary and through BuildSystem::generate_at_build_time in fresh processes and comparing every step with the extracted model, and by the hash-partition test on .typecache. Text level (round 7, Model/C08Text.v): over projects given as syntax (the item forms of Model/Pipeline.v) with the analysis abs_project into the analysed data, the projection view_of and the generated text of the text-level generator models (Pipeline.v types.ts / commands.ts token streams, PipelineZod.v zod types.ts / commands.ts text, Events.v events.ts text): the text is a function of the view (C08_text_function_of_view, via the factorisation C08_types_ts_of_analysis through the analysed data in hash order), the fingerprint covers the view (C08_fp_covers_view modulo class 8, C08_fp_covers_view_no_graph) and the text with no side condition (C08_fp_covers_text), and the same run/cache machine with text contents is sound for every history (C08_cache_sound_text outside class 8, C08_cache_sound_text_no_graph with no class premise): success or up-to-date leaves types.ts / commands.ts (both modes) and events.ts (plain mode) holding the text of a forced generation; in the other direction a changed struct name, field key at any position, command name and event name provably changes the text (C08_*_changes_*). The extracted oracle c08_ok and the boolean all_current are proved equivalent to the Prop-level statement (C08_oracle_reflects, C08_all_current_reflects). Run-time tie of the text level: stream `text` compares the real tool's types.ts / commands.ts / events.ts of forced generations (both entry points) token for token with the model's text computed from the analysed data.",
    "design_ref": "DESIGN.md section 5 C08, C14, C17; section 11 cache_sound",
    "level_note": "Two levels. View level (C08_cache_sound, faithful to every file of the plan): file contents are views (the data a file is rendered from). Text level (C08_cache_sound_text): types.ts and commands.ts in both modes and events.ts in plain mode hold the text of the generator models Pipeline.v / PipelineZod.v / Events.v, proved to be a function of the view and covered by the fingerprint; index.ts, dependency-graph.txt/.dot and the zod-mode events.ts remain views at that level (no text-level generator model exists for them). The text-level models cover the documented feature set under the default naming configuration (camelCase parameters, snake_case fields; no enums, no parameter renames, no command rename_all, no validator attributes, type_mappings applied to event payloads only) - for the rest (enums, non-default naming, validators) that equal views give equal text and different views different text is still checked differentially per edit class, not proved. Different view => different text is proved only for four edit classes (struct name, field key, command name, event name without a quote character), not in general (the view is finer than the text: e.g. async, is_public, file paths). The generation order used at the text level is the hash order (structs by name, commands by relative file then source order); its agreement with the order the real generators use (PathBuf order of the sorted file list, name order of the struct map) is checked by the `text` stream, not proved. The `text` stream runs struct-only projects of 1-3 files and 8 (quick) / 20 variants of the Pipeline.v sample, plain mode only. SipHash collision freedom is assumed (fingerprint equality = combined_hash equality, checked by the partition test); types reachable only through event payloads are not tracked by the types.ts view; edits are one representative per class on one base project per mode.",
    "technique": "Rocq/Coq proof over hand-written model + correspondence check (extracted OCaml vs real binary and Rust driver)"
}

RULE = ("histories: quick - every op of the full alphabet at length 1 (none and zod), every pair over a one-per-class alphabet of 25 ops, 200+60 sampled pairs over the full alphabet, length 3 over 5 hashed edits; thorough - every pair over the full alphabet, length 3 over 8 hashed edits, length 3 over a "
        "17-op alphabet and 1500 sampled of length 4-6 per entry (thorough), alphabet = "
        "{one toggle edit per class, delete types.ts/commands.ts/events.ts/index.ts/.typecache}, each op followed by a non-forced "
        "run in a fresh process, on the CLI path and the build-script path, base project in mode none (all) and zod (length<=1 and "
        "sampled); partition: base x edit for both modes. A history is non-trivial when it has at least one op; distinct = distinct "
        "(entry, base, ops)")
TRUSTED = ["python renderer description -> Rust source / typegen.json and description -> analysed data (tools/props/c08_common.py)",
           "classification of a step from exit status, printed text and mtime/inode changes of the output directory"]
ASSUMPTIONS = ["equal combined_hash <=> equal fingerprint (SipHash-1-3 collision freedom; partition test)",
               "a forced generation into an empty directory is the reference; differences in line order only are attributed to C13"]

STATS = {}
KF_BY_CLASS = {8: "C08-8"}
DELETES = ["delete:types.ts", "delete:commands.ts", "delete:events.ts", "delete:index.ts", "delete:.typecache"]
# reduced alphabet for length-3 enumeration: one per class named in the property text + file loss
CORE = ["cmd_add", "param_type", "ret_type", "field_add", "serde_rename", "serde_rename_all", "serde_skip", "enum_variant",
        "validator", "event_name", "event_payload", "channel", "mode", "type_mapping", "param_case", "field_case",
        "delete:types.ts"]


SAFE = ["cmd_add", "param_type", "ret_type", "field_add", "enum_variant", "channel", "mode", "param_case"]


def base_desc(mode, viz=False, maps=False):
    d = C.base_project()
    d["cfg"]["validation_library"] = mode
    d["cfg"]["visualize_deps"] = bool(viz)
    if maps:
        d["cfg"]["type_mappings"] = {"DateTime<Utc>": "string"}
    return d


def case_base(case):
    if case.get("maproutes"):
        d = C.maproutes_project(full=(case["maproutes"] == "full"))
        d["cfg"]["validation_library"] = case["base"]
        return d
    if case.get("routes"):
        d = C.routes_project()
        d["cfg"]["validation_library"] = case["base"]
        return d
    d = base_desc(case["base"], case.get("viz") or bool(case.get("vizvia")), case.get("maps"))
    if case.get("privfields"):
        C.add_priv_fields(d)
        d["cfg"]["include_private"] = bool(case.get("include_private"))
    return d


def sched_of(desc):
    tm = desc["cfg"].get("type_mappings")
    return [list(range(len(desc["files"]))), list(range(len(tm))) if tm else []]


def run_history(case):
    """Run one history through the real tool. Returns (model sexp, [per-run observation])."""
    desc = case_base(case)
    steps = [["run", sched_of(desc), False, None]]
    obs = []
    with vlib.Sandbox("c08h") as sb:
        via = case.get("vizvia")
        w = C.World(sb, case["entry"], "tauri" if via == "tauri" else case.get("conf", "cfile"))
        extra = ["--visualize-deps"] if via == "flag" else []

        def put(dsc):
            if via == "flag":
                on_disk = copy.deepcopy(dsc)
                on_disk["cfg"]["visualize_deps"] = False          # the flag supplies it
                w.set_desc(on_disk)
            else:
                w.set_desc(dsc)
        put(desc)

        def observe(r):
            mi, di, oo = C.stale_files(w, desc)
            return {"decision": r["decision"], "missing": [C.model_file_name(n) for n in mi],
                    "different": [C.model_file_name(n) for n in di], "order_only": oo, "text": r["text"][-200:]}
        obs.append(observe(w.run(extra=extra)))
        for op in case["ops"]:
            if op.startswith("cache:"):
                # the record rewritten as other versions of the tool would leave it: a key missing, an unknown key.
                # serde fills / ignores them and combined_hash decides, so the model takes no step
                try:
                    import json
                    rec = json.load(open(w.out(C.CACHE)))
                    if op == "cache:drop_events_hash":
                        rec.pop("events_hash", None)
                    else:
                        rec["written_by"] = "a newer version"
                    json.dump(rec, open(w.out(C.CACHE), "w"), indent=2)
                except (OSError, ValueError):
                    pass
            elif op.startswith("delete:"):
                n = op.split(":", 1)[1]
                try:
                    os.remove(w.out(n))
                except OSError:
                    pass
                steps.append(["dropcache"] if n == C.CACHE else ["delete", C.model_file_name(n)])
            else:
                desc = C.apply_edit(desc, op)
                put(desc)
                steps.append(["set", C.sx_project(desc), C.sx_cfg(desc["cfg"])])
            forced_now = op.endswith("!")        # this one run is forced: --force on the CLI, "force": true for the build
            if forced_now and case["entry"] == "build":
                tmp = copy.deepcopy(desc)
                tmp["cfg"]["force"] = True
                put(tmp)
                steps.append(["set", C.sx_project(tmp), C.sx_cfg(tmp["cfg"])])
            steps.append(["run", sched_of(desc), forced_now and case["entry"] == "cli", None])
            obs.append(observe(w.run(force=(forced_now and case["entry"] == "cli"), extra=extra)))
            if forced_now and case["entry"] == "build":
                put(desc)
                steps.append(["set", C.sx_project(desc), C.sx_cfg(desc["cfg"])])
    base = case_base(case)
    return sx([C.sx_project(base), C.sx_cfg(base["cfg"]), steps]), obs, desc


def eval_histories(cases):
    res = vlib.pmap(run_history, cases)
    model = vlib.run_runner("c08-trace", [r[0] for r in res])
    # oracle on the implementation's observations (extracted Gallina predicate)
    oracle_in, idx = [], []
    for i, (_, obs, _) in enumerate(res):
        for k, o in enumerate(obs):
            dec = o["decision"] if o["decision"] in ("no_commands", "up_to_date", "regenerated", "failed") else "failed"
            oracle_in.append(sx([dec, list(o["missing"]), list(o["different"])]))
            idx.append((i, k))
    oracle = dict(zip(idx, vlib.run_runner("c08-oracle", oracle_in)))
    outs = []
    order_only = finer = 0
    for i, (case, (_, obs, desc), m) in enumerate(zip(cases, res, model)):
        if m and m[0] == "runner-error":
            raise vlib.BuildError("runner: %s" % m)
        corr = ok = True
        kf = None
        all_failing_known = True
        detail = None
        for k, (o, mo) in enumerate(zip(obs, m)):
            m_dec, m_mi, m_di, m_cls = mo[0], sorted(mo[1]), sorted(mo[2]), [int(x) for x in mo[3]]
            # decisions and missing files exactly; the model's views are at least as fine as the text, so a file the
            # model calls stale may be textually unchanged (e.g. rename_all on a command whose only parameter has an
            # explicit rename), never the other way round
            step_corr = (o["decision"] == m_dec and sorted(o["missing"]) == m_mi and set(o["different"]) <= set(m_di))
            finer += len(set(m_di) - set(o["different"]))
            step_ok = oracle[(i, k)] == "true" and o["decision"] in ("no_commands", "up_to_date", "regenerated", "failed")
            order_only += len(o["order_only"])
            if not step_ok:
                if m_cls:
                    kf = kf or KF_BY_CLASS.get(m_cls[0])
                else:
                    all_failing_known = False
            if (not step_corr or not step_ok) and detail is None:
                detail = {"step": k, "impl": o, "model": {"decision": m_dec, "missing": m_mi, "different": m_di, "classes": m_cls}}
            corr &= step_corr
            ok &= step_ok
        if not all_failing_known:
            kf = None
        if detail is None:
            detail = {"impl": [o["decision"] for o in obs], "model": [mo[0] for mo in m]}
        else:
            detail["final_sources"] = {f["path"]: C.render_rs(f) for f in desc["files"]}
            detail["final_config"] = C.render_cfg(desc["cfg"])
            detail["decisions"] = [o["decision"] for o in obs]
        outs.append(Outcome(case, corr, ok, kf=kf, detail=detail, nontrivial=bool(case["ops"])))
    STATS["model_stale_but_text_equal"] = STATS.get("model_stale_but_text_equal", 0) + finer
    return outs, order_only


# ---- partition test -------------------------------------------------------------------------------------

def run_partition(case):
    base = case_base(case)
    ed = C.apply_edit(base, case["edit"])
    hashes = []
    for d in (base, ed):
        with vlib.Sandbox("c08q") as sb:
            w = C.World(sb, case["entry"], case.get("conf", "cfile"))
            w.set_desc(d)
            w.run()
            hashes.append(w.cache_record())
    ra, rb = C.reference(base, case["entry"])["files"], C.reference(ed, case["entry"])["files"]
    files_eq = set(ra) == set(rb) and all(C.canon(ra[n]) == C.canon(rb[n]) for n in ra)
    hash_eq = bool(hashes[0] and hashes[1] and hashes[0]["combined_hash"] == hashes[1]["combined_hash"])
    s = sx([sched_of(base), C.sx_project(base), C.sx_cfg(base["cfg"]), sched_of(ed), C.sx_project(ed), C.sx_cfg(ed["cfg"])])
    # classes through the model: history [run; set; run]
    h = sx([C.sx_project(base), C.sx_cfg(base["cfg"]),
            [["run", sched_of(base), False, None], ["set", C.sx_project(ed), C.sx_cfg(ed["cfg"])], ["run", sched_of(ed), False, None]]])
    return s, h, {"hash_eq": hash_eq, "files_eq": files_eq, "records": hashes}


def eval_partition(cases):
    res = vlib.pmap(run_partition, cases)
    m = vlib.run_runner("c08-fpeq", [r[0] for r in res])
    t = vlib.run_runner("c08-trace", [r[1] for r in res])
    outs = []
    for case, (_, _, o), mm, tt in zip(cases, res, m, t):
        m_fp, m_files, valid = mm[0] == "true", mm[1] == "true", mm[2] == "true"
        # views are at least as fine as the text: equal views must give equal files; on equal hashes
        # (where only unhashed components can differ) the two must agree exactly
        corr = (valid and o["hash_eq"] == m_fp and (not m_files or o["files_eq"])
                and (not o["hash_eq"] or o["files_eq"] == m_files))
        ok = not (o["hash_eq"] and not o["files_eq"])        # an output-changing edit must change the hash
        cls = [int(x) for x in tt[-1][3]]
        kf = KF_BY_CLASS.get(cls[0]) if (cls and not ok) else None
        outs.append(Outcome(case, corr, ok, kf=kf, nontrivial=True,
                            detail={"impl": {"hash_eq": o["hash_eq"], "files_eq": o["files_eq"]},
                                    "model": {"fp_eq": m_fp, "files_eq": m_files, "classes": cls},
                                    "records": o["records"]}))
    return outs


# ---- case sets ------------------------------------------------------------------------------------------

def witnesses():
    """Known-finding witnesses (corpus first), each on both entry points."""
    w = []
    for e in vlib.load_known_findings("C08"):
        for wit in e.get("witnesses", [e["witness"]]):
            for entry in ("cli", "build"):
                c = dict(wit)
                c["entry"] = entry
                w.append(c)
    return w


def regressions(pid):
    """corpus/<ID>/regressions.json: past false alarms, replayed first on every run."""
    import json
    path = os.path.join(vlib.VERIF, "corpus", pid, "regressions.json")
    if not os.path.exists(path):
        return []
    return [{k: v for k, v in c.items() if k != "note"} for c in json.load(open(path))]


# one representative per edit class of the property text (+ the unhashed / noise / deletion classes): the alphabet of
# the exhaustive length-2 enumeration of the quick tier; the full alphabet (several representatives per class) is used
# at length 1, in the sampled pairs and, exhaustively, in the thorough tier
ALPHA = CORE + ["param_swap", "field_swap", "channel_swap", "cmd_swap", "cmd_move", "unused_struct", "event_add", "visualize", "noise", "map_target", "include_private", "cmd_rename_all", "delete:.typecache",
                "delete:commands.ts"]


def history_cases(tier, rng):
    ops = sorted(C.EDITS) + DELETES
    cases = []
    for entry in ("cli", "build"):
        for n in (0, 1):
            for seq in itertools.product(ops, repeat=n):
                cases.append({"entry": entry, "base": "none", "ops": list(seq)})
                cases.append({"entry": entry, "base": "zod", "ops": list(seq)})
        for seq in itertools.product(ops if tier == "thorough" else ALPHA, repeat=2):
            cases.append({"entry": entry, "base": "none", "ops": list(seq)})
        for op in ops:
            cases.append({"entry": entry, "base": "none", "viz": True, "ops": [op]})
        for _ in range(60 if tier == "quick" else 600):
            cases.append({"entry": entry, "base": "zod", "ops": [rng.choice(ops), rng.choice(ops)]})
        if tier == "quick":
            for _ in range(120):
                cases.append({"entry": entry, "base": "none", "ops": [rng.choice(ops), rng.choice(ops)]})
        # every sequence of length 3 over hashed edits
        for seq in itertools.product(SAFE if tier == "thorough" else SAFE[:5], repeat=3):
            cases.append({"entry": entry, "base": "none", "ops": list(seq)})
        if tier == "thorough":
            for seq in itertools.product(CORE, repeat=3):
                cases.append({"entry": entry, "base": "none", "ops": list(seq)})
            for _ in range(1500):
                k = rng.randint(4, 6)
                cases.append({"entry": entry, "base": rng.choice(["none", "zod"]), "ops": [rng.choice(ops) for _ in range(k)]})
        else:
            for _ in range(60):
                k = rng.randint(3, 5)
                cases.append({"entry": entry, "base": rng.choice(["none", "zod"]), "ops": [rng.choice(ops) for _ in range(k)]})
    return cases


# every hashed configuration value on its own: library, a mapping's target, adding/removing a mapping,
# parameter case, field case, include_private (+ visualize_deps, unhashed)
CFG_EDITS = ["mode", "type_mapping", "map_target", "map_add", "include_private", "param_case", "field_case", "visualize"]
# since C19-5 plugins.typegen of tauri.conf.json carries the naming-case keys too
TAURI_CFG_EDITS = list(CFG_EDITS)


def cfg_edits(conf):
    return CFG_EDITS if conf == "cfile" else TAURI_CFG_EDITS


def partition_cases():
    cases = [{"entry": entry, "base": mode, "edit": e} for entry in ("cli", "build") for mode in ("none", "zod")
             for e in sorted(C.EDITS)]
    for entry in ("cli", "build"):
        for conf in ("cfile", "tauri"):
            for maps in (False, True):
                for e in cfg_edits(conf):
                    cases.append({"entry": entry, "base": "none", "edit": e, "conf": conf, "maps": maps})
    return cases


# previous-state-dependent paths through the event part of the record: events present -> absent -> different,
# several emit sites of one name with different payload types edited in turn, records of other formats
EV_OPS = ["event_payload", "event_site2", "event_name", "events_off", "event_add", "cache:drop_events_hash"]
EV_MORE = ["cache:extra_key", "delete:events.ts", "delete:index.ts"]


def event_histories(tier, rng):
    cases = []
    for entry in ("cli", "build"):
        for n in (1, 2):
            for seq in itertools.product(EV_OPS + EV_MORE, repeat=n):
                cases.append({"entry": entry, "base": "none", "ops": list(seq)})
        # length 3 exhaustively on the CLI path (quick); both paths in the thorough tier (the event part of the record is
        # shared code, the build path keeps lengths <= 2 and the sampled longer ones)
        if entry == "cli" or tier == "thorough":
            for seq in itertools.product(EV_OPS, repeat=3):
                cases.append({"entry": entry, "base": "none", "ops": list(seq)})
        if tier == "thorough":
            for seq in itertools.product(EV_OPS, repeat=4):
                cases.append({"entry": entry, "base": "zod", "ops": list(seq)})
        for _ in range(60 if tier == "quick" else 600):
            cases.append({"entry": entry, "base": rng.choice(["none", "zod"]),
                          "ops": [rng.choice(EV_OPS + EV_MORE) for _ in range(rng.randint(4, 5))]})
    return cases


def route_histories(tier, rng):
    """edits confined to the definition of a type reachable through one route only (event payload, nested below it, enum
    payload, channel message, nested below it, error position) x edit kinds"""
    cases = []
    for entry in ("cli", "build"):
        for mode in ("none", "zod"):
            for e in C.ROUTE_EDITS:
                cases.append({"entry": entry, "base": mode, "routes": True, "ops": [e]})
        for _ in range(40 if tier == "quick" else 400):
            cases.append({"entry": entry, "base": rng.choice(["none", "zod"]), "routes": True,
                          "ops": [rng.choice(C.ROUTE_EDITS + ["events_off", "event_name", "cmd_swap"]) for _ in range(rng.randint(2, 3))]})
    return cases


def mapping_histories():
    """class of seeded C08-12: configuration-only edits of ONE type_mappings entry whose Rust type is mentioned through
    one route only (event payload of a helper, inside Vec of an event payload, channel message, return type, struct
    field, parameter): change the target / remove the entry / remove and add it back (base with every entry), add the
    entry (base with no mapping); typegen.json (-c) and tauri.conf.json; both routes"""
    cases = []
    for entry in ("cli", "build"):
        for conf in ("cfile", "tauri"):
            for t in C.MAP_ROUTE_TYPES:
                for mode in (("none", "zod") if t.startswith("Ev") else ("none",)):
                    for full, ops in (("full", ["mt:%s:target" % t]), ("full", ["mt:%s:toggle" % t]),
                                      ("full", ["mt:%s:toggle" % t, "mt:%s:toggle" % t]), ("empty", ["mt:%s:toggle" % t]),
                                      ("empty", ["mt:%s:toggle" % t, "mt:%s:target" % t])):
                        cases.append({"entry": entry, "base": mode, "conf": conf, "maproutes": full, "ops": ops})
    return cases


def force_histories(tier, rng):
    """>= 3 runs mixing forced runs ("force": true in the configuration file: `e+force`; one run forced by --force /
    by the file: `e!`) with unforced ones and reverting to an earlier state (every edit is a toggle: `e ... e`)"""
    edits = ["field_add", "param_type", "cmd_add", "serde_rename", "event_name", "mode", "type_mapping", "param_swap"]
    cases = []
    for entry in ("cli", "build"):
        for conf in ("cfile", "tauri"):
            for e in edits:
                for seq in ([e + "!", e], [e + "+force", e + "+force"], [e, e + "!", e], [e + "!", e + "!", e],
                            ["force", e, e + "+force"], [e + "+force", "force", e], [e + "!", "noise", e],
                            [e + "+force", e + "+force", e]):
                    cases.append({"entry": entry, "base": "none", "conf": conf, "ops": seq})
        for _ in range(40 if tier == "quick" else 400):
            a, b = rng.sample(edits, 2)
            pool = [a, b, a + "!", b + "!", a + "+force", "force", "delete:types.ts", "variant_swap", "event_swap"]
            cases.append({"entry": entry, "base": rng.choice(["none", "zod"]), "conf": rng.choice(["cfile", "tauri"]),
                          "ops": [rng.choice(pool) for _ in range(rng.randint(3, 5))]})
    return cases


def visibility_histories():
    """field visibility (private, pub(crate), pub(super), pub) as a dimension of the struct-field edits, x include_private"""
    cases = []
    for entry in ("cli", "build"):
        for mode in ("none", "zod"):
            for ip in (False, True):
                for e in C.PF_EDITS:
                    cases.append({"entry": entry, "base": mode, "privfields": True, "include_private": ip, "ops": [e]})
                cases.append({"entry": entry, "base": mode, "privfields": True, "include_private": ip,
                              "ops": ["include_private", "pf:secret:type"]})
    return cases


NAMING = ["serde_rename_all", "serde_rename_all_snake", "field_case", "rename_own_field", "serde_rename", "enum_rename_all",
          "rename_own_variant", "variant_rename", "param_case", "cmd_rename_all_camel", "cmd_rename_all", "param_rename"]


def naming_histories():
    """the three-level naming priority rename > container rename_all > configured default case: every pair of naming edits,
    including renames to the member's own name and rename_all values that spell out the default"""
    cases = []
    for entry in ("cli", "build"):
        for mode in ("none", "zod"):
            for n in (1, 2):
                for seq in itertools.product(NAMING, repeat=n):
                    if mode == "zod" and n == 2 and entry == "build":
                        continue
                    cases.append({"entry": entry, "base": mode, "ops": list(seq)})
    return cases


def order_histories():
    """order-only edits of every ordered collection that reaches the output, each on its own and after one another"""
    order = ["param_swap", "field_swap", "variant_swap", "channel_swap", "event_swap", "struct_swap", "cmd_swap"]
    cases = []
    for entry in ("cli", "build"):
        for mode in ("none", "zod"):
            for e in order:
                cases.append({"entry": entry, "base": mode, "ops": [e]})
                cases.append({"entry": entry, "base": mode, "ops": ["event_add", e]})
                cases.append({"entry": entry, "base": mode, "routes": True, "ops": [e]})
    return cases


LOSABLE = ["types.ts", "commands.ts", "events.ts", "index.ts", "dependency-graph.txt", "dependency-graph.dot"]


def loss_histories():
    """the loss of every file a forced run writes, for every way the optional graph output can be switched on: in
    typegen.json (-c / build path), in tauri.conf.json (both routes), by the --visualize-deps flag (CLI)"""
    cases = []
    for entry, vias in (("cli", ("cfile", "tauri", "flag")), ("build", ("cfile", "tauri"))):
        for via in vias:
            for mode in ("none", "zod"):
                for a in LOSABLE:
                    cases.append({"entry": entry, "base": mode, "vizvia": via, "ops": ["delete:" + a]})
                for a, b in (("dependency-graph.txt", "dependency-graph.dot"), ("events.ts", "dependency-graph.dot"),
                             ("index.ts", "dependency-graph.txt")):
                    cases.append({"entry": entry, "base": mode, "vizvia": via, "ops": ["delete:" + a, "delete:" + b]})
    return cases


def config_histories():
    """all sequences of length <= 2 over the configuration-value edits, through typegen.json / -c and through
    tauri.conf.json, from a base without and with a type mapping"""
    cases = []
    for entry in ("cli", "build"):
        for conf in ("cfile", "tauri"):
            for maps in (False, True):
                for n in ((1, 2) if maps else (1,)):
                    for seq in itertools.product(cfg_edits(conf), repeat=n):
                        cases.append({"entry": entry, "base": "none", "conf": conf, "maps": maps, "ops": list(seq)})
    return cases


def distribution(cases):
    d = {"by_length": {}, "by_entry": {}, "by_base": {}, "ops": {}}
    for c in cases:
        d["by_length"][len(c["ops"])] = d["by_length"].get(len(c["ops"]), 0) + 1
        d["by_entry"][c["entry"]] = d["by_entry"].get(c["entry"], 0) + 1
        d["by_base"][c["base"]] = d["by_base"].get(c["base"], 0) + 1
        for o in c["ops"]:
            d["ops"][o] = d["ops"].get(o, 0) + 1
    return d


def build_all():
    vlib.build_repo_bin()
    vlib.build_harness("c08")
    vlib.build_runner("c08")


def run(rep):
    build_all()
    rng = random.Random(rep.seed)
    outs, oo = eval_histories(witnesses() + regressions("C08"))
    rep.add("corpus", outs)
    rep.add("partition", eval_partition(partition_cases()))
    rep.add("text", c08_text.eval_text(c08_text.text_cases(rep.tier)))
    cases = config_histories() + mapping_histories() + route_histories(rep.tier, rng) + loss_histories() + force_histories(rep.tier, rng) + order_histories() + visibility_histories() + naming_histories() + event_histories(rep.tier, rng) + history_cases(rep.tier, rng)
    rep.extra["history_distribution"] = distribution(cases)
    total_oo = oo
    for i in range(0, len(cases), 400):
        outs, oo = eval_histories(cases[i:i + 400])
        total_oo += oo
        rep.add("histories", outs)
    rep.extra["files_differing_in_line_order_only"] = total_oo
    rep.extra["reference_generations"] = len(C._ref_cache)
    rep.extra.update(STATS)


def replay(rep, payload):
    build_all()
    items = payload.get("disagreeing_cases") or [payload]
    for it in items:
        c = dict(it["case"])
        if it["stream"] == "partition":
            rep.add("partition", eval_partition([c]))
        elif it["stream"] == "text":
            rep.add("text", c08_text.eval_text([c]))
        else:
            rep.add(it["stream"], eval_histories([c])[0])
