"""C19 - configuration is preserved, round-trips, and obeys flag > file > default.

Two observation levels.
 lib      GenerateConfig::save_to_tauri_config + from_tauri_config (Rust driver c19-lib) on random
          JSON documents x random settings, compared as parsed JSON values with Model/C19Config.v
          (save_doc, from_tauri_config); oracles preserved_b / roundtrip_lres_b (Spec/C19Spec.v)
          applied to what the implementation wrote / read back.
 generate the real binary's `generate` in a sandbox: all 2^5 flag subsets x configuration file
          variants, plus random worlds; the settings the run was *seen* to use (which project was
          analysed, which directory received output, Generator: header, verbosity, force via an
          immediate second run) against run_generate (model) and generate_ok_b (oracle: flag over
          file over default; refusal before any write).
 init     the real binary's `init` on random documents and flag sets against run_init and init_ok_b.

Numbers are compared on serde_json's number model (u64 / i64 / f64): 1e3 and 1000.0 are the
same number; an integer outside the i64/u64 range is the double nearest to it.
"""
import json
import os
import random
import re

from tools import vlib
from tools.vlib import Outcome, sx

MANIFEST = {
    "level_text": "Coq theorems (Properties/C19.v, no axioms) about a Gallina transcription of save_to_tauri_config / from_tauri_config / validate (config.rs) and of the configuration phase of run_generate and run_init (bin): for every JSON document, every settings value (all twelve fields), every path into the document outside plugins.typegen, every set of files and every flag set: an accepted save preserves every other path (C19_preserve) and reads back as the settings written (C19_roundtrip); the save is refused with an error exactly when the root or plugins is not an object (C19_save_refused); init refuses invalid settings and unwritable documents without touching any file, for tauri.conf.json and for standalone targets (C19_init_reject_first, C19_init_unsaveable, C19_init_file_reject_first, C19_init_file_no_overwrite, C19_init_file_document) and otherwise leaves save_doc of the old document (C19_init_document); generate uses flag over file over default for all observable settings and refuses invalid effective settings without a write (C19_precedence, C19_generate_reject_first) for every set of files and flag set. The standalone configuration file (save_to_file / from_file as serde derives them; generate -c) and the build-script loader are modelled next to it: exact round trip for all twelve fields (C19_roundtrip_file), flag over standalone file over default (C19_precedence_file, C19_generate_c), file over default in the build script (C19_precedence_build), the build-script statement on the complement of the class C19-9, with a computed counterexample. Round 7: every boolean run-time oracle is tied to a Prop-level statement by a reflection theorem and is proved to accept the model for every input: json_eqb / config_eqb / eff_eqb decide equality (C19_json_eqb_reflect, C19_config_eqb_reflect, C19_eff_eqb_reflect); preserved_b fuel = every path of length <= fuel outside the section has the same value, and = every path at all when fuel exceeds the depth of both documents (C19_oracle_preserved_reflect, C19_oracle_preserved_reflect_all), accepted for save_doc of every document and settings value at any fuel (C19_oracle_preserved_model); roundtrip_b / flat_roundtrip_b / roundtrip_lres_b / lib_ok_b (C19_oracle_roundtrip_reflect, _file_reflect, _lres_reflect, C19_oracle_lib_reflect, C19_oracle_lib_model); generate_ok_b and generate_c_ok_b (C19_oracle_precedence_reflect, C19_oracle_precedence_model, C19_oracle_precedence_file_reflect, C19_oracle_precedence_file_model: for every file system, flag set and -c path); the build-script oracle accepts the model wherever it does not demand a refusal (C19_oracle_build_model); the init oracles (C19_oracle_init_reflect, C19_oracle_init_file_reflect, C19_oracle_init_model, C19_oracle_init_file_model). Newly inside the model, each with a correspondence stream against the real code: a standalone file that states a field twice (refused by the derived reader: C19_file_duplicate_refused), a standalone file whose root is an array (read by position, at most twelve elements: C19_file_shape_refused, and C19_precedence_file / C19_generate_c now cover it), init -o <file> whose directory does not exist / is a regular file / which is a directory (C19_init_file_unwritable: error, nothing created), the project detection of the build script over the working directory and its parent, tauri.conf.js included (C19_precedence_build_at, C19_build_detect_precedence, C19_build_detect_none, C19_build_detect_here). The model is tied to /repo on every run: library calls on random documents (compared as JSON values) and the real binary on all 2^5 flag subsets x configuration-file variants and on random init runs.",
    "level_note": "JSON numbers are opaque tokens of serde_json's number model (u64/i64/f64): preservation of numbers is equality of those values, not of their spelling (1e3 comes back as 1000.0). Parsing and printing of JSON text (serde_json) is outside the model: the model starts from the value serde_json reads, the oracle from the reference reading of the text (a misread decimal is therefore reported). Analysis and generation are reduced to which project, which output directory, which mode. Path existence is an input of the model (the set of paths that name something, as the standard library's exists() sees the sandbox): how stat() fails for a path that names nothing is below the model and exercised by the generators only. Not modelled: output paths that cannot be created; project detection of the build script above the parent of the working directory (the check assumes no tauri.conf.json / tauri.conf.js / src-tauri above its sandboxes) and the src_tauri_path / devPath reading of the scanner (not used for the configuration); the verbosity of the build script (not observable); EACCES shapes (the check runs as root). Members of a standalone file are given to the model in text order with repetitions (python object_pairs_hook), values inside them on the reference reading. Reading choice: a standalone file that states one of the twelve fields twice is malformed and must be refused like any other malformed -c file (what the code does); the build script falls back on it (inside C19-9). A refusal of init -o <file> because the file cannot be created is accepted by the oracle, not demanded (the text does not ask for directories to be created); the model refuses, so a change there shows as a correspondence disagreement only. Force is observed through an immediate identical second run (relies on the cache being stable for a one-command project). Oracles: preserved_b is run with fuel 40, so at run time it decides preservation for paths up to length 40 (the generated documents nest far less deep, so C19_oracle_preserved_reflect_all applies to them); init_ok_b and init_file_ok_b are reflected and accept the model as well (C19_oracle_init_reflect, C19_oracle_init_file_reflect, C19_oracle_init_model, C19_oracle_init_file_model, under the side condition that the generated-files directory is not the target itself); build_ok_detect_b has no Prop-level counterpart of its own and is proved to accept the model only where it demands no refusal (outside C19-9).",
    "technique": "Rocq/Coq proof over hand-written model + correspondence check (extracted OCaml vs Rust harness and the real CLI binary in sandboxes)",
    "design_ref": "DESIGN.md section 5 C19, section 11 (preserve/save_writes/roundtrip/precedence spike)"
}

RULE = ("lib: random JSON documents (depth <= 5; Unicode, escaped and surrogate-pair strings; integers around the i64/u64 "
        "limits and beyond; decimals and exponents; plugins absent / object with and without typegen / not an object; "
        "root not an object) x random settings; a malformed-text stream (truncations and a fixed list). "
        "generate: all 2^5 subsets of {-p,-o,-v,--verbose,--force} x 10 configuration file variants (absent, no section, "
        "empty section, each single setting, all settings in two polarities) plus random worlds (file location, "
        "invalid values, wrong types, missing default project, --visualize-deps). init: random documents x flag sets "
        "incl. invalid library / missing project / missing or unparseable target. "
        "path shapes: 11 shapes of a project path that names nothing (plain missing, trailing slash, through a regular file, component longer than NAME_MAX, symlink loop and through it, dangling symlink and through it, empty string, missing below a project) and 7 spellings of something that exists (a file for a directory, ., trailing slash, symlink to a project with and without slash, a directory without commands) x every place a project path can be given: generate -p / projectPath in tauri.conf.json / both ways round, generate -c project_path / -p over it, init with an explicit tauri.conf.json target here and elsewhere, init -o <standalone file> (to be created, existing with and without --force); refused runs are judged on a byte snapshot of the whole sandbox; the same shapes as settings of the library entry points validate / from_tauri_config / from_file (15 % of the lib and file-roundtrip cases); 250 random init -o <standalone file> runs. "
        "history: output directories filled by an earlier successful run (.typecache and all generated files present; bindings of a fourth project) in 35 % of the random generate / generate -c / init / init -o cases, and small-scope exhaustive `warm-rejected` streams: every rejection reason (library or project path invalid by flag, by file, by default; -c file missing / malformed / invalid; init target missing / unwritable / existing without --force) x every flag with side effects of its own (--force, --visualize-deps, --verbose, all, -o elsewhere) on generate, generate -c, init, init -o; a refused run must leave the whole sandbox byte-identical, dotfiles included, with unchanged modification times (lstat of every entry). "
        "decoy files: the working directory's tauri.conf.json carries the entry while another tauri.conf.json (without an entry / with a different one) lies in the directory named by -p, in src-tauri/, in ../ or in an unrelated directory, x 4 flag sets, plus the cases without a working-directory file (54 cases; also 40 % of the random generate cases with -p): every setting not given on the command line must come from the file the search order ./, src-tauri/, ../ selects. "
        "file: 600 settings values through save_to_file/from_file, 600 random standalone documents (right and wrong types, unknown keys) through from_file; "
        "generate -c: all 2^5 flag subsets x 12 standalone-file variants (each setting absent / non-default / equal to its default, all), corpus incl. the seeded force case, random worlds (missing / malformed / invalid file, tauri.conf.json present as a decoy); "
        "build script: BuildSystem::generate_at_build_time() through a driver, 8 fixed + 150 random combinations of tauri.conf.json and typegen.json, force observed through a marker that a non-forced second run must leave alone. "
        "round 7: shapes of a standalone file outside an object with each key once (37 texts: a field twice with equal / different / null values, an unknown key twice, a nested object with a repeated key, root arrays of 0..13 elements with right and wrong element types, scalars) through from_file, x 3 flag sets through generate -c, and as typegen.json of the build script; 10 % of the random standalone texts repeat a member, 8 % are arrays; init whose target cannot be created or found (66 + 12 cases: directory missing one or two levels, a regular file / symlink loop / dangling link in the way, the target is a directory; standalone and tauri.conf.json targets; valid and invalid settings; with and without --force; warm output directories); the build script started one level below the project root, next to a tauri.conf.js (JSON and JavaScript), without any marker (16 cases). "
        "A case is non-trivial when the document "
        "has at least one key besides plugins (lib, init) or at least one flag or file setting (generate); "
        "distinct = distinct cases by content hash")
TRUSTED = [
    "serde_json 1.0.151 (default features: no preserve_order, no arbitrary_precision, no float_roundtrip) parsing/printing; python json as the reference reader of documents",
    "Spec/C19Spec.v: the Prop-level readings of the oracles (preserved_P, lib_ok_P, generate_ok_P, generate_c_ok_P) - the boolean oracles lib_ok_b, preserved_b, roundtrip_b, generate_ok_b, generate_c_ok_b are proved equivalent to them; init_ok_b / init_file_ok_b likewise (init_ok_P, init_file_ok_P); build_ok_detect_b and eff_eqb_build are trusted as written",
    "observation of the real binary: exit status, byte snapshot of the sandbox, commands.ts header and wrapper name, marker lines in the output",
]
ASSUMPTIONS = [
    "an immediate identical non-forced second run of a one-command project reports 'up to date' (used to observe force)",
    "python's json.loads and serde_json agree on which generated texts are JSON and on their values (texts are generated inside the common subset)",
    "no tauri.conf.json, tauri.conf.js or src-tauri exists in any directory above the sandboxes (the build script's project detection walks upwards; the model stops at the parent of the working directory)",
]

I64_MIN, U64_MAX = -(1 << 63), (1 << 64) - 1

# ------------------------------------------------------------------ JSON values

class Unparseable(Exception):
    pass


def _bad_const(x):
    raise Unparseable(x)


def py_parse(text):
    """Reference reading of a document; None when it is not JSON (for serde_json)."""
    try:
        v = json.loads(text, parse_constant=_bad_const)
        return canon(v)
    except (ValueError, Unparseable, RecursionError, OverflowError, UnicodeEncodeError):
        return None


READER_DISAGREEMENTS = []


def serde_read(texts):
    """{text: value as serde_json reads it (canon) or None}: the model starts from the parsed
    value, and the parser is serde_json as /repo builds it (observed through c19-parse; no code
    of /repo runs). Texts on which python's reader and serde_json disagree about being JSON at
    all are noted in the evidence."""
    texts = sorted(set(texts))
    obs = vlib.run_harness("c19-parse", [{"id": i, "text": t} for i, t in enumerate(texts)], per_case_timeout=20)
    out = {}
    for t, o in zip(texts, obs):
        if o.get("ok"):
            out[t] = py_parse(o["text"])
        else:
            out[t] = None
        if (out[t] is None) != (py_parse(t) is None):
            READER_DISAGREEMENTS.append(t[:200])
    return out


def canon_num(n):
    if isinstance(n, int):
        if I64_MIN <= n <= U64_MAX:
            return n
        f = float(n)          # OverflowError for huge integers
    else:
        f = n
    if f != f or f in (float("inf"), float("-inf")):
        raise Unparseable("non-finite")
    if f == int(f) and abs(f) < 2 ** 53:
        return int(f)           # 1000.0 and 1000, -0.0 and 0 are the same JSON number
    return f


def canon(v):
    """Tagged value: numbers on serde_json's number model, objects with sorted keys."""
    if v is None:
        return ("z",)
    if isinstance(v, bool):
        return ("b", v)
    if isinstance(v, (int, float)):
        return ("n", canon_num(v))
    if isinstance(v, str):
        v.encode("utf-8")       # lone surrogates are not JSON for serde_json
        return ("s", v)
    if isinstance(v, list):
        return ("a", tuple(canon(x) for x in v))
    if isinstance(v, dict):
        for k in v:
            k.encode("utf-8")
        return ("o", tuple((k, canon(v[k])) for k in sorted(v)))
    raise TypeError(type(v))


def num_token(n):
    return str(n) if isinstance(n, int) else "f" + repr(n)


def token_num(t):
    return float(t[1:]) if t.startswith("f") else int(t)


def to_sx(c):
    t = c[0]
    if t == "z":
        return ["z"]
    if t == "b":
        return ["b", c[1]]
    if t == "n":
        return ["n", num_token(c[1])]
    if t == "s":
        return ["s", c[1]]
    if t == "a":
        return ["a"] + [to_sx(x) for x in c[1]]
    return ["o"] + [[k, to_sx(x)] for k, x in c[1]]


def from_sx(s):
    t = s[0]
    if t == "z":
        return ("z",)
    if t == "b":
        return ("b", s[1] == "true")
    if t == "n":
        return ("n", token_num(s[1]))
    if t == "s":
        return ("s", s[1])
    if t == "a":
        return ("a", tuple(from_sx(x) for x in s[1:]))
    return ("o", tuple(sorted(((k, from_sx(x)) for k, x in s[1:]), key=lambda kv: kv[0])))


def plain(c):
    """Back to python data (for evidence / replay files)."""
    t = c[0]
    if t == "z":
        return None
    if t in ("b", "n", "s"):
        return c[1]
    if t == "a":
        return [plain(x) for x in c[1]]
    return {k: plain(x) for k, x in c[1]}


class _Pairs(list):
    pass


def _undup(v):
    if isinstance(v, _Pairs):
        return {k: _undup(x) for k, x in v}
    if isinstance(v, list):
        return [_undup(x) for x in v]
    return v


def flat_sx(text):
    """A standalone configuration document for the model: the members of a top-level object in text
    order, repetitions kept (serde's derived reader of GenerateConfig sees every member and refuses a field
    given twice, whereas serde_json::Value keeps the last); anything else as a value. Only called on
    texts serde_json accepts."""
    v = json.loads(text, object_pairs_hook=_Pairs, parse_constant=_bad_const)
    if isinstance(v, _Pairs):
        return ["o"] + [[k, to_sx(canon(_undup(x)))] for k, x in v]
    return to_sx(canon(_undup(v)))


# ------------------------------------------------------------------ document generator (text)

WORDS = ["productName", "version", "identifier", "build", "app", "windows", "security", "bundle", "tauri",
         "allowlist", "all", "shell", "fs", "scope", "title", "width", "csp", "icon", "targets", "a", "b",
         "caf\u00e9", "\u65e5\u672c", "k\U0001F600", "with space", "quote\"d", "back\\slash", "", "plugins", "typegen",
         "projectPath", "verbose", "$schema", "x.y", "0"]
STRS = ["", "My App", "1.0.0", "com.example.app", "../dist", "http://localhost:1420", "npm run dev",
        "\u00e9\u00e8\u00ea", "\u65e5\u672c\u8a9e", "\U0001F600 smile", "tab\there", "line\nbreak", "quote \" inside",
        "back\\slash", "slash/", "\u0001ctl", "\u2028sep", "null", "true", "zod", "none", "\x7f", "\ufeffbom"]
INTS = [0, 1, -1, 7, 42, 1420, 2 ** 31 - 1, 2 ** 31, -2 ** 31, 2 ** 53, 2 ** 53 + 1, -(2 ** 53) - 1,
        2 ** 63 - 1, 2 ** 63, 2 ** 63 + 1, -2 ** 63, -2 ** 63 - 1, 2 ** 64 - 1, 2 ** 64, 2 ** 64 + 1, 10 ** 19,
        12345678901234567890, 10 ** 25, -10 ** 22, 99999999999999999999999]
DECS = ["0.5", "2.50", "1e3", "1E3", "1e+3", "1.5e-7", "-0", "-0.0", "0.1", "0.30000000000000004", "1.7976931348623157e308",
        "5e-324", "2.2250738585072014e-308", "123456.789", "3.141592653589793", "1.0", "100.000", "1e0", "0e0",
        "9007199254740993.0", "0.000001", "1e-7", "123e-2", "4.35", "0.1e1", "1.0000000000000002",
        "8.41e21", "2.4703282292062328e-324"]


def esc_str(s, rng):
    """JSON spelling of a string with randomly chosen escape forms."""
    out = ['"']
    for ch in s:
        o = ord(ch)
        r = rng.random()
        if ch == '"':
            out.append('\\"' if r < 0.8 else "\\u0022")
        elif ch == "\\":
            out.append("\\\\")
        elif ch == "\n":
            out.append("\\n" if r < 0.7 else "\\u000a")
        elif ch == "\t":
            out.append("\\t")
        elif o < 0x20:
            out.append("\\u%04x" % o)
        elif ch == "/" and r < 0.3:
            out.append("\\/")
        elif o > 0xFFFF and r < 0.5:
            o -= 0x10000
            out.append("\\u%04x\\u%04x" % (0xD800 + (o >> 10), 0xDC00 + (o & 0x3FF)))
        elif o >= 0x80 and o <= 0xFFFF and r < 0.4:
            out.append("\\u%04X" % o)
        else:
            out.append(ch)
    out.append('"')
    return "".join(out)


def gen_number(rng):
    r = rng.random()
    if r < 0.4:
        return str(rng.choice(INTS))
    if r < 0.6:
        return str(rng.choice(INTS) + rng.randint(-3, 3))
    if r < 0.92:
        return rng.choice(DECS)
    if r < 0.96:
        return repr(round(rng.uniform(-1e6, 1e6), rng.randint(0, 6)))
    if r < 0.98:
        return repr(rng.uniform(-1e6, 1e6))
    m = "".join(rng.choice("0123456789") for _ in range(rng.randint(1, 19)))
    return "%s%d.%se%d" % (rng.choice(["", "-"]), rng.randint(0, 9), m, rng.randint(-30, 30))


def gen_key(rng):
    if rng.random() < 0.8:
        return rng.choice(WORDS)
    return "".join(rng.choice("abcxyz_\u00e9\u00df\u4e2d\U0001F680-. ") for _ in range(rng.randint(0, 6)))


def gen_value(rng, depth, ws):
    r = rng.random()
    if depth <= 0 or r < 0.45:
        k = rng.random()
        if k < 0.35:
            return esc_str(rng.choice(STRS), rng)
        if k < 0.75:
            return gen_number(rng)
        return rng.choice(["true", "false", "null"])
    if r < 0.7:
        n = rng.choice([0, 1, 2, 3, 5])
        return "[" + ws() + ("," + ws()).join(gen_value(rng, depth - 1, ws) for _ in range(n)) + ws() + "]"
    return gen_object(rng, depth - 1, ws, rng.choice([0, 1, 2, 3, 4]))


def gen_object(rng, depth, ws, n, extra=()):
    items = [(gen_key(rng), gen_value(rng, depth, ws)) for _ in range(n)]
    items += list(extra)
    rng.shuffle(items)
    return "{" + ws() + ("," + ws()).join(esc_str(k, rng) + ws() + ":" + ws() + v for k, v in items) + ws() + "}"


def gen_typegen_section(rng, ws, settings=None):
    """A typegen section as text. settings: dict key -> JSON text, or None for a random one."""
    if settings is None:
        settings = {}
        opts = {
            "projectPath": ['"./projA"', '"./projB"', '"./src-tauri"', '"./nope"', "5", "null"],
            "outputPath": ['"./outF"', '"outF/deep"', "7", '"./src/generated"'],
            "validationLibrary": ['"zod"', '"none"', '"yup"', '"Zod"', "true", '""'],
            "verbose": ["true", "false", '"yes"', "1"],
            "visualizeDeps": ["true", "false", "null"],
            "includePrivate": ["true", "false"],
            "force": ["true", "false", "0"],
            "typeMappings": ["null", "{}", '{"DateTime":"string"}', '{"A":1}', "[]"],
            "excludePatterns": ["null", "[]", '["target"]', "[1]"],
            "includePatterns": ["null", '["src"]'],
            "defaultParameterCase": ['"snake_case"'],
            "unknownKey": ["1", "{}"],
        }
        for k, vs in opts.items():
            if rng.random() < 0.35:
                settings[k] = rng.choice(vs)
    items = list(settings.items())
    rng.shuffle(items)
    return "{" + ws() + ("," + ws()).join(esc_str(k, rng) + ":" + ws() + v for k, v in items) + ws() + "}"


def make_ws(rng):
    style = rng.choice(["none", "space", "pretty"])
    if style == "none":
        return lambda: ""
    if style == "space":
        return lambda: rng.choice(["", " ", " "])
    return lambda: rng.choice(["", " ", "\n  ", "\n\t", " \r\n "])


def gen_doc_text(rng, depth=4, root_kinds=True, section=None):
    """A whole tauri.conf.json-like document as text, with the plugins variants of the quantifier."""
    ws = make_ws(rng)
    r = rng.random()
    if root_kinds and r < 0.04:
        return rng.choice(["[]", "[1, 2]", '["a", {"plugins": {}}]', "null", "5", '"text"', "true", "[[]]", "1.5e3",
                           '[{"plugins":{"typegen":{}}}]'])
    extra = []
    p = rng.random()
    if p < 0.15:
        pass                                   # no plugins key
    elif p < 0.21:                             # plugins is not an object
        extra.append(("plugins", rng.choice(["[]", "[1,2]", "null", '"x"', "0", "false", '[{"typegen":{}}]'])))
    else:
        inner = []
        q = rng.random()
        if q < 0.55:
            inner.append(("typegen", section if section is not None else
                          (gen_typegen_section(rng, ws) if rng.random() < 0.8 else
                           rng.choice(["null", "[]", '"old"', "3", "{}"]))))
        extra.append(("plugins", gen_object(rng, min(depth, 2), ws, rng.choice([0, 1, 2]), inner)))
    if rng.random() < 0.05:                    # the same key twice: the last one wins for both readers
        extra.append(("plugins", gen_object(rng, 1, ws, 1)))
    return ws() + gen_object(rng, depth, ws, rng.choice([0, 1, 2, 3, 4, 6]), extra) + ws()


BAD_TEXTS = ["", " ", "{", "}", "{\"a\":1,}", "[1,]", "{'a':1}", "{\"a\" 1}", "nul", "tru", "{\"a\":01}", "{\"a\":1.}", "{\"a\":.5}",
             "{\"a\":+1}", "{\"a\":1e}", "{\"a\":\"\\x41\"}", "{\"a\":\"\\ud800\"}", "{\"a\":\"\\udc00x\"}", "{\"a\":\"\tTAB\"}",
             "{\"a\":1} x", "{\"a\":1}{\"b\":2}", "{\"a\":NaN}", "{\"a\":Infinity}", "{\"a\":-Infinity}", "{\"a\":1e400}",
             "{\"a\":-1e999}", "{a:1}", "{\"a\":1 \"b\":2}", "[1 2]", "{\"plugins\":{\"typegen\":{}}", "// c\n{}", "{\"a\":\"unterminated}"]

# ------------------------------------------------------------------ settings

CASES_ = ["camelCase", "snake_case", "PascalCase", "SCREAMING_SNAKE_CASE", "kebab-case"]


# shapes of a project path that names nothing (or something unexpected); the drivers create
# notes.txt (a regular file), loop -> loop, dangling -> no-such-target, realdir/, linkdir -> realdir
LONG_NAME = "x" * 300
LIB_PATH_SHAPES = ["notes.txt/src", "./" + LONG_NAME, LONG_NAME + "/src", "loop/x", "loop", "dangling", "dangling/x",
                   "notes.txt", "", ".", "./", "realdir/", "linkdir", "linkdir/", "linkdir/sub", "realdir/../realdir",
                   "./no-such-dir", "no-such-dir/"]


def gen_cfg(rng):
    def ob():
        return rng.choice([None, True, False])

    def strs():
        return rng.choice([None, [], ["target"], ["**/tests/**", "caf\u00e9/*", "a\"b"], ["", "x"]])

    seg = lambda: "p" + "".join(rng.choice("abc_-\u00e9\u4e2d ") for _ in range(rng.randint(0, 4)))
    pp = "/".join(seg() for _ in range(rng.randint(1, 3)))
    if rng.random() < 0.3:
        pp = "./" + pp
    if rng.random() < 0.15:
        pp = rng.choice(LIB_PATH_SHAPES)
    lib = rng.choice(["zod", "none"]) if rng.random() < 0.88 else rng.choice(["yup", "Zod", "", "none ", "z\u00f6d"])
    tm = rng.choice([None, None, {}, {"DateTime": "string"}, {"A": "number", "caf\u00e9": "x\"y", "": ""}])
    return {
        "project_path": pp,
        "output_path": rng.choice(["./src/generated", "out", "./o u t/\u00e9", "a\\b\"c", "", "../x", "/abs/path"]),
        "validation_library": lib,
        "verbose": ob(), "visualize_deps": ob(), "include_private": ob(),
        "type_mappings": tm, "exclude_patterns": strs(), "include_patterns": strs(),
        "default_parameter_case": "camelCase" if rng.random() < 0.95 else rng.choice(CASES_),
        "default_field_case": "snake_case" if rng.random() < 0.95 else rng.choice(CASES_),
        "force": ob(),
    }


def cfg_sx(c):
    def o(v):
        return [] if v is None else [v]
    tm = c["type_mappings"]
    return [c["project_path"], c["output_path"], c["validation_library"], o(c["verbose"]), o(c["visualize_deps"]),
            o(c["include_private"]), [] if tm is None else [[[k, tm[k]] for k in sorted(tm)]],
            [] if c["exclude_patterns"] is None else [list(c["exclude_patterns"])],
            [] if c["include_patterns"] is None else [list(c["include_patterns"])],
            c["default_parameter_case"], c["default_field_case"], o(c["force"])]


def sx_cfg_norm(s):
    """Model's (config ...) output re-read into the same python shape as cfg_sx gives after printing."""
    return vlib.sx_parse(sx(s)) if not isinstance(s, str) else s


# ------------------------------------------------------------------ lib stream

def entry_of(cfg, pcase=None, fcase=None):
    """The typegen entry save_to_tauri_config writes for cfg (naming conventions replaceable / omitted)."""
    e = {"projectPath": cfg["project_path"], "outputPath": cfg["output_path"], "validationLibrary": cfg["validation_library"],
         "verbose": bool(cfg["verbose"]), "visualizeDeps": bool(cfg["visualize_deps"]), "includePrivate": bool(cfg["include_private"]),
         "typeMappings": cfg["type_mappings"], "excludePatterns": cfg["exclude_patterns"], "includePatterns": cfg["include_patterns"],
         "force": bool(cfg["force"])}
    if pcase is not None:
        e["defaultParameterCase"] = pcase
    if fcase is not None:
        e["defaultFieldCase"] = fcase
    return e


def resave_case(rng, i):
    """A document that already holds an entry for (almost) the settings about to be written: equal on all
    fields but one or two (second save / init re-run over an existing entry)."""
    cfg = gen_cfg(rng)
    cfg["project_path"] = "p" + rng.choice("abc")            # valid, created by the driver
    cfg["validation_library"] = rng.choice(["zod", "none"])
    old = entry_of(cfg, rng.choice([None] + CASES_), rng.choice([None] + CASES_))
    r = rng.random()
    if r < 0.5:
        cfg["default_parameter_case"] = rng.choice(CASES_)
        cfg["default_field_case"] = rng.choice(CASES_)
    elif r < 0.8:
        k = rng.choice(["outputPath", "verbose", "force", "includePrivate", "excludePatterns", "typeMappings", "validationLibrary"])
        old[k] = {"outputPath": "./elsewhere", "validationLibrary": "zod" if cfg["validation_library"] == "none" else "none",
                  "excludePatterns": ["old"], "typeMappings": {"Old": "string"}}.get(k, not old[k] if isinstance(old[k], bool) else None)
    if rng.random() < 0.3:
        old["extraKey"] = 1
    doc = {"productName": "app", "build": {"n": 1.5}, "plugins": {"shell": {"open": True}, "typegen": old}}
    return {"id": i, "text": json.dumps(doc, ensure_ascii=False), "cfg": cfg, "mkproj": True}


def lib_case(rng, i, text=None, cfg=None, mkproj=None):
    return {"id": i, "text": gen_doc_text(rng) if text is None else text,
            "cfg": gen_cfg(rng) if cfg is None else cfg,
            "mkproj": (rng.random() < 0.92) if mkproj is None else mkproj}


LIB_CORPUS = [
    # (name, text, cfg overrides, mkproj)
    ("regression (fixed C19-3): plugins is an array is refused", '{"productName":"x","plugins":[1,2]}', {}, True),
    ("regression (fixed C19-4): root array is refused", '[1, {"a": 2}]', {}, True),
    ("regression (fixed C19-5): naming conventions read back", '{"a":1}', {"default_parameter_case": "snake_case"}, True),
    ("test_save_to_tauri_config_preserves_existing_content",
     '{"package":{"productName":"My App","version":"1.0.0"},"tauri":{"allowlist":{"all":false}},"plugins":{"shell":{"all":false}}}',
     {"output_path": "./test", "validation_library": "zod", "verbose": True}, True),
    ("regression (fixed C19-7): decimals keep their value", '{"a":24798.800975902122,"b":9007199254740993.0}', {}, True),
    ("numbers", '{"u":18446744073709551615,"i":-9223372036854775808,"big":18446744073709551616,"e":1e3,"d":2.50,"z":-0,"p":{"x":[1.5e-7,0.1]}}', {}, True),
    ("strings", '{"s":"\\u00e9\\ud83d\\ude00\\n\\"\\\\\\/","k\\u00e9y":"\u65e5\u672c","":""}', {}, True),
    ("existing section replaced", '{"plugins":{"typegen":{"projectPath":"./old","extra":1,"force":true},"shell":{"open":true}}}', {}, True),
    ("section is not an object", '{"plugins":{"typegen":[1,2]}}', {}, True),
    ("invalid library is refused on reading", '{"a":1}', {"validation_library": "yup"}, True),
    ("missing project is refused on reading", '{"a":1}', {}, False),
    ("path shape: project path through a regular file is refused on reading", '{"a":1}', {"project_path": "notes.txt/src"}, False),
    ("path shape: over-long component", '{"a":1}', {"project_path": "./" + "x" * 300}, False),
    ("path shape: symlink loop", '{"a":1}', {"project_path": "loop/x"}, False),
    ("path shape: dangling symlink", '{"a":1}', {"project_path": "dangling"}, False),
    ("path shape: empty string", '{"a":1}', {"project_path": ""}, False),
    ("path shape: a file where a directory is expected exists", '{"a":1}', {"project_path": "notes.txt"}, False),
    ("path shape: symlink to a directory exists", '{"a":1}', {"project_path": "linkdir/"}, False),
    ("second save differing only in the naming conventions (seeded C19-3)",
     json.dumps({"a": 1, "plugins": {"typegen": entry_of(dict(DEFAULT_CFG_EARLY := {"project_path": "./pproj", "output_path": "./src/generated", "validation_library": "none", "verbose": False, "visualize_deps": False, "include_private": False, "type_mappings": None, "exclude_patterns": None, "include_patterns": None, "force": False}), "camelCase", "snake_case")}}),
     {"default_parameter_case": "snake_case", "default_field_case": "kebab-case"}, True),
    ("save over an entry without naming conventions", json.dumps({"plugins": {"typegen": entry_of(DEFAULT_CFG_EARLY)}}),
     {"default_field_case": "camelCase"}, True),
    ("plugins null", '{"plugins":null,"x":{"plugins":{"typegen":1}}}', {}, True),
    ("duplicate key", '{"plugins":[1],"plugins":{"a":1}}', {}, True),
    ("root scalar", '5', {}, True),
    ("absent booleans", '{}', {"verbose": None, "visualize_deps": None, "include_private": None, "force": None}, True),
]

DEFAULT_CFG = {"project_path": "./pproj", "output_path": "./src/generated", "validation_library": "none",
               "verbose": False, "visualize_deps": False, "include_private": False, "type_mappings": None,
               "exclude_patterns": None, "include_patterns": None, "default_parameter_case": "camelCase",
               "default_field_case": "snake_case", "force": False}


def eval_lib(cases, scratch):
    for c in cases:
        c["scratch"] = scratch
    obs = vlib.run_harness("c19-lib", cases, per_case_timeout=20)
    reading = serde_read([c["text"] for c in cases])
    sexps, idx = [], []
    pre = {}
    for c, o in zip(cases, obs):
        if "panic" in o or o.get("skipped"):
            continue
        before = reading[c["text"]]
        bref = py_parse(c["text"]) if before is not None else None
        if bref is None:
            bref = before
        after = py_parse(o["after_text"]) if o.get("after_text") is not None else None
        ld = o["load"]
        if ld["kind"] == "some":
            impl_loaded = ["some", cfg_sx(ld["cfg"])]
        else:
            impl_loaded = [ld["kind"]]
        pre[c["id"]] = (before, after, impl_loaded)
        untouched = o.get("after_text") == c["text"]
        if o["save"] == "ok":
            impl_after = [] if after is None else [to_sx(after)]
        else:
            impl_after = [] if untouched else ([to_sx(after)] if after is not None else [])
        sexps.append(sx([cfg_sx(c["cfg"]), [] if bref is None else [to_sx(bref)],
                         [] if before is None else [to_sx(before)], bool(o["project_exists"]),
                         impl_after, impl_loaded]))
        idx.append(c["id"])
    res = dict(zip(idx, vlib.run_runner("c19-lib", sexps)))
    outs = []
    for c, o in zip(cases, obs):
        case = {k: c[k] for k in ("text", "cfg", "mkproj")}
        if o.get("skipped"):
            continue
        if "panic" in o:
            outs.append(Outcome(case, False, False, detail={"impl": "PANIC " + str(o["panic"])}))
            continue
        before, after, impl_loaded = pre[c["id"]]
        m = res[c["id"]]
        if m and m[0] == "runner-error":
            raise vlib.BuildError("runner: %s" % m)
        if m[0] == "unparseable":
            # not a JSON document: must be refused and left alone
            good = o["save"] == "json" and o["after_text"] == c["text"] and o["load"]["kind"] == "err"
            outs.append(Outcome(case, good, good, detail={"impl": {"save": o["save"], "load": o["load"]["kind"]},
                                                          "model": "unparseable: Err, nothing written"}, nontrivial=False))
            continue
        saved = from_sx(m[0][0]) if m[0] else None
        loaded, ok = m[1], m[2] == "true"
        # GenerateConfig::validate as an entry point of its own
        validate_agrees = (o["validate"] == "ok") == (m[3] == "true")
        ok = ok and validate_agrees
        untouched = o.get("after_text") == c["text"]
        if saved is None:
            # the settings cannot be written into this document: InvalidConfig, file untouched
            corr_doc = o["save"] == "invalid" and untouched
        else:
            corr_doc = o["save"] == "ok" and after is not None and after == saved
        if o["save"] != "ok" and not untouched:
            ok = False                      # an error after something was written
        corr_load = vlib.sx_parse(sx(impl_loaded)) == loaded
        corr = corr_doc and corr_load and validate_agrees
        kf = None                           # no recorded defect is left at the library level
        det = {"impl": {"save": o["save"], "untouched": untouched, "after": None if after is None else plain(after), "load": o["load"]},
               "model": {"after": None if saved is None else plain(saved), "load": loaded}, "oracle_ok": ok}
        if ok and corr:
            det = {"save": o["save"], "load": o["load"]["kind"]}
        nontrivial = before[0] == "o" and any(k != "plugins" for k, _ in before[1])
        outs.append(Outcome(case, corr, ok, kf, det, nontrivial))
    return outs


def lib_cases(tier, rng):
    cases = []
    for name, text, over, mk in LIB_CORPUS:
        cfg = dict(DEFAULT_CFG)
        cfg.update(over)
        cases.append({"text": text, "cfg": cfg, "mkproj": mk, "name": name})
    ncorp = len(cases)
    n = 4000 if tier == "quick" else 60000
    for _ in range(n):
        cases.append(lib_case(rng, 0) if rng.random() > 0.08 else resave_case(rng, 0))
    # malformed stream
    nbad = 300 if tier == "quick" else 4000
    for t in BAD_TEXTS:
        cases.append(lib_case(rng, 0, text=t))
    for _ in range(nbad):
        t = gen_doc_text(rng)
        if len(t) > 2:
            t = t[:rng.randint(1, len(t) - 1)]
        cases.append(lib_case(rng, 0, text=t))
    for i, c in enumerate(cases):
        c["id"] = i
    return cases, ncorp


# ------------------------------------------------------------------ command line level

PROJ_SRC = {
    "src-tauri": "#[tauri::command]\npub fn cmd_default(x: i32) -> i32 { x }\n",
    "projA": "#[tauri::command]\npub fn cmd_a(x: i32) -> i32 { x }\n",
    "projB": "#[tauri::command]\npub fn cmd_b(x: i32) -> i32 { x }\n",
    # only ever used to fill output directories before the run under observation (world["warm"])
    "primeP": "#[tauri::command]\npub fn cmd_prime(x: i32) -> i32 { x }\n",
}
CMD_PROJECT = {"cmdDefault": "src-tauri", "cmdA": "projA", "cmdB": "projB", "cmdPrime": "primeP"}


def norm(p):
    return p[2:] if p.startswith("./") else p


def world_fs(w, reading):
    """Model file system of a world: [(path, node sexp)]. w: {"src_tauri": proj|dir|absent, "files": {path: text}}"""
    fs = []
    if w["src_tauri"] == "proj":
        fs.append(["src-tauri", ["proj"]])
    elif w["src_tauri"] == "dir":
        fs.append(["src-tauri", ["dir"]])
    fs += [["projA", ["proj"]], ["projB", ["proj"]], ["empty", ["dir"]], ["primeP", ["proj"]]]
    # output directories filled by an earlier successful run (history): bindings of primeP
    for d, lib, viz in w.get("warm", []):
        fs.append([norm(d), ["out", "primeP", lib, bool(viz)]])
    # other spellings of things that exist, and the odd entries of materialise()
    fs += [["projA/", ["proj"]], ["linkA", ["proj"]], ["linkA/", ["proj"]], [".", ["proj"]], ["empty/", ["dir"]],
           ["notes.txt", ["doc"]]]
    dirs = set()
    for p, text in w["files"].items():
        d = reading[text]
        if d is not None and os.path.basename(p) != "tauri.conf.json":
            fs.append([norm(p), ["doc", flat_sx(text)]])       # a standalone file: members as the text has them
        else:
            fs.append([norm(p), ["doc"] if d is None else ["doc", to_sx(d)]])
        dn = os.path.dirname(norm(p))
        if dn and dn != ".." and dn not in ("src-tauri", "projA", "projB", "empty"):
            dirs.add(dn)
    for d in sorted(dirs):
        fs.append([d, ["dir"]])
    return fs


def materialise(sb, w):
    for name, src in PROJ_SRC.items():
        if name == "src-tauri" and w["src_tauri"] != "proj":
            continue
        sb.write(os.path.join("w", name, "src", "lib.rs"), src)
    if w["src_tauri"] == "dir":
        os.makedirs(sb.path("w", "src-tauri"), exist_ok=True)
    os.makedirs(sb.path("w", "empty"), exist_ok=True)
    # odd entries for the path-shape cases: a regular file, a symlink loop, a dangling symlink, a link to a project
    sb.write(os.path.join("w", "notes.txt"), "not a directory\n")
    for target, name in (("loop", "loop"), ("no-such-target", "dangling"), ("projA", "linkA")):
        try:
            os.symlink(target, sb.path("w", name))
        except FileExistsError:
            pass
    # history: successful runs into these directories before the configuration files of the case exist
    for d, lib, viz in w.get("warm", []):
        rc, out = sb.cli(["generate", "-p", "./primeP", "-o", d, "-v", lib] + (["--visualize-deps"] if viz else []),
                         cwd=sb.path("w"))
        if rc != 0 or not os.path.exists(sb.path("w", norm(d), ".typecache")):
            raise vlib.BuildError("priming run failed: %s" % out[-400:])
    for p, text in w["files"].items():
        sb.write(os.path.normpath(os.path.join("w", p)), text.encode("utf-8"))


ALIASES = {"projA/": "projA", "linkA": "projA", "linkA/": "projA", ".": ".", "./": "."}


def spelled(canonical, mentioned, table=ALIASES):
    """The spelling under which the case names what was observed (a case uses at most one
    alias spelling of a project, and then no other spelling of it)."""
    for m in mentioned:
        if m is not None and table.get(norm(m), None) == canonical and norm(m) != canonical:
            return norm(m)
    return canonical


def stamps(sb):
    """{path: (mtime_ns, size, mode)} of every entry of the sandbox, dotfiles included (lstat)."""
    out = {}
    for r, ds, fs_ in os.walk(sb.root):
        for n in ds + fs_:
            p = os.path.join(r, n)
            try:
                st = os.lstat(p)
                out[os.path.relpath(p, sb.root)] = (st.st_mtime_ns, st.st_size, st.st_mode)
            except OSError:
                out[os.path.relpath(p, sb.root)] = None
    return out


def observe_run(sb, argv, before, mentioned=(), out_mentioned=(), argv2=None):
    """Run the binary (twice when the first run generated something) and describe what it was seen to do."""
    cwd = sb.path("w")
    st0 = stamps(sb)
    rc, out = sb.cli(argv, cwd=cwd)
    st1 = stamps(sb)
    after = sb.snapshot(".", strip_timestamp=False)
    raw = {"exit": rc, "output": out[-1500:]}
    if rc != 0:
        # untouched: same entries, same bytes (dotfiles included), same modification times
        restamped = sorted(k for k in set(st0) | set(st1) if st0.get(k) != st1.get(k))
        untouched = after == before and not restamped
        raw["restamped"] = restamped[:10]
        changed = sorted(k for k in set(after) | set(before)
                         if (k in after) != (k in before) or after.get(k) != before.get(k))
        raw["changed"] = changed[:10]

        pairs = []
        for k in changed:
            try:
                pairs.append([before[k].decode("utf-8") if k in before and before[k] is not None else None,
                              after[k].decode("utf-8") if k in after and after[k] is not None else None])
            except UnicodeDecodeError:
                pairs.append([None, None])
        raw["changed_texts"] = pairs
        return ["rejected", untouched], raw, after
    if "No Tauri commands found" in out:
        return ["nocommands"], raw, after
    new = [k for k in after if k.endswith("/commands.ts") and before.get(k) != after[k]]
    raw["new"] = new
    if len(new) != 1:
        return ["odd", "exit 0 but %d commands.ts written" % len(new)], raw, after
    outdir = os.path.dirname(new[0])
    body = after[new[0]].decode("utf-8", "replace")
    m = re.search(r"Generator: (\S+)", body)
    lib = m.group(1) if m else "?"
    projs = [p for fn, p in CMD_PROJECT.items() if ("function %s(" % fn) in body]
    present = [p for p in CMD_PROJECT.values() if os.path.isdir(sb.path("w", p, "src"))]
    proj = projs[0] if len(projs) == 1 else ("." if len(projs) > 1 and sorted(projs) == sorted(present) else "?%s" % projs)
    proj = spelled(proj, mentioned)
    verbose = "Parsing and caching all Rust files" in out
    logv = "Loading configuration" in out
    gk = outdir + "/dependency-graph.txt"
    viz = gk in after and before.get(gk) != after[gk]
    rc2, out2 = sb.cli(argv2 or argv, cwd=cwd)
    forced = "bindings are up to date" not in out2
    raw["second"] = {"exit": rc2, "up_to_date": not forced}
    rel = os.path.relpath(sb.path(outdir), cwd)
    for m in out_mentioned:
        if m is not None and norm(m).rstrip("/") == rel and norm(m) != rel:
            rel = norm(m)
    return ["ran", [proj, rel, lib, verbose, logv, viz, forced]], raw, after


def mentions(c):
    """Project spellings a case uses: its -p flag and every string value of a project key in its files."""
    out = [(c.get("flags") or c.get("iflags") or {}).get("project")]
    for text in c["world"]["files"].values():
        out += re.findall(r'"(?:projectPath|project_path)"\s*:\s*"([^"\\]*)"', text)
    return out


def flags_argv(fl):
    a = ["generate"]
    if fl["project"] is not None:
        a += ["-p", fl["project"]]
    if fl["output"] is not None:
        a += ["-o", fl["output"]]
    if fl["lib"] is not None:
        a += ["-v", fl["lib"]]
    if fl["verbose"]:
        a += ["--verbose"]
    if fl["viz"]:
        a += ["--visualize-deps"]
    if fl["force"]:
        a += ["--force"]
    return a


def flags_sx(fl):
    o = lambda v: [] if v is None else [v]
    return [o(fl["project"]), o(fl["output"]), o(fl["lib"]), fl["verbose"], fl["viz"], fl["force"]]


def run_generate_case(c):
    with vlib.Sandbox("c19g") as sb:
        materialise(sb, c["world"])
        before = sb.snapshot(".", strip_timestamp=False)
        obs, raw, _ = observe_run(sb, flags_argv(c["flags"]), before, mentions(c), [c["flags"]["output"]])
    return obs, raw


def eval_generate(cases):
    res = vlib.pmap(run_generate_case, cases)
    reading = serde_read([t for c in cases for t in c["world"]["files"].values()])
    sexps = []
    for c, (obs, raw) in zip(cases, res):
        o = obs if obs[0] != "odd" else ["rejected", False]
        sexps.append(sx([world_fs(c["world"], reading), flags_sx(c["flags"]), o]))
    ms = vlib.run_runner("c19-generate", sexps)
    outs = []
    for c, (obs, raw), m in zip(cases, res, ms):
        case = {"world": c["world"], "flags": c["flags"]}
        if m and m[0] == "runner-error":
            raise vlib.BuildError("runner: %s" % m)
        result, spec_invalid, spec_eff, ok, kfs = m[0], m[1] == "true", m[2], m[3] == "true", list(m[4])
        kind, eff, unchanged = result[0], result[1], result[2] == "true"
        if obs[0] == "odd":
            corr, ok = False, False
        elif obs[0] == "rejected":
            corr = kind.startswith("reject") and (unchanged == obs[1])
        elif obs[0] == "nocommands":
            corr = kind == "nocommands"
        else:
            corr = kind == "run" and eff and vlib.sx_parse(sx(obs[1])) == eff[0]
        kf = None                           # no recorded defect is left for generate
        det = {"impl": {"seen": obs, "raw": raw}, "model": result, "spec": {"invalid": spec_invalid, "effective": spec_eff},
               "classes": kfs}
        if ok and corr:
            det = {"seen": obs, "classes": kfs}
        fl = c["flags"]
        nontrivial = any(v for v in fl.values()) or bool(c["world"]["files"])
        outs.append(Outcome(case, corr, ok, kf, det, nontrivial))
    return outs


def sec_text(settings):
    return json.dumps({"productName": "app", "plugins": {"shell": {"open": True}, "typegen": settings}})


def exhaustive_generate_cases():
    """2^5 flag subsets x configuration file variants (two polarities of the library setting)."""
    variants = [("absent", None), ("no-section", '{"productName":"app","plugins":{"shell":{}}}'),
                ("empty-section", sec_text({})),
                ("projectPath", sec_text({"projectPath": "./projA"})),
                ("outputPath", sec_text({"outputPath": "./outF"})),
                ("validationLibrary", sec_text({"validationLibrary": "zod"})),
                ("verbose", sec_text({"verbose": True})),
                ("force", sec_text({"force": True})),
                ("all-zod", sec_text({"projectPath": "./projA", "outputPath": "./outF", "validationLibrary": "zod",
                                      "verbose": True, "force": True, "visualizeDeps": True})),
                ("all-none", sec_text({"projectPath": "./projA", "outputPath": "outF/deep", "validationLibrary": "none",
                                       "verbose": False, "force": False, "visualizeDeps": False}))]
    cases = []
    for vname, text in variants:
        for mask in range(32):
            flag_lib = "zod" if vname in ("all-none", "absent", "no-section", "empty-section", "projectPath") else "none"
            fl = {"project": "./projB" if mask & 1 else None, "output": "./outC" if mask & 2 else None,
                  "lib": flag_lib if mask & 4 else None, "verbose": bool(mask & 8), "viz": False, "force": bool(mask & 16)}
            w = {"src_tauri": "proj", "files": {} if text is None else {"tauri.conf.json": text}}
            cases.append({"world": w, "flags": fl, "name": "%s/%d" % (vname, mask)})
    return cases


GEN_CORPUS = [
    ("regression (fixed C19-1): unsupported library in the file is refused", {"src_tauri": "proj", "files": {"tauri.conf.json": sec_text({"validationLibrary": "yup", "outputPath": "./outF"})}},
     {"project": None, "output": None, "lib": None, "verbose": False, "viz": False, "force": False}),
    ("regression (fixed C19-1): missing project path in the file is refused", {"src_tauri": "proj", "files": {"tauri.conf.json": sec_text({"projectPath": "./nope", "outputPath": "./outF"})}},
     {"project": None, "output": None, "lib": None, "verbose": False, "viz": False, "force": False}),
    ("regression (fixed C19-1): file relies on the default project, flag gives the real one", {"src_tauri": "absent", "files": {"tauri.conf.json": sec_text({"outputPath": "./outF", "validationLibrary": "zod"})}},
     {"project": "./projB", "output": None, "lib": None, "verbose": False, "viz": False, "force": False}),
    ("regression (fixed C19-6): verbose only in the file", {"src_tauri": "proj", "files": {"tauri.conf.json": sec_text({"verbose": True})}},
     {"project": None, "output": None, "lib": None, "verbose": False, "viz": False, "force": False}),
    ("flag library invalid", {"src_tauri": "proj", "files": {}},
     {"project": None, "output": None, "lib": "yup", "verbose": False, "viz": False, "force": False}),
    ("flag project missing", {"src_tauri": "proj", "files": {"tauri.conf.json": sec_text({"projectPath": "./projA"})}},
     {"project": "./nope", "output": None, "lib": None, "verbose": True, "viz": False, "force": True}),
    ("default project missing", {"src_tauri": "absent", "files": {}},
     {"project": None, "output": "./outC", "lib": None, "verbose": False, "viz": False, "force": False}),
    ("second candidate", {"src_tauri": "proj", "files": {"src-tauri/tauri.conf.json": sec_text({"outputPath": "./outF", "validationLibrary": "zod"})}},
     {"project": None, "output": None, "lib": None, "verbose": False, "viz": True, "force": False}),
    ("third candidate", {"src_tauri": "proj", "files": {"../tauri.conf.json": sec_text({"projectPath": "./projA", "force": True})}},
     {"project": None, "output": None, "lib": None, "verbose": False, "viz": False, "force": False}),
    ("first candidate without section hides the second", {"src_tauri": "proj", "files": {"tauri.conf.json": '{"a":1}', "src-tauri/tauri.conf.json": sec_text({"outputPath": "./outF"})}},
     {"project": None, "output": None, "lib": None, "verbose": False, "viz": False, "force": False}),
    ("unparseable first candidate is skipped", {"src_tauri": "proj", "files": {"tauri.conf.json": '{"a":', "src-tauri/tauri.conf.json": sec_text({"outputPath": "./outF"})}},
     {"project": None, "output": None, "lib": None, "verbose": False, "viz": False, "force": False}),
    ("project without commands", {"src_tauri": "proj", "files": {}},
     {"project": "./empty", "output": None, "lib": "zod", "verbose": False, "viz": False, "force": False}),
    ("wrong types in the file are ignored", {"src_tauri": "proj", "files": {"tauri.conf.json": sec_text({"projectPath": 5, "outputPath": None, "validationLibrary": True, "verbose": "yes", "force": 1})}},
     {"project": None, "output": None, "lib": None, "verbose": False, "viz": False, "force": False}),
]


WARM_DIRS = ["./src/generated", "./outF", "./outC", "outF/deep", "outC/x/y", "./outT", "./gen", "gen/deep"]


def random_warm(rng):
    return [[d, rng.choice(["none", "zod"]), rng.random() < 0.3] for d in rng.sample(WARM_DIRS, rng.randint(1, 4))]


def random_generate_case(rng):
    w = {"src_tauri": rng.choice(["proj", "proj", "proj", "proj", "proj", "dir", "absent"]), "files": {}}
    locs = ["tauri.conf.json", "src-tauri/tauri.conf.json", "../tauri.conf.json"]
    if w["src_tauri"] == "absent":
        locs.remove("src-tauri/tauri.conf.json")
    r = rng.random()
    nfiles = 0 if r < 0.15 else (1 if r < 0.85 else 2)
    for loc in rng.sample(locs, nfiles):
        k = rng.random()
        ws = make_ws(rng)
        if k < 0.7:
            # a section with mostly valid settings
            s = {}
            if rng.random() < 0.5:
                s["projectPath"] = rng.choice(['"./projA"', '"projA"', '"./projA"', '"./projB"', '"./src-tauri"', '"./nope"', '"./empty"', "5"])
            if rng.random() < 0.5:
                s["outputPath"] = rng.choice(['"./outF"', '"outF/deep"', '"./src/generated"', "null"])
            if rng.random() < 0.5:
                s["validationLibrary"] = rng.choice(['"zod"', '"zod"', '"zod"', '"none"', '"none"', '"none"', '"yup"', "false"])
            if rng.random() < 0.5:
                s["verbose"] = rng.choice(["true", "true", "false", '"x"'])
            if rng.random() < 0.5:
                s["force"] = rng.choice(["true", "true", "false", "1"])
            if rng.random() < 0.3:
                s["visualizeDeps"] = rng.choice(["true", "false"])
            w["files"][loc] = gen_doc_text(rng, depth=2, root_kinds=False, section=gen_typegen_section(rng, ws, s))
        elif k < 0.85:
            w["files"][loc] = gen_doc_text(rng, depth=2)
        elif k < 0.93:
            w["files"][loc] = rng.choice(BAD_TEXTS)
        else:
            w["files"][loc] = '{"plugins":{"typegen":%s}}' % rng.choice(["null", "[]", "{}", '"s"'])
    fl = {"project": rng.choice([None, None, None, "./projB", "projB", "./projB", "./nope2", "./empty"]),
          "output": rng.choice([None, None, "./outC", "outC/x/y"]),
          "lib": rng.choice([None, None, None, "zod", "none", "zod", "none", "foo", "ZOD"]),
          "verbose": rng.random() < 0.3, "viz": rng.random() < 0.2, "force": rng.random() < 0.3}
    if rng.random() < 0.35:
        w["warm"] = random_warm(rng)
    if fl["project"] in ("./projB", "projB", "./empty") and rng.random() < 0.4:
        # another tauri.conf.json inside the directory named by -p (not a candidate of the search)
        w["files"][norm(fl["project"]) + "/tauri.conf.json"] = rng.choice(
            ['{"productName":"inner"}', sec_text({"outputPath": "./outT", "validationLibrary": "zod", "force": True}), '{"plugins":{}}'])
    return {"world": w, "flags": fl}


# ------------------------------------------------------------------ init

def iflags_argv(il):
    a = ["init"]
    if il["project"] is not None:
        a += ["-p", il["project"]]
    if il["generated"] is not None:
        a += ["-g", il["generated"]]
    if il["output"] is not None:
        a += ["-o", il["output"]]
    if il["lib"] is not None:
        a += ["-v", il["lib"]]
    if il["verbose"]:
        a += ["--verbose"]
    if il["viz"]:
        a += ["--visualize-deps"]
    return a


def iflags_sx(il):
    o = lambda v: [] if v is None else [v]
    return [o(il["project"]), o(il["generated"]), o(il["output"]), o(il["lib"]), il["verbose"], il["viz"]]


def init_target(il):
    out = il["output"] if il["output"] is not None else "tauri.conf.json"
    if out == "tauri.conf.json":
        out = (il["project"] if il["project"] is not None else "./src-tauri") + "/tauri.conf.json"
    return norm(out)


def init_target_key(c):
    """Key of the target document in world["files"] (keys are spelled as the generator wrote them)."""
    t = init_target(c["iflags"])
    for k in c["world"]["files"]:
        if norm(k) == t:
            return k
    return t


def run_init_case(c):
    with vlib.Sandbox("c19i") as sb:
        materialise(sb, c["world"])
        before = sb.snapshot(".", strip_timestamp=False)
        obs, raw, after = observe_run(sb, iflags_argv(c["iflags"]), before, mentions(c), [c["iflags"]["generated"]])
        t = os.path.normpath(os.path.join("w", init_target(c["iflags"])))
        b = after.get(t)
        doc_after = None
        if b is not None:
            try:
                doc_after = py_parse(b.decode("utf-8"))
            except UnicodeDecodeError:
                doc_after = None
    return obs, raw, doc_after


def eval_init(cases):
    res = vlib.pmap(run_init_case, cases)
    reading = serde_read([t for c in cases for t in c["world"]["files"].values()])
    sexps = []
    for c, (obs, raw, doc_after) in zip(cases, res):
        o = obs if obs[0] != "odd" else ["rejected", False]
        tt = c["world"]["files"].get(init_target_key(c))
        bref = py_parse(tt) if tt is not None and reading[tt] is not None else None
        sexps.append(sx([world_fs(c["world"], reading), iflags_sx(c["iflags"]), o,
                         [] if doc_after is None else [to_sx(doc_after)], [] if bref is None else [to_sx(bref)]]))
    ms = vlib.run_runner("c19-init", sexps)
    outs = []
    for c, (obs, raw, doc_after), m in zip(cases, res, ms):
        case = {"world": c["world"], "iflags": c["iflags"]}
        # the model's file system holds values as serde_json reads them: a document rewritten
        # with the same value (other spelling) is a write for the property, no change for the model
        pairs = raw.pop("changed_texts", [])
        value_untouched = all(b is not None and a is not None and reading.get(b) is not None
                              and reading.get(b) == py_parse(a) for b, a in pairs)
        if m and m[0] == "runner-error":
            raise vlib.BuildError("runner: %s" % m)
        result, target, mdoc, ok, kfs = m[0], m[1], m[2], m[3] == "true", list(m[4])
        ok_serde = m[5] == "true"
        kind, eff, unchanged = result[0], result[1], result[2] == "true"
        model_doc = from_sx(mdoc[0]) if mdoc else None
        corr_doc = model_doc == doc_after
        if obs[0] == "odd":
            corr, ok = False, False
        elif obs[0] == "rejected":
            corr = (kind.startswith("reject") or kind == "fail") and (unchanged == value_untouched) and corr_doc
        elif obs[0] == "nocommands":
            corr = kind == "nocommands" and corr_doc
        else:
            corr = kind == "run" and eff and vlib.sx_parse(sx(obs[1])) == eff[0] and corr_doc
        kf = None                           # no recorded defect is left for init
        det = {"impl": {"seen": obs, "raw": raw, "doc_after": None if doc_after is None else plain(doc_after)},
               "model": {"result": result, "target": target, "doc_after": None if model_doc is None else plain(model_doc)},
               "classes": kfs}
        if ok and corr:
            det = {"seen": obs, "classes": kfs}
        outs.append(Outcome(case, corr, ok, kf, det, bool(c["world"]["files"])))
    return outs


INIT_CORPUS = [
    ("regression (fixed C19-2): init -v foo is refused before the file is touched", {"src_tauri": "proj", "files": {"src-tauri/tauri.conf.json": '{"a":1}'}},
     {"project": None, "generated": None, "output": None, "lib": "foo", "verbose": False, "viz": False}),
    ("regression (fixed C19-2): init -p ./nope", {"src_tauri": "proj", "files": {"tauri.conf.json": '{"a":1}'}},
     {"project": "./nope", "generated": None, "output": "./tauri.conf.json", "lib": None, "verbose": False, "viz": False}),
    ("regression (fixed C19-3): init on plugins array is an error", {"src_tauri": "proj", "files": {"src-tauri/tauri.conf.json": '{"a":1,"plugins":[1,2]}'}},
     {"project": None, "generated": None, "output": None, "lib": None, "verbose": False, "viz": False}),
    ("regression (fixed C19-4): init on root array is an error", {"src_tauri": "proj", "files": {"src-tauri/tauri.conf.json": '[1,2]'}},
     {"project": None, "generated": None, "output": None, "lib": "zod", "verbose": False, "viz": False}),
    ("plain init", {"src_tauri": "proj", "files": {"src-tauri/tauri.conf.json": '{"a":1e3,"b":18446744073709551615,"plugins":{"x":{}}}'}},
     {"project": None, "generated": None, "output": None, "lib": None, "verbose": True, "viz": False}),
    ("target missing", {"src_tauri": "proj", "files": {}},
     {"project": None, "generated": "./gen", "output": None, "lib": "zod", "verbose": False, "viz": False}),
    ("target unparseable", {"src_tauri": "proj", "files": {"src-tauri/tauri.conf.json": '{"a":'}},
     {"project": None, "generated": None, "output": None, "lib": None, "verbose": False, "viz": False}),
    ("target elsewhere", {"src_tauri": "proj", "files": {"cfg/tauri.conf.json": '{"k":[1,{"plugins":2}],"plugins":{"typegen":{"force":true,"old":1}}}'}},
     {"project": "./projA", "generated": "./gen", "output": "cfg/tauri.conf.json", "lib": "zod", "verbose": False, "viz": True}),
]


def random_init_case(rng):
    il = {"project": rng.choice([None, None, None, "./projA", "projB", "./projA", "./nope", "./empty"]),
          "generated": rng.choice([None, "./gen", "gen/deep"]),
          "output": rng.choice([None, None, "tauri.conf.json", "./tauri.conf.json", "cfg/tauri.conf.json", "src-tauri/tauri.conf.json"]),
          "lib": rng.choice([None, None, None, "zod", "none", "zod", "none", "foo", ""]),
          "verbose": rng.random() < 0.25, "viz": rng.random() < 0.2}
    w = {"src_tauri": rng.choice(["proj", "proj", "proj", "proj", "proj", "absent"]), "files": {}}
    t = init_target(il)
    if t.startswith("src-tauri/") and w["src_tauri"] == "absent":
        w["src_tauri"] = "dir"
    r = rng.random()
    if r < 0.84:
        w["files"][t] = gen_doc_text(rng, depth=3)
    elif r < 0.92:
        w["files"][t] = rng.choice(BAD_TEXTS)
    # else: no target file
    if rng.random() < 0.15 and t != "tauri.conf.json":
        w["files"]["tauri.conf.json"] = sec_text({"force": rng.random() < 0.5, "verbose": rng.random() < 0.5})
    if t.startswith("nope/"):
        w["files"].pop(t, None)      # the directory does not exist
    if rng.random() < 0.35:
        w["warm"] = random_warm(rng)
    return {"world": w, "iflags": il}


# ------------------------------------------------------------------ standalone file (library level)

def eval_flat(cases, scratch):
    """save_to_file + from_file on settings values."""
    for c in cases:
        c["scratch"] = scratch
    obs = vlib.run_harness("c19-flat", cases, per_case_timeout=20)
    sexps, keep = [], []
    for c, o in zip(cases, obs):
        if "panic" in o or o.get("skipped"):
            keep.append(None)
            continue
        saved = py_parse(o["saved_text"]) if o.get("saved_text") is not None else None
        ld = o["load"]
        impl_loaded = ["some", cfg_sx(ld["cfg"])] if ld["kind"] == "some" else ["err"]
        keep.append((saved, impl_loaded))
        sexps.append(sx([cfg_sx(c["cfg"]), [] if saved is None else [to_sx(saved)], impl_loaded, bool(o["project_exists"])]))
    res = iter(vlib.run_runner("c19-flat", sexps))
    outs = []
    for c, o, k in zip(cases, obs, keep):
        case = {"cfg": c["cfg"], "mkproj": c["mkproj"]}
        if o.get("skipped"):
            continue
        if k is None:
            outs.append(Outcome(case, False, False, detail={"impl": "PANIC " + str(o.get("panic"))}))
            continue
        m = next(res)
        if m and m[0] == "runner-error":
            raise vlib.BuildError("runner: %s" % m)
        saved, impl_loaded = k
        flat, loaded, ok = from_sx(m[0]), m[1], m[2] == "true"
        validate_agrees = (o["validate"] == "ok") == (m[3] == "true")
        ok = ok and validate_agrees
        corr = saved == flat and ((impl_loaded[0] == "some" and loaded and vlib.sx_parse(sx(impl_loaded[1])) == loaded[0])
                                  or (impl_loaded[0] == "err" and not loaded))
        det = {"impl": {"saved": None if saved is None else plain(saved), "load": o["load"]},
               "model": {"saved": plain(flat), "load": loaded}, "oracle_ok": ok}
        if ok and corr:
            det = {"load": o["load"]["kind"]}
        outs.append(Outcome(case, corr, ok, None, det, True))
    return outs


# from_file deserialises the text straight into the struct: the value of an unknown key is skipped
# without being checked (out-of-range number, lone surrogate), so such texts are not malformed for it
BAD_FLAT = [t for t in BAD_TEXTS if not t.startswith('{"a":')] + ['{"a":1,}', '{"verbose":tru}', '{"force":01}']

FLAT_KEYS = {
    "project_path": ['"./projA"', '"./src-tauri"', '"./nope"', "null", "5"],
    "output_path": ['"./outF"', '"./src/generated"', "null", "[]"],
    "validation_library": ['"zod"', '"none"', '"yup"', "true"],
    "verbose": ["true", "false", "null", '"yes"', "1"],
    "visualize_deps": ["true", "false", "null"],
    "include_private": ["true", "false", "null", "0"],
    "type_mappings": ["null", "{}", '{"DateTime":"string"}', '{"A":1}', "[]"],
    "exclude_patterns": ["null", "[]", '["target"]', "[1]", '"x"'],
    "include_patterns": ["null", '["src"]'],
    "default_parameter_case": ['"snake_case"', '"camelCase"', "null"],
    "default_field_case": ['"camelCase"', "7"],
    "force": ["true", "false", "null", '"no"'],
    "unknownKey": ["1", "{}"], "projectPath": ['"./projB"'],
}


def gen_flat_text(rng, valid_only=False):
    items = []
    for k, vs in FLAT_KEYS.items():
        if rng.random() < 0.35:
            v = rng.choice(vs[:2] if valid_only else vs)
            items.append((k, v))
    r = rng.random()
    if r < 0.10 and items:
        # a member given twice (a field: refused by the derived reader; an unknown key: ignored)
        k, v = rng.choice(items)
        items.append((k, v if rng.random() < 0.5 else rng.choice(FLAT_KEYS[k])))
    rng.shuffle(items)
    ws = make_ws(rng)
    if 0.10 <= r < 0.18:
        # a root array: read by position, missing trailing elements take the defaults
        n = rng.choice([0, 1, 2, 3, 4, 6, 9, 12, 12, 13])
        order = ["project_path", "output_path", "validation_library", "verbose", "visualize_deps", "include_private",
                 "type_mappings", "exclude_patterns", "include_patterns", "default_parameter_case", "default_field_case", "force"]
        els = [rng.choice(FLAT_KEYS[k][:2] if (valid_only or rng.random() < 0.8) else FLAT_KEYS[k]) for k in order] + ["1"]
        return "[" + ws() + ("," + ws()).join(els[:n]) + ws() + "]"
    return "{" + ws() + ("," + ws()).join(esc_str(k, rng) + ws() + ":" + ws() + v for k, v in items) + ws() + "}"


# small-scope list of the shapes of a standalone file that are not "an object with each key once"
FLAT_SHAPE_TEXTS = [
    '{"verbose":true,"verbose":false}', '{"verbose":true,"verbose":true}', '{"verbose":null,"verbose":true}',
    '{"force":true,"output_path":"./outF","output_path":"./outG"}', '{"output_path":"./outF","force":true,"output_path":"./outF"}',
    '{"project_path":"./projA","project_path":"./projB"}', '{"validation_library":"yup","validation_library":"zod"}',
    '{"type_mappings":{"A":"x","A":"y"},"output_path":"./outF"}', '{"unknownKey":1,"unknownKey":2,"output_path":"./outF"}',
    '{"a":1,"a":{"verbose":"x"},"force":true}', '{"projectPath":"./projA","projectPath":"./projB","validation_library":"zod"}',
    '{"verbose":"yes","verbose":true}', '{"exclude_patterns":["a"],"include_patterns":["b"],"exclude_patterns":null}',
    '[]', '["./projA"]', '["./projA","./outF"]', '["./projA","./outF","zod"]', '["./projA","./outF","zod",true]',
    '["./projA","./outF","zod",true,true,null,null,null,null,"camelCase","snake_case",true]',
    '["./projA","./outF","zod",false,null,null,{"A":"b"},["x"],null,"snake_case","camelCase",false]',
    '["./projA","./outF","zod",true,null,null,null,null,null,"camelCase","snake_case",true,1]',
    '["./src-tauri","./outF","none",null,null,null,null,null,null,"camelCase","snake_case",null,null]',
    '[5]', '[null]', '["./projA",null]', '["./projA","./outF","yup"]', '["./nope","./outF","zod"]', '["./projA","./outF","zod","yes"]',
    '[["./projA"]]', '[{"project_path":"./projA"}]', '["./projA","./outF","zod",null,null,null,[],null]',
    '["./projA","./outF","zod",null,null,null,{"A":1}]', '["./projA","./outF","zod",null,null,null,null,[1]]',
    '5', 'null', '"text"', 'true',
]


def file_shape_cases():
    """Every shape x three flag sets through generate -c, and as typegen.json of the build script."""
    genc, build = [], []
    for t in FLAT_SHAPE_TEXTS:
        for fl in (dict(NOFLAGS), dict(NOFLAGS, project="./projB"), dict(NOFLAGS, output="./outC", lib="none", force=True)):
            genc.append({"world": {"src_tauri": "proj", "files": {"typegen.json": t}}, "flags": fl, "cfile": "typegen.json"})
        build.append({"world": {"src_tauri": "proj", "files": {"typegen.json": t}}})
    return genc, build


def init_missing_dir_cases():
    """init whose target cannot be created or found: its directory does not exist, a regular file is in the
    way, the target is a directory - for standalone targets and for tauri.conf.json targets, with valid and
    invalid settings, with and without --force, against warm output directories."""
    initfile, init = [], []
    warm = [["./gen", "zod", True], ["./src/generated", "none", False]]
    for out in ("nodir/my.json", "./nodir/my.json", "nodir/deep/my.json", "notes.txt/my.json", "empty/sub/my.json",
                "empty", "./empty", "loop/my.json", "dangling/my.json", "empty/my.json", "projA/my.json"):
        for force in (False, True):
            for over in ({}, {"lib": "foo"}, {"project": "./no-such-dir"}):
                il = dict(IL0, generated="./gen", output=out, lib="zod")
                il.update(over)
                initfile.append({"world": {"src_tauri": "proj", "files": {}, "warm": [list(x) for x in warm]}, "iflags": il, "force": force})
    for out in ("nodir/tauri.conf.json", "./nodir/deep/tauri.conf.json", "notes.txt/tauri.conf.json", "empty/tauri.conf.json"):
        for over in ({}, {"lib": "foo"}, {"viz": True, "verbose": True}):
            init.append({"world": {"src_tauri": "proj", "files": {}, "warm": [list(x) for x in warm]},
                         "iflags": dict(IL0, generated="./gen", output=out, **over)})
    return initfile, init


def eval_flatload(cases, scratch):
    for c in cases:
        c["scratch"] = scratch
        c["dirs"] = ["projA", "src-tauri"]
    obs = vlib.run_harness("c19-flat", cases, per_case_timeout=20)
    reading = serde_read([c["text"] for c in cases])
    outs, sexps, idx = [], [], []
    for i, (c, o) in enumerate(zip(cases, obs)):
        d = reading[c["text"]]
        if d is None or "panic" in o or o.get("skipped"):
            continue
        sexps.append(sx([flat_sx(c["text"]), c["dirs"]]))
        idx.append(i)
    res = vlib.run_runner("c19-flatload", sexps)
    for i, m in zip(idx, res):
        c, o = cases[i], obs[i]
        if m and m[0] == "runner-error":
            raise vlib.BuildError("runner: %s" % m)
        loaded = m[0]
        ld = o["load"]
        corr = (ld["kind"] == "some" and loaded and vlib.sx_parse(sx(cfg_sx(ld["cfg"]))) == loaded[0]) or (ld["kind"] == "err" and not loaded)
        outs.append(Outcome({"text": c["text"]}, bool(corr), True, None,
                            {"load": ld["kind"]} if corr else {"impl": ld, "model": loaded}, True))
    return outs


# ------------------------------------------------------------------ generate -c <standalone file>

def run_generatec_case(c):
    with vlib.Sandbox("c19c") as sb:
        materialise(sb, c["world"])
        before = sb.snapshot(".", strip_timestamp=False)
        obs, raw, _ = observe_run(sb, flags_argv(c["flags"]) + ["-c", c["cfile"]], before, mentions(c), [c["flags"]["output"]])
    return obs, raw


def eval_generatec(cases):
    res = vlib.pmap(run_generatec_case, cases)
    reading = serde_read([t for c in cases for t in c["world"]["files"].values()])
    sexps = []
    for c, (obs, raw) in zip(cases, res):
        o = obs if obs[0] != "odd" else ["rejected", False]
        sexps.append(sx([world_fs(c["world"], reading), flags_sx(c["flags"]), c["cfile"], o]))
    ms = vlib.run_runner("c19-generatec", sexps)
    outs = []
    for c, (obs, raw), m in zip(cases, res, ms):
        case = {"world": c["world"], "flags": c["flags"], "cfile": c["cfile"]}
        if m and m[0] == "runner-error":
            raise vlib.BuildError("runner: %s" % m)
        result, spec, ok, kfs = m[0], m[1], m[2] == "true", list(m[3])
        kind, eff, unchanged = result[0], result[1], result[2] == "true"
        if obs[0] == "odd":
            corr, ok = False, False
        elif obs[0] == "rejected":
            corr = (kind.startswith("reject") or kind == "fail") and (unchanged == obs[1])
        elif obs[0] == "nocommands":
            corr = kind == "nocommands"
        else:
            corr = kind == "run" and eff and vlib.sx_parse(sx(obs[1])) == eff[0]
        kf = None                           # no recorded defect is left for generate -c
        det = {"impl": {"seen": obs, "raw": raw}, "model": result, "spec": spec, "classes": kfs}
        if ok and corr:
            det = {"seen": obs, "classes": kfs}
        outs.append(Outcome(case, corr, ok, kf, det, True))
    return outs


def flat_text(settings):
    return json.dumps(settings)


NOFLAGS = {"project": None, "output": None, "lib": None, "verbose": False, "viz": False, "force": False}


def exhaustive_generatec_cases():
    """2^5 flag subsets x standalone-file variants: each setting absent / non-default / equal to its default."""
    variants = [("empty", {}),
                ("project", {"project_path": "./projA"}), ("project-default", {"project_path": "./src-tauri"}),
                ("output", {"output_path": "./outF"}), ("output-default", {"output_path": "./src/generated"}),
                ("lib", {"validation_library": "zod"}), ("lib-default", {"validation_library": "none"}),
                ("verbose", {"verbose": True}), ("verbose-default", {"verbose": False}),
                ("force", {"force": True}), ("force-default", {"force": False}),
                ("all", {"project_path": "./projA", "output_path": "outF/deep", "validation_library": "zod",
                         "verbose": True, "force": True, "visualize_deps": True, "include_private": None})]
    cases = []
    for vname, st in variants:
        for mask in range(32):
            flag_lib = "none" if st.get("validation_library") == "zod" else "zod"
            fl = {"project": "./projB" if mask & 1 else None, "output": "./outC" if mask & 2 else None,
                  "lib": flag_lib if mask & 4 else None, "verbose": bool(mask & 8), "viz": False, "force": bool(mask & 16)}
            w = {"src_tauri": "proj", "files": {"typegen.json": flat_text(st)}}
            cases.append({"world": w, "flags": fl, "cfile": "typegen.json", "name": "%s/%d" % (vname, mask)})
    return cases


GENC_CORPUS = [
    ("seeded C19-4: force true only in the standalone file", {"force": True}, NOFLAGS, "proj"),
    ("force false in the file, --force flag", {"force": False}, dict(NOFLAGS, force=True), "proj"),
    ("regression (fixed C19-8): file relies on the missing default project, -p gives the real one",
     {"output_path": "./outF", "validation_library": "zod"}, dict(NOFLAGS, project="./projB"), "absent"),
    ("regression (fixed C19-8): file library unsupported, flag supplies a valid one", {"validation_library": "yup", "output_path": "./outF"},
     dict(NOFLAGS, lib="zod"), "proj"),
    ("file library unsupported, no flag", {"validation_library": "yup"}, NOFLAGS, "proj"),
    ("wrong type is an error", {"verbose": "yes"}, NOFLAGS, "proj"),
    ("tauri.conf.json keys are not standalone keys", {"projectPath": "./projA", "outputPath": "./outF"}, NOFLAGS, "proj"),
]


def random_generatec_case(rng):
    w = {"src_tauri": rng.choice(["proj", "proj", "proj", "proj", "dir", "absent"]), "files": {}}
    cfile = rng.choice(["typegen.json", "typegen.json", "conf/my.json", "./cfg.json"])
    r = rng.random()
    if r < 0.8:
        w["files"][cfile] = gen_flat_text(rng, valid_only=rng.random() < 0.7)
    elif r < 0.9:
        w["files"][cfile] = rng.choice(BAD_FLAT + ["5", "null", '"s"'])
    # else: the file does not exist
    if rng.random() < 0.2:
        w["files"]["tauri.conf.json"] = sec_text({"outputPath": "./outT", "force": True})
    fl = {"project": rng.choice([None, None, None, "./projB", "projB", "./nope2"]),
          "output": rng.choice([None, None, "./outC"]),
          "lib": rng.choice([None, None, None, "zod", "none", "foo"]),
          "verbose": rng.random() < 0.3, "viz": rng.random() < 0.2, "force": rng.random() < 0.3}
    if rng.random() < 0.35:
        w["warm"] = random_warm(rng)
    return {"world": w, "flags": fl, "cfile": cfile}


# ------------------------------------------------------------------ build-script loader

MARKER = b"// C19 marker: must survive a run that is not forced\n"


def buildrun(cwd):
    import subprocess
    try:
        r = subprocess.run([vlib.harness_bin("c19"), "buildrun"], cwd=cwd, env=vlib.ENV, timeout=120,
                           stdout=subprocess.PIPE, stderr=subprocess.STDOUT)
    except subprocess.TimeoutExpired:
        return "timeout", ""
    out = r.stdout.decode("utf-8", "replace")
    m = re.search(r"C19RESULT (\w+)(.*)", out)
    return (m.group(1) if m else "crash(%s)" % r.returncode), out


def run_build_case(c):
    with vlib.Sandbox("c19b") as sb:
        materialise(sb, c["world"])
        before = sb.snapshot(".", strip_timestamp=False)
        cwd = sb.path("w")
        verdict, out = buildrun(cwd)
        after = sb.snapshot(".", strip_timestamp=False)
        raw = {"verdict": verdict, "output": out[-800:]}
        if verdict != "ok":
            return ["rejected", after == before], raw
        new = [k for k in after if k.endswith("/commands.ts") and before.get(k) != after[k]]
        if not new:
            return ["nocommands"], raw
        if len(new) != 1:
            return ["odd", "%d commands.ts" % len(new)], raw
        outdir = os.path.dirname(new[0])
        body = after[new[0]].decode("utf-8", "replace")
        m = re.search(r"Generator: (\S+)", body)
        lib = m.group(1) if m else "?"
        projs = [p for fn, p in CMD_PROJECT.items() if ("function %s(" % fn) in body]
        proj = projs[0] if len(projs) == 1 else "?%s" % projs
        viz = (outdir + "/dependency-graph.txt") in after
        with open(sb.path(new[0]), "wb") as fh:
            fh.write(MARKER)
        v2, out2 = buildrun(cwd)
        forced = open(sb.path(new[0]), "rb").read() != MARKER
        raw["second"] = {"verdict": v2, "marker_survived": not forced}
        rel = os.path.relpath(sb.path(outdir), cwd)
        return ["ran", [proj, rel, lib, False, False, viz, forced]], raw


def build_detect_cases():
    """The build script started where the project root has to be detected: one level below it, next to a
    tauri.conf.js, in a directory without any marker (small-scope list)."""
    secA = sec_text({"projectPath": "./projA", "outputPath": "./outT", "validationLibrary": "zod"})
    flatA = flat_text({"project_path": "./projA", "output_path": "./outF", "force": True})
    flatB = flat_text({"project_path": "./projB", "output_path": "./outF"})
    js_sec = '{"plugins":{"typegen":{"projectPath":"./projA","outputPath":"./outT","visualizeDeps":true}}}'
    worlds = [
        ("no marker anywhere", "absent", {}),
        ("typegen.json alone is no marker", "absent", {"typegen.json": flatA}),
        ("parent typegen.json alone is no marker", "absent", {"../typegen.json": flatB}),
        ("parent tauri.conf.json with a section", "absent", {"../tauri.conf.json": secA}),
        ("parent tauri.conf.json without a section, parent typegen.json", "absent", {"../tauri.conf.json": '{"productName":"x"}', "../typegen.json": flatA}),
        ("parent is the root: typegen.json of the working directory is not read", "absent", {"../tauri.conf.json": secA, "typegen.json": flatB}),
        ("parent is the root: its typegen.json loses against its section", "absent", {"../tauri.conf.json": secA, "../typegen.json": flatB}),
        ("working directory is the root: parent files are not read", "proj", {"../tauri.conf.json": secA, "../typegen.json": flatB}),
        ("working directory is the root by typegen-less tauri.conf.json", "absent", {"tauri.conf.json": '{"productName":"x"}', "../tauri.conf.json": secA, "typegen.json": flatA}),
        ("tauri.conf.js that happens to be JSON is read", "absent", {"tauri.conf.js": js_sec}),
        ("tauri.conf.js that is JavaScript: typegen.json", "absent", {"tauri.conf.js": "module.exports = {};", "typegen.json": flatA}),
        ("tauri.conf.json wins over tauri.conf.js", "proj", {"tauri.conf.json": secA, "tauri.conf.js": js_sec.replace("outT", "outF")}),
        ("parent tauri.conf.js", "absent", {"../tauri.conf.js": js_sec}),
        ("C19-9 at the parent: unsupported library", "absent", {"../tauri.conf.json": sec_text({"validationLibrary": "yup", "projectPath": "./projA", "outputPath": "./outT"}),
                                                                "../typegen.json": flatA}),
        ("parent section names a project without commands", "absent", {"../tauri.conf.json": sec_text({"projectPath": "./empty"})}),
        ("parent src-tauri is a marker", "absent", {"../src-tauri/readme.txt": "x", "../typegen.json": flatA}),
    ]
    return [{"world": {"src_tauri": st, "files": files}, "name": name} for name, st, files in worlds]


def eval_build(cases):
    res = vlib.pmap(run_build_case, cases)
    reading = serde_read([t for c in cases for t in c["world"]["files"].values()])
    sexps = []
    for c, (obs, raw) in zip(cases, res):
        o = obs if obs[0] != "odd" else ["rejected", False]
        sexps.append(sx([world_fs(c["world"], reading), o]))
    ms = vlib.run_runner("c19-build", sexps)
    outs = []
    for c, (obs, raw), m in zip(cases, res, ms):
        case = {"world": c["world"]}
        if m and m[0] == "runner-error":
            raise vlib.BuildError("runner: %s" % m)
        result, spec, invalid, ok, kfs = m[0], m[1], m[2] == "true", m[3] == "true", list(m[4])
        kind, eff = result[0], result[1]
        pick = lambda e: [e[0], e[1], e[2], e[5], e[6]]
        if obs[0] == "odd":
            corr, ok = False, False
        elif obs[0] == "rejected":
            corr = False                       # the model of the build script never refuses
        elif obs[0] == "nocommands":
            corr = kind == "nocommands"
        else:
            corr = kind == "run" and eff and pick(vlib.sx_parse(sx(obs[1]))) == pick(eff[0])
        kf = "C19-9" if (not ok and "C19-9" in kfs) else None
        det = {"impl": {"seen": obs, "raw": raw}, "model": result, "spec": {"effective": spec, "invalid": invalid}, "classes": kfs}
        if ok and corr:
            det = {"seen": obs, "classes": kfs}
        outs.append(Outcome(case, corr, ok, kf, det, bool(c["world"]["files"])))
    return outs


def build_cases(rng, n):
    cases = []
    fixed = [
        ("defaults", {}),
        ("typegen.json force", {"typegen.json": flat_text({"force": True, "output_path": "./outF"})}),
        ("typegen.json no force", {"typegen.json": flat_text({"force": False, "output_path": "./outF", "validation_library": "zod"})}),
        ("section wins over typegen.json", {"tauri.conf.json": sec_text({"outputPath": "./outT", "validationLibrary": "zod"}),
                                            "typegen.json": flat_text({"output_path": "./outF"})}),
        ("tauri.conf.json without section", {"tauri.conf.json": '{"productName":"app"}',
                                             "typegen.json": flat_text({"project_path": "./projA", "visualize_deps": True})}),
        ("C19-9 witness: unsupported library in the section", {"tauri.conf.json": sec_text({"validationLibrary": "yup", "outputPath": "./outF"})}),
        ("C19-9: malformed typegen.json", {"typegen.json": '{"verbose":"yes","output_path":"./outF"}'}),
        ("section force", {"tauri.conf.json": sec_text({"force": True, "projectPath": "./projB"})}),
    ]
    for name, files in fixed:
        cases.append({"world": {"src_tauri": "proj", "files": files}, "name": name})
    for _ in range(n):
        files = {}
        if rng.random() < 0.6:
            s = {}
            for k, vs in (("projectPath", ["./projA", "./projB", "./nope", "./empty"]), ("outputPath", ["./outT", "outT/deep"]),
                          ("validationLibrary", ["zod", "none", "zod", "yup"]), ("force", [True, False]),
                          ("visualizeDeps", [True, False]), ("verbose", [True, False])):
                if rng.random() < 0.4:
                    s[k] = rng.choice(vs)
            files["tauri.conf.json"] = sec_text(s) if rng.random() < 0.75 else rng.choice(['{"a":1}', '{"a":', '{"plugins":[]}'])
        if rng.random() < 0.6:
            files["typegen.json"] = gen_flat_text(rng, valid_only=rng.random() < 0.75) if rng.random() < 0.9 else rng.choice(BAD_FLAT)
        cases.append({"world": {"src_tauri": rng.choice(["proj", "proj", "proj", "dir"]), "files": files}})
    return cases


# ------------------------------------------------------------------ init -o <standalone file>

def run_initfile_case(c):
    with vlib.Sandbox("c19s") as sb:
        materialise(sb, c["world"])
        before = sb.snapshot(".", strip_timestamp=False)
        argv = iflags_argv(c["iflags"]) + (["--force"] if c["force"] else [])
        # the second run (which shows whether the cache is honoured) must be allowed to overwrite the file
        obs, raw, after = observe_run(sb, argv, before, mentions(c), [c["iflags"]["generated"]],
                                      argv2=iflags_argv(c["iflags"]) + ["--force"])
        b = after.get(os.path.normpath(os.path.join("w", norm(c["iflags"]["output"]))))
        doc_after = None
        if b is not None:
            try:
                doc_after = py_parse(b.decode("utf-8"))
            except UnicodeDecodeError:
                doc_after = None
    raw.pop("changed_texts", None)
    return obs, raw, doc_after


def eval_initfile(cases):
    res = vlib.pmap(run_initfile_case, cases)
    reading = serde_read([t for c in cases for t in c["world"]["files"].values()])
    sexps = []
    for c, (obs, raw, doc_after) in zip(cases, res):
        o = obs if obs[0] != "odd" else ["rejected", False]
        sexps.append(sx([world_fs(c["world"], reading), iflags_sx(c["iflags"]), c["force"], o,
                         [] if doc_after is None else [to_sx(doc_after)]]))
    ms = vlib.run_runner("c19-initfile", sexps)
    outs = []
    for c, (obs, raw, doc_after), m in zip(cases, res, ms):
        case = {"world": c["world"], "iflags": c["iflags"], "force": c["force"]}
        if m and m[0] == "runner-error":
            raise vlib.BuildError("runner: %s" % m)
        result, mdoc, ok = m[0], m[1], m[2] == "true"
        kind, eff, unchanged = result[0], result[1], result[2] == "true"
        model_doc = from_sx(mdoc[0]) if mdoc else None
        if model_doc is not None and model_doc[0] == "o":
            # an untouched standalone file keeps its repeated members in the model; as a value the last one counts
            model_doc = ("o", tuple(sorted(dict(model_doc[1]).items(), key=lambda kv: kv[0])))
        corr_doc = model_doc == doc_after
        if obs[0] == "odd":
            corr, ok = False, False
        elif obs[0] == "rejected":
            corr = (kind.startswith("reject") or kind == "fail") and (unchanged == obs[1]) and corr_doc
        elif obs[0] == "nocommands":
            corr = kind == "nocommands" and corr_doc
        else:
            corr = kind == "run" and eff and vlib.sx_parse(sx(obs[1])) == eff[0] and corr_doc
        det = {"impl": {"seen": obs, "raw": raw, "doc_after": None if doc_after is None else plain(doc_after)},
               "model": {"result": result, "doc_after": None if model_doc is None else plain(model_doc)}}
        if ok and corr:
            det = {"seen": obs}
        outs.append(Outcome(case, corr, ok, None, det, True))
    return outs


# ------------------------------------------------------------------ path shapes through every entry point

# project paths that name nothing, in the shapes stat() can fail, and other spellings of what exists
MISSING_SHAPES = ["./no-such-dir", "no-such-dir/", "notes.txt/src", "./" + LONG_NAME, LONG_NAME + "/src", "loop/x", "loop",
                  "dangling", "dangling/x", "", "projA/no/such"]
EXISTING_SHAPES = ["notes.txt", ".", "projA/", "linkA", "linkA/", "empty/", "./empty"]
IL0 = {"project": None, "generated": None, "output": None, "lib": None, "verbose": False, "viz": False}


def path_shape_cases():
    """Every shape x every place a project path can be given (small-scope exhaustive)."""
    gen, genc, init, initfile = [], [], [], []
    doc = '{"productName":"demo","build":{"big":18446744073709551615,"ratio":0.1},"plugins":{"shell":{"open":true},"typegen":{"projectPath":"./src-tauri","outputPath":"./old"}}}'
    for shape in MISSING_SHAPES + EXISTING_SHAPES:
        w0 = {"src_tauri": "proj", "files": {}}
        # generate: -p flag; projectPath in tauri.conf.json; both (flag valid, file odd and the other way round)
        gen.append({"world": w0, "flags": dict(NOFLAGS, project=shape)})
        gen.append({"world": {"src_tauri": "proj", "files": {"tauri.conf.json": sec_text({"projectPath": shape, "outputPath": "./outF"})}},
                    "flags": dict(NOFLAGS)})
        gen.append({"world": {"src_tauri": "proj", "files": {"tauri.conf.json": sec_text({"projectPath": shape, "outputPath": "./outF"})}},
                    "flags": dict(NOFLAGS, project="./projB", output="outC/")})
        gen.append({"world": {"src_tauri": "proj", "files": {"tauri.conf.json": sec_text({"projectPath": "./projB", "validationLibrary": "zod"})}},
                    "flags": dict(NOFLAGS, project=shape, force=True)})
        # generate -c: project_path in the standalone file; -p flag over it
        genc.append({"world": {"src_tauri": "proj", "files": {"typegen.json": flat_text({"project_path": shape, "output_path": "./outF"})}},
                     "flags": dict(NOFLAGS), "cfile": "typegen.json"})
        genc.append({"world": {"src_tauri": "proj", "files": {"typegen.json": flat_text({"project_path": "./projB", "force": True})}},
                     "flags": dict(NOFLAGS, project=shape), "cfile": "typegen.json"})
        # init with an explicit tauri.conf.json target (in the working directory, elsewhere)
        for target in ("./tauri.conf.json", "cfg/tauri.conf.json"):
            init.append({"world": {"src_tauri": "proj", "files": {target: doc}},
                         "iflags": dict(IL0, project=shape, generated="./gen", output=target, lib="zod")})
        # init with a standalone target: to be created; existing with and without --force
        initfile.append({"world": w0, "iflags": dict(IL0, project=shape, generated="./gen", output="./typegen.json", lib="zod"), "force": False})
        initfile.append({"world": {"src_tauri": "proj", "files": {"cfg/my.json": '{"old":true}'}},
                         "iflags": dict(IL0, project=shape, output="cfg/my.json"), "force": True})
        initfile.append({"world": {"src_tauri": "proj", "files": {"typegen.json": '{"old":true}'}},
                         "iflags": dict(IL0, project=shape, output="typegen.json", lib="none"), "force": False})
    # an unsupported library with every kind of target
    for lib in ("foo", "", "ZOD"):
        init.append({"world": {"src_tauri": "proj", "files": {"./tauri.conf.json": doc}},
                     "iflags": dict(IL0, output="./tauri.conf.json", lib=lib)})
        initfile.append({"world": {"src_tauri": "proj", "files": {}}, "iflags": dict(IL0, output="./typegen.json", lib=lib), "force": False})
        initfile.append({"world": {"src_tauri": "proj", "files": {"typegen.json": "{}"}}, "iflags": dict(IL0, output="typegen.json", lib=lib), "force": True})
    return gen, genc, init, initfile


def random_initfile_case(rng):
    il = {"project": rng.choice([None, None, "./projA", "projB", "./projB"] + MISSING_SHAPES[:4] + ["linkA", "empty/"]),
          "generated": rng.choice([None, "./gen", "gen/deep", "gen/"]),
          "output": rng.choice(["./typegen.json", "typegen.json", "cfg/my.json", "my.config"]),
          "lib": rng.choice([None, None, "zod", "none", "zod", "foo"]),
          "verbose": rng.random() < 0.2, "viz": rng.random() < 0.2}
    w = {"src_tauri": rng.choice(["proj", "proj", "proj", "absent"]), "files": {}}
    r = rng.random()
    if r < 0.4 or il["output"].startswith("cfg/"):
        w["files"][il["output"]] = rng.choice(['{"old":true}', gen_flat_text(rng), "not json", ""])
    if il["output"].startswith("cfg/") and rng.random() < 0.5:
        w["files"] = {"cfg/other.txt": "x"}          # the directory exists, the target does not
    if rng.random() < 0.15:
        w["files"]["tauri.conf.json"] = sec_text({"force": rng.random() < 0.5, "verbose": rng.random() < 0.5})
    if rng.random() < 0.35:
        w["warm"] = random_warm(rng)
    return {"world": w, "iflags": il, "force": rng.random() < 0.4}


# ------------------------------------------------------------------ refused runs against generated output directories

def warm_rejected_cases():
    """Every rejection reason x every flag with side effects of its own x output directories that a
    successful run has filled before (.typecache and all generated files present), on every entry point."""
    gen, genc, init, initfile = [], [], [], []
    side = [{}, {"force": True}, {"viz": True}, {"verbose": True}, {"force": True, "viz": True, "verbose": True}]
    warm_all = [["./src/generated", "none", False], ["./outC", "zod", True], ["./outF", "none", True]]
    doc = '{"productName":"demo","plugins":{"shell":{"open":true},"typegen":{"projectPath":"./src-tauri","outputPath":"./outF"}}}'

    def w(files=None, st="proj", warm=warm_all):
        return {"src_tauri": st, "files": dict(files or {}), "warm": [list(x) for x in warm]}
    for fx in side:
        for out in (None, "./outC"):
            base = dict(NOFLAGS, output=out, **fx)
            gen.append({"world": w(), "flags": dict(base, lib="yup")})
            gen.append({"world": w(), "flags": dict(base, project="./no-such-dir")})
            gen.append({"world": w(), "flags": dict(base, project="notes.txt/src")})
            gen.append({"world": w({"tauri.conf.json": sec_text({"validationLibrary": "yup", "outputPath": "./outF"})}), "flags": dict(base)})
            gen.append({"world": w({"tauri.conf.json": sec_text({"projectPath": "./nope", "outputPath": "./outF", "force": True})}), "flags": dict(base)})
            gen.append({"world": w(st="absent"), "flags": dict(base)})
            for files, reason_flags in (({}, {}),                                        # -c file missing
                                        ({"typegen.json": '{"verbose":"yes"}'}, {}),      # malformed
                                        ({"typegen.json": flat_text({"validation_library": "yup", "output_path": "./outF"})}, {}),
                                        ({"typegen.json": flat_text({"output_path": "./outF", "force": True})}, {"project": "loop/x"})):
                genc.append({"world": w(files), "flags": dict(base, **reason_flags), "cfile": "typegen.json"})
    wi = [["./gen", "zod", True], ["./src/generated", "none", False]]
    for fx in ({}, {"verbose": True}, {"viz": True}):
        il = dict(IL0, generated="./gen", **fx)
        init.append({"world": w({"./tauri.conf.json": doc}, warm=wi), "iflags": dict(il, output="./tauri.conf.json", lib="foo")})
        init.append({"world": w({"./tauri.conf.json": doc}, warm=wi), "iflags": dict(il, output="./tauri.conf.json", project="./no-such-dir")})
        init.append({"world": w({}, warm=wi), "iflags": dict(il, output="cfg/tauri.conf.json")})                       # target missing
        init.append({"world": w({"./tauri.conf.json": '{"plugins":[1,2]}'}, warm=wi), "iflags": dict(il, output="./tauri.conf.json")})
        init.append({"world": w({"./tauri.conf.json": doc}, warm=wi), "iflags": dict(dict(IL0, **fx), output="./tauri.conf.json", lib="foo")})
        for force in (False, True):
            initfile.append({"world": w({}, warm=wi), "iflags": dict(il, output="./typegen.json", lib="foo"), "force": force})
            initfile.append({"world": w({"typegen.json": '{"old":true}'}, warm=wi),
                             "iflags": dict(il, output="typegen.json", project="dangling/x"), "force": force})
        initfile.append({"world": w({"typegen.json": '{"old":true}'}, warm=wi), "iflags": dict(il, output="typegen.json"), "force": False})
    return gen, genc, init, initfile


# ------------------------------------------------------------------ which file supplies the settings not given as flags

def decoy_cases():
    """The working directory's tauri.conf.json carries the typegen entry; other tauri.conf.json files (without an
    entry, or with a different one) lie in the directory named by -p, in src-tauri/ and in ../ . The documented
    search order (./, src-tauri/, ../) selects the file; a flag for one setting must not change which file
    supplies the others."""
    main = sec_text({"projectPath": "./projA", "outputPath": "./outF", "validationLibrary": "zod", "verbose": True, "force": True})
    plain = '{"productName":"inner","plugins":{"shell":{"open":true}}}'
    other = sec_text({"outputPath": "./outT", "validationLibrary": "none"})
    cases = []
    for loc, pflag in (("projB", "./projB"), ("projA", "./projA"), ("projA", "projA"), ("src-tauri", "./src-tauri"), ("..", None), ("empty", "./empty")):
        for decoy in (plain, other):
            for extra in ({}, {"output": "./outC"}, {"lib": "none", "viz": True}, {"force": True, "verbose": True}):
                files = {"tauri.conf.json": main, loc + "/tauri.conf.json": decoy}
                cases.append({"world": {"src_tauri": "proj", "files": files}, "flags": dict(NOFLAGS, project=pflag, **extra)})
    # no file in the working directory: the second and third candidates decide, never the -p directory
    for pflag in ("./projB", "./projA"):
        cases.append({"world": {"src_tauri": "proj", "files": {"src-tauri/tauri.conf.json": main, pflag[2:] + "/tauri.conf.json": plain}},
                      "flags": dict(NOFLAGS, project=pflag)})
        cases.append({"world": {"src_tauri": "proj", "files": {"../tauri.conf.json": main, pflag[2:] + "/tauri.conf.json": other}},
                      "flags": dict(NOFLAGS, project=pflag)})
        cases.append({"world": {"src_tauri": "proj", "files": {pflag[2:] + "/tauri.conf.json": other}}, "flags": dict(NOFLAGS, project=pflag)})
    return cases


# ------------------------------------------------------------------ entry points

def build_all():
    vlib.build_harness("c19")
    vlib.build_runner("c19")
    vlib.build_repo_bin()


def dist(cases, key):
    d = {}
    for c in cases:
        k = key(c)
        d[k] = d.get(k, 0) + 1
    return d


def run(rep):
    import time
    t0 = time.time()

    def lap(what):
        vlib.log("c19: %s at %.1fs" % (what, time.time() - t0))
    build_all()
    lap("built")
    rng = random.Random(rep.seed)
    quick = rep.tier == "quick"
    # corpus first: minimised past misses (corpus/C19/*.json), replayed deterministically
    for path in corpus_files():
        it = json.load(open(path))
        c = dict(it["case"])
        c["id"] = 0
        run_one(rep, it["stream"], c, "corpus-file")
    with vlib.Sandbox("c19lib") as sb:
        cases, ncorp = lib_cases(rep.tier, rng)
        outs = eval_lib(cases, sb.root)
        rep.add("lib-corpus", outs[:ncorp], sample_count=1)
        rep.add("lib", outs[ncorp:])
        parsed = [py_parse(c["text"]) for c in cases]
        rep.extra["lib_distribution"] = {
            "cases": len(cases),
            "unparseable_texts": sum(1 for p in parsed if p is None),
            "root_not_object": sum(1 for p in parsed if p is not None and p[0] != "o"),
            "plugins_absent": sum(1 for p in parsed if p is not None and p[0] == "o" and "plugins" not in dict(p[1])),
            "plugins_not_object": sum(1 for p in parsed if p is not None and p[0] == "o" and "plugins" in dict(p[1]) and dict(p[1])["plugins"][0] != "o"),
            "with_typegen": sum(1 for p in parsed if p is not None and p[0] == "o" and dict(p[1]).get("plugins", ("z",))[0] == "o" and "typegen" in dict(dict(p[1])["plugins"][1])),
            "invalid_library": sum(1 for c in cases if c["cfg"]["validation_library"] not in ("zod", "none")),
            "project_missing": sum(1 for c in cases if not c["mkproj"]),
            "naming_convention_set": sum(1 for c in cases if c["cfg"]["default_parameter_case"] != "camelCase" or c["cfg"]["default_field_case"] != "snake_case"),
            "refused_documents": sum(1 for o in outs if o.detail.get("save") == "invalid"),
        }
        rep.extra["reader_disagreements"] = READER_DISAGREEMENTS[:20]
    lap("lib done")
    corpus = [{"world": w, "flags": fl, "name": n} for n, w, fl in GEN_CORPUS]
    rep.add("generate-corpus", eval_generate(corpus), sample_count=1)
    ex = exhaustive_generate_cases()
    rep.add("generate-exhaustive", eval_generate(ex), sample_count=1)
    lap("generate exhaustive done")
    rnd = [random_generate_case(rng) for _ in range(700 if quick else 8000)]
    gouts = eval_generate(rnd)
    rep.add("generate-random", gouts)
    rep.extra["generate_distribution"] = {
        "exhaustive": len(ex), "random": len(rnd),
        "random_files": dist(rnd, lambda c: len(c["world"]["files"])),
        "random_flag_count": dist(rnd, lambda c: sum(1 for v in c["flags"].values() if v)),
        "random_in_known_class": sum(1 for o in gouts if o.detail.get("classes")),
        "random_refused": sum(1 for o in gouts if (o.detail.get("seen") or o.detail.get("impl", {}).get("seen"))[0] == "rejected"),
    }
    lap("generate random done")
    # standalone configuration file: library level, generate -c, build-script loader
    with vlib.Sandbox("c19flat") as sb:
        fcases = [{"id": i, "cfg": gen_cfg(rng), "mkproj": rng.random() < 0.9} for i in range(600 if quick else 8000)]
        rep.add("file-roundtrip", eval_flat(fcases, sb.root))
        lcases = [{"id": i, "text": gen_flat_text(rng)} for i in range(600 if quick else 8000)]
        rep.add("file-read", eval_flatload(lcases, sb.root))
    gcc = [{"world": {"src_tauri": st, "files": {"typegen.json": flat_text(d)}}, "flags": fl, "cfile": "typegen.json", "name": n}
           for n, d, fl, st in GENC_CORPUS]
    rep.add("generate-c-corpus", eval_generatec(gcc), sample_count=1)
    gce = exhaustive_generatec_cases()
    rep.add("generate-c-exhaustive", eval_generatec(gce), sample_count=1)
    gcr = [random_generatec_case(rng) for _ in range(400 if quick else 5000)]
    rep.add("generate-c-random", eval_generatec(gcr))
    bcs = build_cases(rng, 150 if quick else 3000)
    rep.add("build-loader", eval_build(bcs))
    # shapes of a standalone file outside "an object with each key once": repeated members, root arrays, scalars
    with vlib.Sandbox("c19shape") as sb:
        rep.add("file-shapes-read", eval_flatload([{"id": i, "text": t} for i, t in enumerate(FLAT_SHAPE_TEXTS)], sb.root), sample_count=1)
    sgc, sbl = file_shape_cases()
    rep.add("file-shapes-generate-c", eval_generatec(sgc), sample_count=1)
    rep.add("file-shapes-build", eval_build(sbl), sample_count=1)
    bdc = build_detect_cases()
    rep.add("build-detect", eval_build(bdc), sample_count=1)
    mf, mi = init_missing_dir_cases()
    rep.add("init-missing-dir-file", eval_initfile(mf), sample_count=1)
    rep.add("init-missing-dir", eval_init(mi), sample_count=1)
    rep.extra["shape_distribution"] = {"file_shapes": len(FLAT_SHAPE_TEXTS), "generate_c": len(sgc), "build": len(sbl),
                                       "init_missing_dir_file": len(mf), "init_missing_dir": len(mi), "build_detect": len(bdc)}
    rep.extra["standalone_distribution"] = {"file_roundtrip": len(fcases), "file_read": len(lcases),
                                            "generate_c_exhaustive": len(gce), "generate_c_random": len(gcr),
                                            "build_loader": len(bcs)}
    lap("standalone done")
    # path shapes (through a file, over-long component, symlink loop, dangling symlink, file for a directory,
    # empty string, ".", trailing slash, symlink to a directory) through every entry point
    pg, pc, pi, pf = path_shape_cases()
    rep.add("path-shapes-generate", eval_generate(pg), sample_count=1)
    rep.add("path-shapes-generate-c", eval_generatec(pc), sample_count=1)
    rep.add("path-shapes-init", eval_init(pi), sample_count=1)
    rep.add("path-shapes-init-file", eval_initfile(pf), sample_count=1)
    fr = [random_initfile_case(rng) for _ in range(250 if quick else 4000)]
    rep.add("init-file-random", eval_initfile(fr))
    rep.extra["path_shape_distribution"] = {"generate": len(pg), "generate_c": len(pc), "init": len(pi),
                                            "init_file": len(pf), "init_file_random": len(fr),
                                            "missing_shapes": len(MISSING_SHAPES), "existing_shapes": len(EXISTING_SHAPES)}
    wg, wc, wi, wf = warm_rejected_cases()
    rep.add("warm-rejected-generate", eval_generate(wg), sample_count=1)
    rep.add("warm-rejected-generate-c", eval_generatec(wc), sample_count=1)
    rep.add("warm-rejected-init", eval_init(wi), sample_count=1)
    rep.add("warm-rejected-init-file", eval_initfile(wf), sample_count=1)
    rep.extra["warm_rejected_distribution"] = {"generate": len(wg), "generate_c": len(wc), "init": len(wi), "init_file": len(wf)}
    dc = decoy_cases()
    rep.add("generate-decoy-files", eval_generate(dc), sample_count=1)
    rep.extra["decoy_cases"] = len(dc)
    lap("path shapes done")
    icorpus = [{"world": w, "iflags": il, "name": n} for n, w, il in INIT_CORPUS]
    rep.add("init-corpus", eval_init(icorpus), sample_count=1)
    irnd = [random_init_case(rng) for _ in range(500 if quick else 6000)]
    iouts = eval_init(irnd)
    rep.add("init-random", iouts)
    lap("init done")
    rep.extra["init_distribution"] = {
        "random": len(irnd),
        "in_known_class": sum(1 for o in iouts if o.detail.get("classes")),
        "refused": sum(1 for o in iouts if (o.detail.get("seen") or o.detail.get("impl", {}).get("seen"))[0] == "rejected"),
    }


def run_one(rep, st, c, name=None):
    """Evaluate one stored case of stream st (replay files and corpus/C19/*.json)."""
    name = name or st
    if st.startswith("lib"):
        with vlib.Sandbox("c19lib") as sb:
            rep.add(name, eval_lib([c], sb.root))
    elif st.startswith("file-roundtrip"):
        with vlib.Sandbox("c19flat") as sb:
            rep.add(name, eval_flat([c], sb.root))
    elif st.startswith("file-read") or st.startswith("file-shapes-read"):
        with vlib.Sandbox("c19flat") as sb:
            rep.add(name, eval_flatload([c], sb.root))
    elif "init-file" in st or st == "init-missing-dir-file":
        rep.add(name, eval_initfile([c]))
    elif st in ("path-shapes-init", "warm-rejected-init") or st.startswith("init"):
        rep.add(name, eval_init([c]))
    elif st.startswith("generate-c") or st in ("path-shapes-generate-c", "warm-rejected-generate-c", "file-shapes-generate-c"):
        rep.add(name, eval_generatec([c]))
    elif st.startswith("build") or st == "file-shapes-build":
        rep.add(name, eval_build([c]))
    else:
        rep.add(name, eval_generate([c]))


def corpus_files():
    d = os.path.join(vlib.VERIF, "corpus", "C19")
    return sorted(os.path.join(d, f) for f in os.listdir(d) if f.endswith(".json")) if os.path.isdir(d) else []


def replay(rep, payload):
    build_all()
    items = payload.get("disagreeing_cases") or [payload]
    for i, it in enumerate(items):
        c = dict(it["case"])
        c["id"] = i
        run_one(rep, it["stream"], c)
