"""C16 helpers: scenario format, sandbox construction, execution of the real entry points,
snapshots and diffs, python re-computation of the effective configuration, generators.

Scenario (plain JSON, deterministic to replay):
  {"name": str,
   "cwd": world-relative working directory of every run,
   "proj_dir": world-relative directory that holds the sources (src/main.rs below it),
   "dirs": [world-relative directories to create],
   "files": {world-relative path: text},            foreign files and configuration files
   "runs": [{"entry": "generate"|"init"|"build",
             "variant": None|"cmds"|"cmds2"|"events"|"nocmds",   sources rewritten before the run
             "args": {...}}]}                          see cli_args
The token @WORLD@ inside arguments and file texts stands for the absolute path of the world."""
import hashlib
import json
import os
import subprocess

from tools import vlib

WORLD = "@WORLD@"

SOURCES = {
    "cmds": '''use serde::{Deserialize, Serialize};
#[derive(Serialize, Deserialize)]
pub struct User { pub id: u32, pub name: String }
#[tauri::command]
pub fn get_user(id: u32) -> Result<User, String> { Err("x".into()) }
#[tauri::command]
pub async fn save_user(user: User) -> Result<(), String> { Ok(()) }
fn main() {}
''',
    "cmds2": '''use serde::{Deserialize, Serialize};
#[derive(Serialize, Deserialize)]
pub struct Item { pub sku: String, pub count: Option<u32> }
#[tauri::command]
pub fn list_items(filter: Option<String>) -> Vec<Item> { vec![] }
fn main() {}
''',
    "events": '''use serde::{Deserialize, Serialize};
#[derive(Clone, Serialize, Deserialize)]
pub struct Progress { pub done: u32 }
#[tauri::command]
pub fn start(app: tauri::AppHandle, n: u32) -> Result<(), String> {
    app.emit("progress-changed", Progress { done: n }).map_err(|e| e.to_string())
}
fn main() {}
''',
    "nocmds": '''pub fn helper(x: u32) -> u32 { x + 1 }
fn main() {}
''',
}
HAS_CMDS = {"cmds": True, "cmds2": True, "events": True, "nocmds": False}

# names the property text reserves (the tool never writes the second group itself)
RESERVED_OWN = ["types.ts", "commands.ts", "events.ts", "index.ts", ".typecache", "dependency-graph.txt", "dependency-graph.dot"]
RESERVED_OTHER = ["types.d.ts", "commands.d.ts", "events.d.ts", "index.d.ts", "schemas.ts", "schemas.d.ts", "models.ts",
                  "models.d.ts", "bindings.ts", "bindings.d.ts", "generated_api.ts", "generated_", "api_generated.ts",
                  "my_generated_notes.txt", "_generated", "x_generated.ts", "generated_x.ts"]
NEAR_MISS = ["types.ts.bak", "mytypes.ts", "index.tsx", ".write_test", "generated.ts", "types.tsx", "Types.ts",
             "commands.js", "schema.ts", "typecache", ".typecache.bak", "dependency-graph.svg", "dependency-graph",
             "_generate", "generated", "generatedx.ts", "xgenerated.ts", "Generated_x.ts", "x_Generated.ts",
             "generated-api.ts", "notes.md", "README", "user_code.ts", "types.tmp", ".tmp", "types.d.tsx",
             "events.d.ts.orig", "model.ts", "binding.ts", "index.mts", ".write_test.bak", "write_test", "a b.ts"]
ALL_NAMES = RESERVED_OWN + RESERVED_OTHER + NEAR_MISS
# Rust sources (command-free) for output directories that lie inside the project path
RS_NAMES = ["generated_cmds.rs", "api_generated.rs", "helpers.rs", "types.rs", "my_generated_mod.rs", "generated.rs",
            "index.rs", "generated_.rs"]


def systematic_near_misses():
    """Names built from every reserved name by inserting / appending / prepending segments and characters,
    case changes, neighbouring extensions, and the .tmp siblings of every written file. Deterministic.
    Some of them are reserved by the text (e.g. types_generated.ts); reserved_py / reserved_name_b decide."""
    stems = ["types", "commands", "events", "index", "schemas", "models", "bindings"]
    out = []
    for st in stems:
        for ext in (".ts", ".d.ts"):
            n = st + ext
            out += [st + ".test" + ext, st + ".spec" + ext, st + ".mock" + ext, st + ".legacy" + ext, st + ".x" + ext,
                    st + ".custom" + ext, st + ".extra" + ext,                    # stem.x.ts
                    n + ".bak", n + ".old", n + ".map", n + ".orig", n + ".tmp", n + "~", n + ".x",   # stem.ts.x
                    "my." + n, "x." + n, "a.b." + n,                              # x.stem.ts
                    st + "-x" + ext, st + "-old" + ext, st + "_x" + ext, st + "_old" + ext,          # stem-x.ts
                    st + "x" + ext, st + "2" + ext, st + "s" + ext,                # stemx.ts
                    "x" + n, "my" + n, "my-" + n, "_" + n, "." + n,                # xstem.ts
                    st.upper() + ext, st.capitalize() + ext, st + ext.upper(),     # STEM.ts
                    n + "x", st + ext.replace(".ts", ".tsx"), st + ext.replace(".ts", ".mts"),
                    st + ext.replace(".ts", ".cts"), st + ext.replace(".ts", ".js"), st + ext.replace(".ts", ".t"),
                    st + ext + " ", " " + n, st + " " + ext]
        out += [st, st + ".", st + ".d", st + ".d.ts.map", st + ".d.tsx", st + ".d.d.ts", st + "..ts", st + ".ts.d.ts",
                st + ".tmp", st + ".d.tmp", st + ".json", st + ".rs.bak"]
    for n in (".typecache", "dependency-graph.txt", "dependency-graph.dot"):
        base, dot, ext = n.rpartition(".")
        out += [n + ".bak", n + ".old", n + ".tmp", n + "~", n + "2", n + ".x", "x" + n, "my-" + n, "x." + n, n.upper(),
                n.capitalize(), n.lstrip("."), "_" + n]
        if base:
            out += [base, base + ".tmp", base + ".svg", base + ".png", base + ".TXT", base + "-x." + ext, base + "x." + ext,
                    base.replace("-", "_") + "." + ext, base + "." + ext + "x"]
    out += [".typecache.lock", ".type_cache", ".typecaches", "typecache.json", ".cache"]
    for a in ("generated", "_generated", "generated_"):
        out += [a, a + ".ts", a + ".d.ts", a + ".txt", a + ".json", a + ".tmp", a.upper(), a.capitalize(), a + "x", "x" + a,
                a + ".bak", "." + a, a.replace("_", "-"), a.replace("_", "-") + "x.ts", "x" + a.replace("_", "-") + ".ts"]
    out += ["Generated_x.ts", "GENERATED_x.ts", "x_Generated.ts", "x_GENERATED.ts", "x-generated.ts", "generated-x.ts",
            "xgenerated_.ts", "x_generate.ts", "_generate", "generate_d.ts", "x_generatedx.md", "generated_x", "x_generated",
            "a_generated.b_generated.ts", "generated_generated_", "_gener_ated", "gen_erated_x.ts", "x__generated.ts"]
    seen, res = set(), []
    for n in out:
        if n not in seen and n not in (".", "..") and "/" not in n and n != ".write_test":
            seen.add(n)
            res.append(n)
    return res


SYSTEMATIC = systematic_near_misses()
FRAGMENTS = ["generated", "_", "types", ".ts", ".d", "x", "index", "-", "G", "_generated", "generated_", ".", "events",
             "models", "cache", "type", "s", "command", ".write_test", "dependency-graph", ".txt"]


def random_name(rng):
    while True:
        n = "".join(rng.choice(FRAGMENTS) for _ in range(rng.randint(1, 4)))
        if n not in (".", "..") and "/" not in n and len(n) < 60:
            return n


# ---------------------------------------------------------------- paths

def comps(rel):
    return [c for c in rel.split("/") if c not in ("", ".")]


def is_prefix(p, q):
    return len(p) <= len(q) and q[:len(p)] == p


def resolve(world, cwd, s):
    """Component list (below the world) of a path string as a process in cwd sees it. None = not modelled."""
    s = s.replace(WORLD, world)
    if s.startswith("/"):
        w = world.rstrip("/")
        if not (s == w or s.startswith(w + "/")):
            return None
        parts = comps(s[len(w):])
    else:
        parts = comps(cwd) + comps(s)
    # dot-dot segments as the OS resolves them (no symbolic links in the world): lexically, provided every
    # directory stepped out of exists - the generators only step out of existing directories
    out = []
    for c in parts:
        if c == "..":
            if not out:
                return None
            out.pop()
        else:
            out.append(c)
    return out


def resolve_os(world, cwd, s):
    """Component list (below the world) of the entry the OPERATING SYSTEM reaches for the path string s in cwd:
    symbolic links are followed component by component and a dot-dot names the parent of the directory actually
    reached (for link/.. the parent of the link's target, not the directory holding the link). Needs the world on
    disk; components that do not exist yet (the output directory to be created) are appended as they are. Used
    for scenarios that contain symbolic links; the lexical resolve() above is what a folding layer would compute."""
    s = s.replace(WORLD, world)
    full = s if s.startswith("/") else os.path.join(world, cwd, s)
    real, w = os.path.realpath(full), os.path.realpath(world)
    if not (real == w or real.startswith(w + "/")):
        return None
    return comps(real[len(w):])


def resolve_links(links, cwd, s):
    """Generator-side twin of resolve_os (no world on disk yet): the physical component list of s seen from cwd in
    a world whose only symbolic links are `links` {world-relative path: target string}. Only used to decide where
    foreign files are placed; the verdict always uses resolve_os on the constructed world."""
    s = s.replace(WORLD, "")
    todo = comps(s) if s.startswith("/") else comps(cwd) + comps(s)
    out, steps = [], 0
    while todo:
        c = todo.pop(0)
        steps += 1
        if steps > 400:
            return None
        if c == "..":
            if not out:
                return None
            out.pop()
            continue
        out.append(c)
        t = links.get("/".join(out))
        if t is not None:
            out.pop()
            t = t.replace(WORLD, "")
            if t.startswith("/"):
                out = []
            todo = comps(t) + todo
    return out


# ---------------------------------------------------------------- snapshots

def tok(b):
    b = vlib.strip_generated_at(b)
    if len(b) <= 48 and all(32 <= c < 127 for c in b):
        return b.decode("ascii")
    return "#%s:%d" % (hashlib.sha1(b).hexdigest()[:16], len(b))


def snapshot(top):
    """{relative path: None for a directory | content token for a regular file | "@link:<target>" for a symbolic link
    (never followed: links are opaque leaves; the generators put them only under non-reserved names)}"""
    out = {}
    for r, ds, fs in os.walk(top):
        for d in list(ds):
            p = os.path.join(r, d)
            if os.path.islink(p):
                out[os.path.relpath(p, top)] = "@link:" + os.readlink(p)
            else:
                out[os.path.relpath(p, top)] = None
        for f in fs:
            p = os.path.join(r, f)
            if os.path.islink(p):
                out[os.path.relpath(p, top)] = "@link:" + os.readlink(p)
                continue
            try:
                out[os.path.relpath(p, top)] = tok(open(p, "rb").read())
            except OSError:
                out[os.path.relpath(p, top)] = "<unreadable>"
    return out


def metadata(top, prefix=""):
    """lstat facts of everything that is not a directory: (mode, mtime_ns, inode, size). A foreign file whose bytes
    are the same but which was re-created, truncated and rewritten, chmod-ed or touched shows up here."""
    out = {}
    for r, ds, fs in os.walk(top):
        for n in [d for d in ds if os.path.islink(os.path.join(r, d))] + fs:
            p = os.path.join(r, n)
            try:
                st = os.lstat(p)
                out[prefix + os.path.relpath(p, top)] = (st.st_mode, st.st_mtime_ns, st.st_ino, st.st_size)
            except OSError:
                pass
    return out


def metadata_all(world, other_tmp):
    m = metadata(world)
    if other_tmp:
        m.update(metadata(other_tmp, OTHER + "/"))
    return m


def diff(before, after):
    changed, new_dirs, gone_dirs = [], [], []
    for p in sorted(set(before) | set(after)):
        b, a = before.get(p, "absent"), after.get(p, "absent")
        if b == a:
            continue
        b_file = b not in ("absent", None)
        a_file = a not in ("absent", None)
        if b_file or a_file:
            changed.append(p)
        if a is None and b is not None:
            new_dirs.append(p)
        if b is None and a is not None:
            gone_dirs.append(p)
    return {"changed_files": changed, "new_dirs": new_dirs, "gone_dirs": gone_dirs}


def dict_diff(model, impl):
    d = {}
    for p in sorted(set(model) | set(impl)):
        m, i = model.get(p, "absent"), impl.get(p, "absent")
        if m != i:
            d[p] = {"model": m, "impl": i}
        if len(d) >= 12:
            break
    return d


# ---------------------------------------------------------------- effective configuration (mirror of the code; C19's subject)

def default_cfg():
    return {"p": "./src-tauri", "o": "./src/generated", "lib": "none", "viz": False, "force": False}


def from_tauri_config(path, cwd_abs, validate=True):
    """GenerateConfig::from_tauri_config (validate=True; the build-script path) and
    from_tauri_config_unvalidated (validate=False; run_generate applies the flags on top of the file's
    settings and validates the effective configuration afterwards): ('some', cfg) | ('none',) | ('err',)"""
    try:
        doc = json.loads(open(path, encoding="utf-8").read())
    except (OSError, ValueError):
        return ("err",)
    plugins = doc.get("plugins") if isinstance(doc, dict) else None
    if plugins is None:
        return ("none",)
    tg = plugins.get("typegen") if isinstance(plugins, dict) else None
    if tg is None:
        return ("none",)
    c = default_cfg()
    if isinstance(tg, dict):
        for key, field, ty in (("projectPath", "p", str), ("outputPath", "o", str), ("validationLibrary", "lib", str),
                               ("visualizeDeps", "viz", bool), ("force", "force", bool)):
            v = tg.get(key)
            if isinstance(v, ty) and not (ty is str and isinstance(v, bool)):
                c[field] = v
    if validate and (c["lib"] not in ("zod", "none") or not os.path.exists(os.path.join(cwd_abs, c["p"]))):
        return ("err",)
    return ("some", c)


def from_file(path, cwd_abs, validate=True):
    """GenerateConfig::from_file / from_file_unvalidated (serde, snake_case, every field defaulted)"""
    try:
        doc = json.loads(open(path, encoding="utf-8").read())
    except (OSError, ValueError):
        return None
    if not isinstance(doc, dict):
        return None
    c = default_cfg()
    for key, field, ty in (("project_path", "p", str), ("output_path", "o", str), ("validation_library", "lib", str)):
        if key in doc:
            if not isinstance(doc[key], str):
                return None
            c[field] = doc[key]
    for key, field in (("visualize_deps", "viz"), ("force", "force")):
        if key in doc:
            if doc[key] is None:
                c[field] = False
            elif isinstance(doc[key], bool):
                c[field] = doc[key]
            else:
                return None
    if validate and (c["lib"] not in ("zod", "none") or not os.path.exists(os.path.join(cwd_abs, c["p"]))):
        return None
    return c


def cli_effective(cwd_abs, args):
    """run_generate: configuration file candidates, then flags."""
    c = default_cfg()
    if args.get("c"):
        # explicit file: a missing or invalid file is an error before anything else happens
        p = os.path.join(cwd_abs, args["c"])
        got = from_file(p, cwd_abs, validate=False) if os.path.exists(p) else None
        if got is None:
            return None
        c = got
    else:
        for cand in ("tauri.conf.json", "src-tauri/tauri.conf.json", "../tauri.conf.json"):
            p = os.path.join(cwd_abs, cand)
            if os.path.exists(p):
                r = from_tauri_config(p, cwd_abs, validate=False)    # an invalid value in the file is refused below,
                if r[0] == "some":                                   # by config.validate() on the effective settings
                    c = r[1]
                    break
                if r[0] == "none":
                    break
    if args.get("p") is not None:
        c["p"] = args["p"]
    if args.get("o") is not None:
        c["o"] = args["o"]
    if args.get("v") is not None:
        c["lib"] = args["v"]
    if args.get("viz"):
        c["viz"] = True
    if args.get("force"):
        c["force"] = True
    return c


def build_effective(world, cwd_abs):
    """ProjectScanner::detect_project + BuildSystem::load_configuration. (detected, cfg)"""
    d = cwd_abs
    root = None
    conf = None
    while True:
        cj, cs, st = os.path.join(d, "tauri.conf.json"), os.path.join(d, "tauri.conf.js"), os.path.join(d, "src-tauri")
        conf = cj if os.path.exists(cj) else (cs if os.path.exists(cs) else None)
        if conf or os.path.exists(st):
            root = d
            break
        if os.path.realpath(d) == os.path.realpath(world) or d == "/":
            break
        d = os.path.dirname(d)
    if root is None:
        return False, default_cfg()
    if conf:
        r = from_tauri_config(conf, cwd_abs)
        if r[0] == "some":
            return True, r[1]
    tj = os.path.join(root, "typegen.json")
    if os.path.exists(tj):
        c = from_file(tj, cwd_abs)
        if c is not None:
            return True, c
    return True, default_cfg()


# ---------------------------------------------------------------- execution

SECOND_FS = "/dev/shm"          # tmpfs here; a temp directory on another file system than the sandbox
OTHER = "@tmpfs"                # name of that directory inside snapshots and in the model's file system
ENV_DIRS = {"TMPDIR": "_env/tmp", "HOME": "_env/home", "XDG_CACHE_HOME": "_env/xdg/cache", "XDG_CONFIG_HOME": "_env/xdg/config",
            "XDG_DATA_HOME": "_env/xdg/data", "XDG_STATE_HOME": "_env/xdg/state", "XDG_RUNTIME_DIR": "_env/xdg/run"}


def second_fs_dir(world):
    """A fresh directory on a file system different from the world's, or None (reported in the evidence)."""
    import tempfile
    try:
        if not os.path.isdir(SECOND_FS) or os.stat(SECOND_FS).st_dev == os.stat(world).st_dev:
            return None
        return tempfile.mkdtemp(prefix="c16-", dir=SECOND_FS)
    except OSError:
        return None


def watched_env(world, other_tmp):
    """Every place a process may pick for scratch or per-user files points into watched directories:
    inside the world (same file system as the output directory) or, for TMPDIR, on the second file system."""
    env = dict(vlib.ENV)
    for var, rel in ENV_DIRS.items():
        d = os.path.join(world, rel)
        os.makedirs(d, exist_ok=True)
        env[var] = d
    for var in ("TMP", "TEMP", "TEMPDIR"):
        env.pop(var, None)
    if other_tmp:
        env["TMPDIR"] = other_tmp
    return env


def run_proc(argv, cwd, env, timeout=120):
    try:
        r = subprocess.run(argv, cwd=cwd, env=env, timeout=timeout, stdin=subprocess.DEVNULL,
                           stdout=subprocess.PIPE, stderr=subprocess.STDOUT)
        return r.returncode, r.stdout.decode("utf-8", "replace")
    except subprocess.TimeoutExpired:
        return -1, "TIMEOUT"


def snapshot_all(world, other_tmp):
    snap = snapshot(world)
    if other_tmp:
        snap[OTHER] = None
        for k, v in snapshot(other_tmp).items():
            snap[OTHER + "/" + k] = v
    return snap


def sub(world, s):
    return s.replace(WORLD, world) if isinstance(s, str) else s


def cli_args(world, entry, a):
    if entry == "generate":
        argv = ["generate"]
        for flag, key in (("-p", "p"), ("-o", "o"), ("-v", "v"), ("-c", "c")):
            if a.get(key) is not None:
                argv += [flag, sub(world, a[key])]
        if a.get("viz"):
            argv.append("--visualize-deps")
        if a.get("force"):
            argv.append("--force")
        return argv
    argv = ["init"]
    for flag, key in (("-p", "p"), ("-g", "g"), ("-o", "o"), ("-v", "v")):
        if a.get(key) is not None:
            argv += [flag, sub(world, a[key])]
    if a.get("viz"):
        argv.append("--visualize-deps")
    if a.get("force"):
        argv.append("--force")
    return argv


def reference(sb, world, cwd_abs, variant, p_str, lib, viz, cache):
    """Contents a generation of the current sources produces: real binary, --force, output outside the world."""
    key = (variant, p_str, cwd_abs, lib, viz, sources_digest(os.path.join(cwd_abs, p_str)))
    if key in cache:
        return cache[key]
    ref = sb.path("ref", "r%d" % len(cache))
    # The settings are handed over in an explicit configuration file (-c), so that the reference does not pick up
    # anything from tauri.conf.json candidates in the working directory that the observed run does not read
    # (e.g. visualizeDeps written by an earlier init into src-tauri/tauri.conf.json while a build run uses defaults;
    # visualize_deps is part of the cache record since the C08/C14 repairs).
    os.makedirs(sb.path("ref"), exist_ok=True)
    cfile = sb.path("ref", "cfg%d.json" % len(cache))
    with open(cfile, "w") as f:
        json.dump({"project_path": p_str, "output_path": ref, "validation_library": lib, "visualize_deps": bool(viz),
                   "force": True}, f)
    argv = ["generate", "-c", cfile]
    env = dict(vlib.ENV)
    env["TMPDIR"] = sb.path("reftmp")
    os.makedirs(env["TMPDIR"], exist_ok=True)
    st, out = run_proc([vlib.REPO_BIN, "tauri-typegen"] + argv, cwd_abs, env)
    k = {}
    if st == 0 and os.path.isdir(ref):
        for n in os.listdir(ref):
            k[n] = tok(open(os.path.join(ref, n), "rb").read())
    cache[key] = k
    return k


def sources_digest(proj_abs):
    h = hashlib.sha1()
    for r, ds, fs in sorted(os.walk(proj_abs)):
        for f in sorted(fs):
            if f.endswith(".rs"):
                p = os.path.join(r, f)
                h.update(p.encode() + b"\0" + open(p, "rb").read())
    return h.hexdigest()


class ScenarioError(Exception):
    """The world of a scenario could not be constructed (generator fault, not an observation)."""


def execute(sc):
    other = None
    try:
        with vlib.Sandbox("c16") as sb:
            if sc.get("tmpdir") == "other":
                os.makedirs(sb.path("w"))
                other = second_fs_dir(sb.path("w"))
            res = execute_in(sb, sc, other)
            res["tmp_other_fs"] = bool(other)
            res["tmp_fallback"] = sc.get("tmpdir") == "other" and not other
            return res
    except ScenarioError as e:
        return {"machinery_error": "%s: %s" % (sc.get("name"), e)}
    except Exception as e:                                   # reported per scenario, never silently dropped
        import traceback
        return {"error": "%s\n%s" % (e, traceback.format_exc()[-1500:])}
    finally:
        if other:
            import shutil
            shutil.rmtree(other, ignore_errors=True)


def execute_in(sb, sc, other_tmp=None):
    try:
        world = sb.path("w")
        os.makedirs(world, exist_ok=True)
        env = watched_env(world, other_tmp)
        cwd_abs = os.path.join(world, sc["cwd"])
        os.makedirs(cwd_abs, exist_ok=True)
        src_dir = os.path.join(world, sc["proj_dir"], "src")
        if not sc.get("no_project_dir"):
            os.makedirs(src_dir, exist_ok=True)
        for d in sc.get("dirs", []):
            os.makedirs(os.path.join(world, d), exist_ok=True)
        for rel, text in sc.get("files", {}).items():
            p = os.path.join(world, rel)
            os.makedirs(os.path.dirname(p), exist_ok=True)
            with open(p, "w", encoding="utf-8") as f:
                f.write(sub(world, text))
        for rel, target in sc.get("links", {}).items():
            p = os.path.join(world, rel)
            os.makedirs(os.path.dirname(p), exist_ok=True)
            os.symlink(sub(world, target), p)
        for rel, mode in sc.get("modes", {}).items():
            os.chmod(os.path.join(world, rel), int(mode, 8))
    except OSError as e:
        raise ScenarioError(str(e))
    variant = None
    refs = {}
    steps = []
    # a world with symbolic links: the run's directories are what the OS resolves the configured strings to
    # (link/.. = parent of the link's TARGET); without links the lexical reading is the OS's
    if sc.get("links"):
        def rs(s):
            return resolve_os(world, sc["cwd"], s)
    else:
        def rs(s):
            return resolve(world, sc["cwd"], s)
    for run in sc["runs"]:
        entry, a = run["entry"], run.get("args", {})
        if run.get("variant"):
            variant = run["variant"]
            os.makedirs(src_dir, exist_ok=True)
            with open(os.path.join(src_dir, "main.rs"), "w") as f:
                f.write(SOURCES[variant])
        for src, dst in run.get("copy", []):
            # a foreign file whose CONTENT is (part of) generated output: copied by the user before this run
            sp, dp = os.path.join(world, src), os.path.join(world, dst)
            if os.path.isfile(sp):
                os.makedirs(os.path.dirname(dp), exist_ok=True)
                data = open(sp, "rb").read()
                with open(dp, "wb") as f:
                    f.write(data if not run.get("copy_prefix") else data[:run["copy_prefix"]])
        detected = True
        if entry == "api":
            eff = dict(default_cfg(), p=sub(world, a["p"]), o=sub(world, a["o"]), lib=a.get("v", "none"))
        elif entry == "generate":
            eff = cli_effective(cwd_abs, {k: sub(world, v) for k, v in a.items()})
        elif entry == "build":
            detected, eff = build_effective(world, cwd_abs)
        else:
            eff = None
        init_info = None
        if entry == "init":
            proj = a.get("p") if a.get("p") is not None else "./src-tauri"
            gen = a.get("g") if a.get("g") is not None else "./src/generated"
            lib = a.get("v") if a.get("v") is not None else "none"
            o_s = sub(world, a.get("o") if a.get("o") is not None else "tauri.conf.json")
            if os.path.basename(o_s) == "tauri.conf.json" and os.path.dirname(o_s) == "":
                o_s = os.path.join(sub(world, proj), "tauri.conf.json")
            tgt = rs(o_s)
            if tgt is None:
                raise ValueError("init target outside the model: %r" % o_s)
            try:
                # save_to_tauri_config accepts a JSON object whose plugins member, if present, is an object
                doc = json.loads(open(os.path.join(world, *tgt), encoding="utf-8").read())
                parses = isinstance(doc, dict) and isinstance(doc.get("plugins", {}), dict)
            except (OSError, ValueError):
                parses = False
            init_info = (proj, gen, lib, tgt, parses)
        def analysis(eff):
            if eff is None:
                # explicit configuration file missing or invalid: the run fails before touching anything
                eff = default_cfg()
                eff["lib"] = "<config-error>"
            res = {"out": rs(eff["o"]), "proj": rs(eff["p"])}
            if res["out"] is None or res["proj"] is None:
                raise ValueError("path outside the model: %r" % eff)
            res["lib_ok"] = eff["lib"] in ("zod", "none")
            res["force"], res["viz"] = eff["force"], eff["viz"]
            has = bool(variant) and HAS_CMDS[variant] and os.path.isdir(os.path.join(world, *res["proj"]))
            res["has_cmds"] = has
            res["contents"] = reference(sb, world, cwd_abs, variant, sub(world, eff["p"]), eff["lib"], eff["viz"], refs) \
                if (has and res["lib_ok"]) else {}
            if has and res["lib_ok"] and not res["contents"]:
                raise ValueError("reference generation produced nothing")
            return res
        pre = analysis(eff) if entry != "init" else None
        before = snapshot_all(world, other_tmp)
        before_meta = metadata_all(world, other_tmp)
        if entry == "build":
            status, output = run_proc([vlib.harness_bin("c16"), "build1"], cwd_abs, env)
        elif entry == "api":
            status, output = run_proc([vlib.harness_bin("c16"), "api1", eff["p"], eff["o"], eff["lib"]], cwd_abs, env)
        else:
            status, output = run_proc([vlib.REPO_BIN, "tauri-typegen"] + cli_args(world, entry, a), cwd_abs, env)
        after = snapshot_all(world, other_tmp)
        after_meta = metadata_all(world, other_tmp)
        st = {"entry": entry, "before": before, "after": after, "diff": diff(before, after), "status": status,
              "output": output, "detected": detected}
        # same bytes, different lstat facts: the file was touched (re-created, rewritten, chmod-ed)
        st["diff"]["meta_changed"] = sorted(q for q in before_meta if q in after_meta and before.get(q) == after.get(q)
                                            and before_meta[q] != after_meta[q])
        if entry == "init":
            proj, gen, lib, tgt, parses = init_info
            st["tgt"] = tgt
            st["i_force"] = bool(a.get("force"))
            st["i_parses"] = parses
            st["i_new"] = after.get("/".join(tgt)) or ""
            # the follow-up generate: flags for project, output, library; the rest from the files as they are now
            eff = cli_effective(cwd_abs, {"p": sub(world, proj), "o": sub(world, gen), "v": lib, "viz": a.get("viz")})
        else:
            st["tgt"] = None
        st.update(pre if pre is not None else analysis(eff))
        # decision as far as it is observable
        if entry == "build":
            st["decision"] = "ok" if status == 0 else "failed"
        elif status != 0:
            st["decision"] = "failed"
        elif entry == "api":
            st["decision"] = "no-commands" if "FILES 0" in output else "regenerated"
        elif "No Tauri commands found" in output:
            st["decision"] = "no-commands"
        elif "bindings are up to date" in output:
            st["decision"] = "up-to-date"
        else:
            st["decision"] = "regenerated"
        outrel = "/".join(st["out"])
        st["foreign_in_out"] = sum(1 for p in before if p.startswith(outrel + "/"))
        steps.append(st)
    return {"steps": steps}


# ---------------------------------------------------------------- generators

LAYOUTS = [
    # name, cwd, proj_dir, p, o
    ("beside", "app", "app/src-tauri", "./src-tauri", "./gen"),
    ("default", "app", "app/src-tauri", "./src-tauri", "./src/generated"),
    ("nested-in-project", "app", "app/src-tauri", "./src-tauri", "./src-tauri/bindings/ts"),
    ("is-source-dir", "app", "app/src-tauri", "./src-tauri", "./src-tauri/src"),
    ("deep-missing", "app", "app/src-tauri", "./src-tauri", "./a/b/c"),
    ("dot", "app", "app/src-tauri", "./src-tauri", "."),
    ("trailing-slash", "app", "app/src-tauri", "./src-tauri", "./gen/"),
    ("no-dot-prefix", "app", "app/src-tauri", "src-tauri", "gen"),
    ("cwd-in-project", "app/src-tauri", "app/src-tauri", ".", "./gen"),
    ("absolute", "app", "app/src-tauri", WORLD + "/app/src-tauri", WORLD + "/app/gen"),
    ("absolute-outside-app", "app", "app/src-tauri", "./src-tauri", WORLD + "/shared/out"),
]


def out_rel(layout):
    _, cwd, _, _, o = layout
    return "/".join(resolve("/w", cwd, o.replace(WORLD, "/w")))


def tauri_conf(p, o, lib="none", viz=False, force=False, extra=None):
    doc = {"productName": "demo", "build": {"frontendDist": "../dist"},
           "plugins": {"shell": {"open": True}, "typegen": {"projectPath": p, "outputPath": o, "validationLibrary": lib,
                                                             "visualizeDeps": viz, "force": force}}}
    if extra:
        doc.update(extra)
    return json.dumps(doc, indent=2)


def populate(rng, files, dirs, base, names, dir_prob=0.08):
    for n in names:
        rel = (base + "/" + n) if base else n
        if rel in files or rel in dirs or any(k.startswith(rel + "/") for k in files):
            continue
        if rng.random() < dir_prob:
            dirs.append(rel)
            if rng.random() < 0.5:
                files[rel + "/inner.ts"] = "inside directory " + n
        else:
            files[rel] = "foreign " + n


def structured_scenarios(rng, count):
    scs = []
    for i in range(count):
        layout = rng.choice(LAYOUTS)
        lname, cwd, proj_dir, p, o = layout
        out = out_rel(layout)
        files, dirs = {}, []
        # foreign content of the output directory
        if lname != "deep-missing" or rng.random() < 0.4:
            pool = [n for n in ALL_NAMES if n != ".write_test"]
            names = rng.sample(pool, rng.randint(0, 7)) + rng.sample(SYSTEMATIC, rng.randint(0, 6)) \
                + [random_name(rng) for _ in range(rng.randint(0, 3))]
            if rng.random() < 0.12:
                names.append(".write_test")
            populate(rng, files, dirs, out, sorted(set(names)))
            if rng.random() < 0.6:
                populate(rng, files, dirs, out + "/sub", rng.sample(ALL_NAMES, 3), 0.0)
            if rng.random() < 0.3:
                populate(rng, files, dirs, out + "/sub/deeper", rng.sample(ALL_NAMES, 2), 0.0)
            dirs.append(out)
            if is_prefix(comps(proj_dir), comps(out)) and rng.random() < 0.3:
                for n in rng.sample(RS_NAMES, rng.randint(1, 3)):
                    files.setdefault(out + "/" + n, "pub fn helper_%d() {}\n" % len(files))
        # foreign content elsewhere: beside the output directory, in the app, in the sources, outside the app
        for base in (os.path.dirname(out), cwd, proj_dir + "/src", "elsewhere", proj_dir):
            if rng.random() < 0.5:
                populate(rng, files, dirs, base, rng.sample(ALL_NAMES, rng.randint(1, 3)), 0.05)
        files.pop(proj_dir + "/src/main.rs", None)
        # configuration
        conf_kind = rng.choice(["none", "none", "tauri", "tauri", "typegen"])
        lib0 = rng.choice(["none", "none", "zod"])
        viz0 = rng.random() < 0.3
        if conf_kind == "tauri":
            files[cwd + "/tauri.conf.json"] = tauri_conf(p, o, lib0, viz0, rng.random() < 0.15)
        elif conf_kind == "typegen":
            files[cwd + "/typegen.json"] = json.dumps({"project_path": p, "output_path": o, "validation_library": lib0,
                                                       "visualize_deps": viz0}, indent=2)
        runs = []
        variant = rng.choice(["cmds", "cmds", "cmds2", "events", "nocmds"])
        for k in range(rng.randint(1, 3)):
            r = {"variant": variant if k == 0 else None}
            if k > 0 and rng.random() < 0.5:
                variant = rng.choice(["cmds", "cmds2", "events", "nocmds"])
                r["variant"] = variant
            e = rng.choices(["generate", "build", "init"], [5, 4, 1.5])[0]
            r["entry"] = e
            if e == "generate":
                a = {}
                if conf_kind != "tauri" or rng.random() < 0.7:
                    a["p"], a["o"] = p, o
                if rng.random() < 0.15:
                    a["o"] = rng.choice([x[4] for x in LAYOUTS if x[1] == cwd])     # a different output directory
                    a["p"] = p
                if rng.random() < 0.6:
                    a["v"] = rng.choice(["none", "zod", "zod", "none", "yup"])
                a["viz"] = rng.random() < 0.25
                a["force"] = rng.random() < 0.3
                r["args"] = a
            elif e == "init":
                a = {"p": p, "g": o, "v": rng.choice(["none", "zod"])}
                t = rng.choice([None, "./tauri.conf.json", "tauri.conf.json", "typegen.json", "conf/typegen.json",
                                "./cfg.json", o.rstrip("/") + "/types.ts"])
                if t is not None:
                    a["o"] = t
                a["force"] = rng.random() < 0.5
                a["viz"] = rng.random() < 0.2
                if rng.random() < 0.6:
                    files.setdefault(proj_dir + "/tauri.conf.json", json.dumps({"productName": "x", "plugins": {}}))
                r["args"] = a
            else:
                r["args"] = {}
            runs.append(r)
        scs.append({"name": "structured-%d-%s" % (i, lname), "cwd": cwd, "proj_dir": proj_dir, "dirs": sorted(set(dirs)),
                    "files": files, "runs": runs, "tmpdir": "other" if rng.random() < 0.35 else "same"})
    return scs


def sweep_scenarios():
    """Every listed name alone in the output directory (as file, as directory), and all together,
    under a generation on each entry; deterministic."""
    scs = []
    conf = tauri_conf("./src-tauri", "./gen", "none", True)
    for e in ("generate", "build"):
        args = {"p": "./src-tauri", "o": "./gen", "viz": True} if e == "generate" else {}
        for kind in ("file", "dir"):
            files = {"app/tauri.conf.json": conf}
            dirs = []
            for n in ALL_NAMES:
                if n == ".write_test":
                    continue
                # one scenario per name would cost 4 x 60 process pairs; names do not interact
                # except through the plan's abort on a blocked write, so directories are swept one by one below
                if kind == "file":
                    files["app/gen/" + n] = "foreign " + n
            if kind == "file":
                scs.append({"name": "sweep-all-files-%s" % e, "cwd": "app", "proj_dir": "app/src-tauri", "dirs": [],
                            "files": files, "runs": [{"entry": e, "variant": "cmds", "args": args},
                                                     {"entry": e, "variant": "nocmds", "args": args},
                                                     {"entry": e, "variant": "events", "args": args}]})
            else:
                for n in ALL_NAMES:
                    if n == ".write_test" and e == "build":
                        pass                                   # a directory under that name: the probe fails, nothing is lost
                    scs.append({"name": "sweep-dir-%s-%s" % (n, e), "cwd": "app", "proj_dir": "app/src-tauri",
                                "dirs": ["app/gen/" + n], "files": {"app/tauri.conf.json": conf, "app/gen/" + n + "/keep.ts": "kept",
                                                                    "app/gen/user.ts": "user"},
                                "runs": [{"entry": e, "variant": "cmds", "args": args}]})
    for e in ("generate", "build"):
        args = {"p": "./src-tauri", "o": "./gen", "viz": True} if e == "generate" else {}
        runs = [{"entry": e, "variant": "cmds", "args": args}, {"entry": e, "variant": "nocmds", "args": args},
                {"entry": e, "variant": "events", "args": dict(args, force=True) if e == "generate" else args}]
        files = {"app/tauri.conf.json": conf}
        for n in SYSTEMATIC:
            files["app/gen/" + n] = "foreign " + n
        scs.append({"name": "sweep-systematic-files-%s" % e, "cwd": "app", "proj_dir": "app/src-tauri", "dirs": [],
                    "files": files, "runs": runs})
        files = {"app/tauri.conf.json": conf, "app/gen/user.ts": "user"}
        for n in SYSTEMATIC:
            files["app/gen/" + n + "/keep.ts"] = "kept " + n
        scs.append({"name": "sweep-systematic-dirs-%s" % e, "cwd": "app", "proj_dir": "app/src-tauri", "dirs": [],
                    "files": files, "runs": runs})
        # the same names nested one level down and beside the output directory
        files = {"app/tauri.conf.json": conf}
        for n in SYSTEMATIC[::3]:
            files["app/gen/sub/" + n] = "nested " + n
            files["app/" + n] = "beside " + n
        scs.append({"name": "sweep-systematic-elsewhere-%s" % e, "cwd": "app", "proj_dir": "app/src-tauri", "dirs": [],
                    "files": files, "runs": runs})
    # effects outside the obvious places: the same generations with TMPDIR on another file system, and failing
    # runs (a foreign directory under the name of each written file) with TMPDIR on either file system
    for e in ("generate", "build"):
        args = {"p": "./src-tauri", "o": "./gen", "viz": True} if e == "generate" else {}
        for variant in ("cmds", "events"):
            for tmp in ("same", "other"):
                scs.append({"name": "sweep-tmpdir-%s-%s-%s" % (tmp, variant, e), "cwd": "app", "proj_dir": "app/src-tauri", "dirs": [],
                            "files": {"app/tauri.conf.json": conf, "app/gen/user.ts": "user"}, "tmpdir": tmp,
                            "runs": [{"entry": e, "variant": variant, "args": args},
                                     {"entry": e, "variant": None, "args": dict(args, force=True) if e == "generate" else args},
                                     {"entry": e, "variant": "cmds2", "args": args}]})
        for blocked in RESERVED_OWN:
            for tmp in ("same", "other"):
                scs.append({"name": "sweep-blocked-%s-%s-%s" % (blocked, tmp, e), "cwd": "app", "proj_dir": "app/src-tauri",
                            "dirs": ["app/gen/" + blocked], "tmpdir": tmp,
                            "files": {"app/tauri.conf.json": conf, "app/gen/" + blocked + "/keep.ts": "kept"},
                            "runs": [{"entry": e, "variant": "events", "args": args}, {"entry": e, "variant": None, "args": args}]})
    return scs


RESERVED_FOREIGN = ["models.ts", "schemas.ts", "bindings.ts", "types.d.ts", "index.d.ts", "api_generated.ts", "generated_x.ts",
                    "types.ts", "commands.ts", "index.ts", ".typecache", "events.ts", "dependency-graph.txt"]


def place_candidates(rng, files, dirs, all_of_them=False):
    """Foreign files with reserved and near-miss names in every directory of dirs."""
    for d in dirs:
        names = RESERVED_FOREIGN if all_of_them else rng.sample(RESERVED_FOREIGN, rng.randint(3, 7))
        for n in list(names) + ["notes.ts", "mytypes.ts"] + ([] if all_of_them else rng.sample(SYSTEMATIC, 2)):
            files.setdefault(d + "/" + n, "foreign %s in %s" % (n, d))


def below_root_scenarios(rng, count):
    """Build-script (and CLI) runs from working directories BELOW the detected project root: the marker
    (tauri.conf.json, or only the src-tauri directory with typegen.json beside it) sits one or two levels above the
    crate the run starts in; relative and absolute output paths; foreign reserved-named files in every directory a
    relative output path could be anchored at (<root>/<out>, <cwd>/<out>, <crate>/<out>). rng=None: the fixed sweep."""
    scs = []
    combos = [(cwd, kind, o) for cwd in ("app/src-tauri", "app/src-tauri/crates/core")
              for kind in ("tauri", "typegen") for o in ("./gen", "out/ts", WORLD + "/app/bindings")]
    for i in range(count if rng else len(combos)):
        cwd, kind, o = combos[i] if not rng else rng.choice(combos)
        r = rng or __import__("random").Random(i)
        lib, viz = r.choice(["none", "zod"]), r.random() < 0.4
        files = {}
        if kind == "tauri":
            files["app/tauri.conf.json"] = tauri_conf(".", o, lib, viz)
        else:
            files["app/typegen.json"] = json.dumps({"project_path": ".", "output_path": o, "validation_library": lib,
                                                    "visualize_deps": viz})
        rel = comps(o.replace(WORLD + "/", ""))
        cands = ["/".join(rel)] if o.startswith(WORLD) else \
            sorted({"/".join(comps(b) + rel) for b in ("app", cwd, "app/src-tauri")})
        place_candidates(r, files, cands, all_of_them=not rng)
        runs = []
        variant = r.choice(["cmds", "events", "cmds2"])
        for k in range(r.randint(1, 3) if rng else 3):
            e = "build" if (k == 0 or r.random() < 0.7) else "generate"
            runs.append({"entry": e, "variant": variant if k == 0 else r.choice([None, "nocmds", "cmds2", "events"]), "args": {}})
        scs.append({"name": "below-root-%d-%s-%s" % (i, kind, cwd.count("/")), "cwd": cwd, "proj_dir": cwd, "dirs": ["app/src-tauri"],
                    "files": files, "runs": runs, "tmpdir": r.choice(["same", "same", "other"])})
    return scs


def workspace_init_scenarios(rng, count):
    """init (and later generate / build) with crate directories of arbitrary names and several crates in one
    workspace, each with its own configuration and output directory; -g / -v / -o combinations. The run's output
    directory is the -g argument; the other crates' outputs are pre-populated and must not change. rng=None: fixed sweep."""
    scs = []
    crates = ["backend", "crates/desktop-app", "src-tauri"]
    combos = [(c, tgt, other) for c in crates for tgt in (None, "custom.json", "./tauri.conf.json", "cfg/typegen.json")
              for other in (False, True)]
    for i in range(count if rng else len(combos)):
        crate, tgt, other = combos[i] if not rng else rng.choice(combos)
        r = rng or __import__("random").Random(1000 + i)
        gen = r.choice(["./gen", "./ui/src/bindings", "./" + crate + "/bindings"])
        lib = r.choice(["zod", "none"])
        files = {"app/" + crate + "/tauri.conf.json": json.dumps({"productName": crate, "plugins": {"shell": {}}}, indent=2)}
        dirs = ["app/cfg"] if (tgt or "").startswith("cfg/") and r.random() < 0.7 else []
        if tgt == "./tauri.conf.json":
            files["app/tauri.conf.json"] = json.dumps({"productName": "root", "plugins": {}})
        cands = ["app/src/generated", "app/" + "/".join(comps(gen))]
        if other:
            # a second crate whose configuration generate would discover from the working directory
            oc = "src-tauri" if crate != "src-tauri" else "other-crate"
            files["app/" + oc + "/src/lib.rs"] = "pub fn other_crate() {}\n"
            if oc == "src-tauri":
                files["app/src-tauri/tauri.conf.json"] = tauri_conf("./src-tauri", "./other-gen", "none", False)
            else:
                files["app/tauri.conf.json"] = tauri_conf("./" + oc, "./other-gen", "none", False)
            cands.append("app/other-gen")
        place_candidates(r, files, cands, all_of_them=not rng)
        a = {"p": "./" + crate, "g": gen, "v": lib, "force": r.random() < 0.7, "viz": r.random() < 0.3}
        if tgt:
            a["o"] = tgt
        runs = [{"entry": "init", "variant": r.choice(["cmds", "events"]), "args": a}]
        if r.random() < 0.6 or not rng:
            runs.append({"entry": r.choice(["generate", "init"]), "variant": r.choice([None, "cmds2"]),
                         "args": dict(a, v="none") if r.random() < 0.5 else {"p": "./" + crate, "o": gen}})
        scs.append({"name": "workspace-init-%d-%s" % (i, crate.replace("/", "_")), "cwd": "app", "proj_dir": "app/" + crate,
                    "dirs": dirs, "files": files, "runs": runs, "tmpdir": "same"})
    return scs


# ---- the configured output directory through every configuration source x names some layer might normalise
WEIRD_OUT = [
    "gen\\out", "gen\\", "C:\\gen", "gen.", "gen ", " gen", "gen..", "./gen", ".//gen", "gen//ts", "gen/ts/", "gen/./ts", "././gen/.",
    "~", "~/gen", "gen%20out", "gen%2Fout", "gen+out", "g\u00e9n-\u00fc", "\u51fa\u529b/ts", "types.ts", "index.ts/out", ".typecache",
    "generated_", "src-tauri/../gen", "./src-tauri/../src-tauri/../gen", "Gen", "GEN/ts", "$HOME/gen", "${TMPDIR}", "%TEMP%",
    "gen*", "gen?", "[gen]", "{a,b}", "gen;ls", "gen&", "gen'q", 'gen"q', "gen#1", "gen=1", "a b/c d", "-gen".replace("-", "_-"),
    "gen.ts", "gen.d.ts", "out.tmp",
]


def normalised_variants(w):
    """Directories a normalising layer might turn the configured string into (where nothing may be written)."""
    import unicodedata
    import urllib.parse
    v = {w.replace("\\", "/"), w.rstrip(". "), w.strip(), urllib.parse.unquote(w), w.lower(), w.upper(),
         unicodedata.normalize("NFD", w), w.replace("~", "_env/home"), w.replace("$HOME", "_env/home"),
         w.replace("C:\\", ""), w.split("/")[0]}
    return sorted(x for x in v if x and x != w and ".." not in x)


def outdir_scenarios(rng=None, count=0):
    """Every configuration source (-o flag, -c file, tauri.conf.json read by the CLI, tauri.conf.json and typegen.json
    read by the build script, the library entry generate_from_config) x WEIRD_OUT. Everything written must lie in
    exactly the directory the OS resolves the configured string to; foreign reserved-named files wait in the
    directories a normaliser would pick instead. rng=None: the full cross product, deterministic."""
    sources = ["flag", "cfile", "tauri-cli", "tauri-build", "typegen-build", "api"]
    combos = [(w, src) for w in WEIRD_OUT for src in sources]
    if rng:
        combos = [(rng.choice(WEIRD_OUT) + rng.choice(["", "/ts", "/", "\\x"]), rng.choice(sources)) for _ in range(count)]
    scs = []
    for i, (w, src) in enumerate(combos):
        p = "./src-tauri"
        files = {"app/keep.ts": "user"}
        for d in normalised_variants(w)[:4]:
            rel = resolve("/w", "app", d)
            if rel and rel != resolve("/w", "app", w) and rel[:2] != ["app", "src-tauri"]:
                for n in ("types.ts", "models.ts", "notes.ts", ".typecache"):
                    files.setdefault("/".join(rel) + "/" + n, "foreign %s" % n)
        lib = "zod" if i % 3 == 0 else "none"
        if src == "flag":
            runs = [{"entry": "generate", "args": {"p": p, "o": w, "v": lib}}]
        elif src == "cfile":
            files["app/my.json"] = json.dumps({"project_path": p, "output_path": w, "validation_library": lib, "visualize_deps": True})
            runs = [{"entry": "generate", "args": {"c": "./my.json"}}]
        elif src in ("tauri-cli", "tauri-build"):
            files["app/tauri.conf.json"] = tauri_conf(p, w, lib, i % 2 == 0)
            runs = [{"entry": "generate" if src == "tauri-cli" else "build", "args": {}}]
        elif src == "typegen-build":
            files["app/typegen.json"] = json.dumps({"project_path": p, "output_path": w, "validation_library": lib})
            runs = [{"entry": "build", "args": {}}]
        else:
            runs = [{"entry": "api", "args": {"p": p, "o": w, "v": lib}}]
        runs[0]["variant"] = "events" if i % 4 == 0 else "cmds"
        runs.append(dict(runs[0], variant="cmds2"))
        # files whose paths collide (a file where a directory is needed) are dropped in favour of the directory
        keys = sorted(files)
        for k in keys:
            if any(o != k and o.startswith(k + "/") for o in keys):
                files.pop(k)
        # std::fs::create_dir_all fails with ENOENT on a not yet existing path that ends in "/." (mkdir "gen/." cannot
        # create gen, and Path::parent skips the dot); that is the OS's, so such a directory is made to exist beforehand
        dirs = ["/".join(resolve("/w", "app", w))] if w.rstrip("/").endswith("/.") else []
        scs.append({"name": "outdir-%d-%s" % (i, src), "out_string": w, "cwd": "app", "proj_dir": "app/src-tauri", "dirs": dirs,
                    "files": files, "runs": runs, "tmpdir": "same"})
    return scs


# ---- foreign files whose CONTENT resembles generated output
HEADER = ("/**\n * Auto-generated TypeScript bindings for Tauri commands\n * Generated by tauri-typegen v0.4.0\n"
          " * Generated at: 2025-01-01T00:00:00+00:00\n * Generator: none\n *\n"
          " * Do not edit manually - regenerate using: cargo tauri-typegen generate\n */\n")


def content_scenarios(rng=None, count=0):
    """Foreign files with non-reserved names carrying the generator's header (at the start, after a few bytes, in the
    middle, truncated), whole and partial copies of files the tool generated in an earlier run, in the output directory,
    below it and beside it; histories on both entries that contain a regenerating run after an edit of a command."""
    scs = []
    body = "export interface Mine { id: number }\n" * 9
    conf = tauri_conf("./src-tauri", "./gen", "none", True)
    shapes = {"head": HEADER + body, "bom": "\ufeff" + HEADER + body, "offset": "// mine\n" + HEADER + body,
              "middle": body + HEADER + body, "tail": body + body + HEADER, "only": HEADER, "cut": HEADER[:120],
              "line": "// Generated by tauri-typegen\n" + body, "crlf": HEADER.replace("\n", "\r\n") + body}
    names = ["user-types.ts", "notes.ts", "my.d.ts", "hand.tsx", "copy.txt", "README.md", "old.types.ts", "api.mts"]
    for e in ("build", "generate", "api"):
        for k in range(3 if not rng else count):
            r = rng or __import__("random").Random(77 + k)
            files = {"app/tauri.conf.json": conf}
            for j, (sh, text) in enumerate(sorted(shapes.items())):
                n = names[(j + k) % len(names)]
                files["app/gen/%s-%s" % (sh, n)] = text
                if r.random() < 0.4:
                    files["app/gen/sub/%s-%s" % (sh, n)] = text
                if r.random() < 0.3:
                    files["app/%s-%s" % (sh, n)] = text
            args = {} if e == "build" else ({"p": "./src-tauri", "o": "./gen", "viz": True} if e == "generate"
                                            else {"p": "./src-tauri", "o": "./gen", "v": "none"})
            copies = [["app/gen/types.ts", "app/gen/user-types.ts"], ["app/gen/commands.ts", "app/gen/commands-backup.ts"],
                      ["app/gen/index.ts", "app/gen/sub/index-copy.ts"], ["app/gen/types.ts", "app/types-copy.ts"],
                      ["app/gen/events.ts", "app/gen/my-events.ts"]]
            runs = [{"entry": e, "variant": r.choice(["cmds", "events"]), "args": args},
                    {"entry": e, "variant": "cmds2", "args": args, "copy": copies},                      # edit -> regenerates
                    {"entry": e, "variant": None, "args": args, "copy": [["app/gen/types.ts", "app/gen/half-types.ts"]],
                     "copy_prefix": 200},                                                                 # cache hit
                    {"entry": e, "variant": r.choice(["cmds", "events", "nocmds"]), "args": args}]        # edit again
            scs.append({"name": "content-%s-%d" % (e, k), "cwd": "app", "proj_dir": "app/src-tauri", "dirs": [], "files": files,
                        "runs": runs, "tmpdir": "same"})
    return scs


# ---- foreign files carrying the names of the tool's transient / probe / auxiliary artefacts, in every shape
# every name the code creates transiently or beside its outputs: the write probe (output_manager.rs:52), the
# <name>.tmp of OutputManager::write_file (with_extension), <name>.backup.<ts> of with_backup; plus the usual
# neighbours a later change might introduce (append-style .tmp, lock files, editor leftovers)
ARTEFACT_NAMES = [".write_test", ".write_test.tmp", ".write_test~", "write_test", "types.tmp", "types.ts.tmp", "commands.tmp",
                  "commands.ts.tmp", "index.tmp", "events.tmp", ".typecache.tmp", ".tmp", "dependency-graph.tmp",
                  "dependency-graph.txt.tmp", ".typecache.lock", ".lock", "types.ts.lock", "index.ts.swp", ".types.ts.swp",
                  "types.ts.backup.1700000000", ".typecache.backup.1", "types.ts.part", ".#types.ts"]
SHAPES = ["empty", "nonempty", "dir", "link-file", "link-dir", "dangling", "readonly-empty", "readonly-nonempty"]


def put_artefact(sc, rel, shape, i):
    if shape in ("empty", "readonly-empty"):
        sc["files"][rel] = ""
    elif shape in ("nonempty", "readonly-nonempty"):
        sc["files"][rel] = "user marker %d" % i
    elif shape == "dir":
        sc["files"][rel + "/keep.txt"] = "kept"
    elif shape == "link-file":
        sc["links"][rel] = os.path.relpath("app/keep.ts", os.path.dirname(rel))
    elif shape == "link-dir":
        sc["links"][rel] = os.path.relpath("app/keepdir", os.path.dirname(rel))
    else:
        sc["links"][rel] = "nowhere/at-all"
    if shape.startswith("readonly"):
        sc["modes"][rel] = "444"


def artefact_scenarios(rng=None, count=0):
    """rng=None: one scenario per shape x entry with every artefact name in that shape, in the output directory, below
    it and beside it; histories generate / edit+regenerate / cache hit / no commands. With rng: shapes mixed per name."""
    scs = []
    conf = tauri_conf("./src-tauri", "./gen", "none", True)
    combos = [(sh, e) for sh in SHAPES for e in ("build", "generate", "api", "init")]
    for k in range(len(combos) if not rng else count):
        r = rng or __import__("random").Random(500 + k)
        shape0, e = combos[k] if not rng else (None, r.choice(["build", "build", "generate", "api", "init"]))
        sc = {"name": "artefacts-%s-%s" % (shape0 or ("mixed%d" % k), e), "cwd": "app", "proj_dir": "app/src-tauri", "dirs": [],
              "files": {"app/tauri.conf.json": conf, "app/keep.ts": "user", "app/keepdir/x.ts": "user", "app/gen/notes.ts": "user"},
              "links": {}, "modes": {}, "tmpdir": r.choice(["same", "same", "other"])}
        for i, n in enumerate(ARTEFACT_NAMES):
            put_artefact(sc, "app/gen/" + n, shape0 or r.choice(SHAPES), i)
            if i % 3 == 0:
                put_artefact(sc, "app/gen/sub/" + n, shape0 or r.choice(SHAPES), i)
            if i % 4 == 0:
                put_artefact(sc, "app/" + n, shape0 or r.choice(SHAPES), i)
        args = {"build": {}, "generate": {"p": "./src-tauri", "o": "./gen", "viz": True},
                "api": {"p": "./src-tauri", "o": "./gen", "v": "none"},
                "init": {"p": "./src-tauri", "g": "./gen", "v": "none", "o": "./tauri.conf.json", "viz": True}}[e]
        sc["runs"] = [{"entry": e, "variant": "cmds", "args": args}, {"entry": e, "variant": "cmds2", "args": args},
                      {"entry": e, "variant": None, "args": args}, {"entry": e, "variant": "nocmds", "args": args},
                      {"entry": "build", "variant": "events", "args": {}}]
        scs.append(sc)
    return scs


# ---- output / project paths spelled with dot-dot components behind a symbolic link to a directory
# The OS resolves link/.. to the parent of the link's TARGET; a layer that folds `dir/..` pairs lexically (path
# "tidying", normalisation for display, a hand-made canonicaliser) names the directory HOLDING the link instead.
# kind -> (links {world-relative path: target}, physical directory the link L reaches, spelling of L seen from app)
LINK_KINDS = {
    "rel": ({"app/link": "../elsewhere/deep"}, "elsewhere/deep", "link"),
    "abs": ({"app/link": WORLD + "/elsewhere/deep"}, "elsewhere/deep", "link"),
    "chain": ({"app/link": "hop", "app/hop": "../elsewhere/deep"}, "elsewhere/deep", "link"),
    "far": ({"app/link": "../elsewhere/a/b/c"}, "elsewhere/a/b/c", "link"),
    "nested": ({"app/d/link": "../../elsewhere/deep"}, "elsewhere/deep", "d/link"),
    "intoproj": ({"app/link": "src-tauri/src"}, "app/src-tauri/src", "link"),   # link/.. = the project directory
    "sibling": ({"app/link": "real"}, "app/real", "link"),            # control: same parent, folding is harmless
}
# spellings of the configured directory; L = the link as spelled from the working directory
LINK_SPELLINGS = ["{L}/../gen", "./{L}/../gen", "{L}/../gen/", "{L}/./../gen", "{L}/sub/../../gen", "{L}/../gen/ts", "{L}/..",
                  "{L}/../.", "gen/../{L}/../out", WORLD + "/app/{L}/../gen", "{L}/..//gen",
                  "{L}/gen", "{L}", "{L}/sub/..", "real/../gen"]        # the last four: controls (no link before a dot-dot
                                                                       # / the link itself / dot-dot inside the target)
LINK_SOURCES = ["flag", "cfile", "tauri-cli", "init-g", "tauri-build", "typegen-build", "api"]


def symlink_dotdot_scenarios(full=False):
    """Every link kind x spelling, the configuration source rotating through -o flag, -c file, tauri.conf.json read by
    the CLI, init -g, tauri.conf.json / typegen.json read by the build script and the library entry (full=True: the
    whole cross product); the canonical spelling L/../gen on every kind x every source; the project path spelled the
    same way (the real crate beside the link's target, a command-free decoy crate where folding would look); init
    pointed at a configuration file spelled that way. Foreign reserved-named and ordinary files wait in the directory
    the lexical folding names AND in the directory the OS reaches; histories generate / edit + regenerate / cache hit.
    The run's output directory is resolve_os() of the configured string on the constructed world."""
    import random as _random
    scs = []
    combos = []
    i = 0
    for kind in LINK_KINDS:
        for sp in LINK_SPELLINGS:
            srcs = LINK_SOURCES if (full or sp == "{L}/../gen") else [LINK_SOURCES[i % len(LINK_SOURCES)]]
            i += 1
            combos += [(kind, sp, src, False) for src in srcs]
    # the project path (and both paths) behind a link
    combos += [(kind, sp, src, True) for kind in ("rel", "abs", "nested") for sp in ("{L}/../gen", "./gen")
               for src in (LINK_SOURCES if full else ["flag", "cfile", "tauri-cli", "init-g", "tauri-build", "api"])]
    for n, (kind, sp, src, proj_behind) in enumerate(combos):
        r = _random.Random(1600 + n)
        links, target, lname = LINK_KINDS[kind]
        links = dict(links)
        w = sp.replace("{L}", lname)
        cwd = "app"
        dirs = [target + "/sub", "app/real/sub", "elsewhere"]
        if proj_behind:
            proj_dir, p = "elsewhere/src-tauri", lname + "/../src-tauri"
            if kind == "nested":
                p = "./" + p
        else:
            proj_dir, p = "app/src-tauri", "./src-tauri"
        files = {"app/keep.ts": "user", "elsewhere/keep.ts": "user"}
        if proj_behind:
            # where a lexical folding of the project path would look: a crate without commands
            files["app/src-tauri/src/lib.rs"] = "pub fn decoy() {}\n"
            files["app/d/src-tauri/src/lib.rs"] = "pub fn decoy() {}\n"
        lexical = resolve("/w", cwd, w.replace(WORLD, "/w"))
        physical = resolve_links(links, cwd, w)
        if physical is None or lexical is None:
            raise ValueError("symlink scenario outside the world: %s %s" % (kind, sp))
        if "gen/../" in w:
            dirs.append("app/gen")
        lex_dir, phys_dir = "/".join(lexical), "/".join(physical)
        # foreign files: in the directory a folding layer would pick (sometimes absent, so that its creation shows)
        # and in the directory the OS reaches (reserved names there may be overwritten, ordinary ones never)
        if lex_dir != phys_dir and n % 4 != 3:
            place_candidates(r, files, [lex_dir], all_of_them=(n % 2 == 0))
        if n % 3 != 2:
            place_candidates(r, files, [phys_dir], all_of_them=False)
        lib = "zod" if n % 3 == 0 else "none"
        viz = n % 2 == 0
        if src == "flag":
            runs = [{"entry": "generate", "args": {"p": p, "o": w, "v": lib, "viz": viz}}]
        elif src == "cfile":
            files["app/my.json"] = json.dumps({"project_path": p, "output_path": w, "validation_library": lib, "visualize_deps": viz})
            runs = [{"entry": "generate", "args": {"c": "./my.json"}}]
        elif src in ("tauri-cli", "tauri-build"):
            files["app/tauri.conf.json"] = tauri_conf(p, w, lib, viz)
            runs = [{"entry": "generate" if src == "tauri-cli" else "build", "args": {}}]
        elif src == "typegen-build":
            files["app/typegen.json"] = json.dumps({"project_path": p, "output_path": w, "validation_library": lib})
            runs = [{"entry": "build", "args": {}}]
        elif src == "init-g":
            # init pointed at a configuration file spelled behind the link as well (every other case)
            tgt = (lname + "/../typegen.json") if n % 2 == 0 else "custom.json"
            if tgt != "custom.json":
                t_lex = "/".join(resolve("/w", cwd, tgt))
                if t_lex != "/".join(resolve_links(links, cwd, tgt)):
                    files.setdefault(t_lex, '{"output_path": "./user-made"}')
            runs = [{"entry": "init", "args": {"p": p, "g": w, "v": lib, "o": tgt, "force": True, "viz": viz}}]
        else:
            runs = [{"entry": "api", "args": {"p": p, "o": w, "v": lib}}]
        runs[0]["variant"] = "events" if n % 4 == 0 else "cmds"
        runs.append(dict(runs[0], variant="cmds2"))                       # edit -> regenerates
        if n % 5 == 0:
            runs.append(dict(runs[0], variant=None))                      # cache hit
        keys = sorted(files)
        for k in keys:
            if any(o != k and o.startswith(k + "/") for o in keys) or k in links or any(k.startswith(l + "/") for l in links):
                files.pop(k)
        dirs = [d for d in dirs if not any(d == l or d.startswith(l + "/") for l in links)]
        scs.append({"name": "symlink-%d-%s-%s%s" % (n, kind, src, "-proj" if proj_behind else ""), "out_string": w,
                    "lexical_dir": lex_dir, "os_dir": phys_dir, "cwd": cwd, "proj_dir": proj_dir, "dirs": sorted(set(dirs)),
                    "files": files, "links": links, "runs": runs, "tmpdir": "same"})
    return scs


# ---- several candidate configuration files present at once
def candidate_scenarios(rng=None, count=0):
    """run_generate looks at ./tauri.conf.json, src-tauri/tauri.conf.json, ../tauri.conf.json in this order; the first
    EXISTING file decides: its plugins.typegen section if it has one, the defaults if it has none (search stops), and
    only a file that cannot be parsed is skipped. Every candidate independently absent / without section / with a
    section naming its own output directory / malformed (4^3 = 64 layouts), working directory app/pkg so that the
    parent's file exists too; foreign reserved-named files wait in every directory any candidate names and in the
    default one. Runs: CLI generate without flags, with -p only, the build script, generate again."""
    kinds = ["absent", "nosection", "section", "malformed"]
    combos = [(a, b, c) for a in kinds for b in kinds for c in kinds]
    scs = []
    for i in range(len(combos) if not rng else count):
        r = rng or __import__("random").Random(900 + i)
        ks = combos[i] if not rng else tuple(r.choice(kinds + ["section", "badlib"]) for _ in range(3))
        files = {}
        places = [("app/pkg/tauri.conf.json", "./out-cwd"), ("app/pkg/src-tauri/tauri.conf.json", "./out-crate"),
                  ("app/tauri.conf.json", "./out-parent")]
        for (path, out), k in zip(places, ks):
            if k == "nosection":
                files[path] = json.dumps({"productName": "x", "plugins": {"shell": {"open": True}}}, indent=1)
            elif k == "section":
                files[path] = tauri_conf("./src-tauri", out, r.choice(["none", "zod"]), r.random() < 0.3)
            elif k == "badlib":
                files[path] = tauri_conf("./src-tauri", out, "yup")
            elif k == "malformed":
                files[path] = '{"plugins": {"typegen": {"outputPath": "%s", ' % out
        place_candidates(r, files, ["app/pkg/out-cwd", "app/pkg/out-crate", "app/pkg/out-parent", "app/pkg/src/generated",
                                    "app/out-parent", "app/src/generated"], all_of_them=False)
        runs = [{"entry": "generate", "variant": r.choice(["cmds", "events"]), "args": {}},
                {"entry": "generate", "variant": "cmds2", "args": {"p": "./src-tauri"}},
                {"entry": "build", "variant": None, "args": {}},
                {"entry": "generate", "variant": None, "args": {"force": True}}]
        scs.append({"name": "candidates-%d-%s" % (i, "-".join(ks)), "cwd": "app/pkg", "proj_dir": "app/pkg/src-tauri", "dirs": [],
                    "files": files, "runs": runs, "tmpdir": "same"})
    return scs


def malformed_scenarios(rng, count):
    scs = []
    kinds = ["out-is-file", "out-blocked", "no-project", "bad-json", "bad-lib-in-conf", "missing-project-path",
             "plugins-array", "config-flag-missing", "config-flag-file", "init-no-conf", "init-existing-custom",
             "typecache-dir", "probe-dir", "garbage-typecache", "stale-typecache"]
    for i in range(count):
        kind = kinds[i % len(kinds)]
        cwd, proj_dir, p, o = "app", "app/src-tauri", "./src-tauri", "./gen"
        files, dirs = {}, ["app/gen"]
        populate(rng, files, dirs, "app/gen", rng.sample([n for n in ALL_NAMES if n != ".write_test"], 4), 0.0)
        populate(rng, files, dirs, "app", rng.sample(ALL_NAMES, 2), 0.0)
        e = rng.choice(["generate", "build"])
        args = {"p": p, "o": o} if e == "generate" else {}
        sc = {"name": "malformed-%d-%s" % (i, kind), "cwd": cwd, "proj_dir": proj_dir}
        runs = None
        if kind == "out-is-file":
            files = {k: v for k, v in files.items() if not k.startswith("app/gen/")}
            dirs = []
            files["app/gen"] = "I am a regular file"
            files["app/tauri.conf.json"] = tauri_conf(p, o)
        elif kind == "out-blocked":
            files["app/blocker"] = "regular file in the way"
            files["app/tauri.conf.json"] = tauri_conf(p, "./blocker/gen")
            if e == "generate":
                args["o"] = "./blocker/gen"
        elif kind == "no-project":
            sc["cwd"], sc["proj_dir"], sc["no_project_dir"] = "lonely", "lonely/none", True
            files, dirs = {"lonely/gen/types.ts": "foreign types.ts", "lonely/gen/.write_test": "foreign probe"}, []
            e, args = "build", {}
        elif kind == "bad-json":
            files["app/tauri.conf.json"] = '{"plugins": {"typegen": {"outputPath": "./gen", '
        elif kind == "bad-lib-in-conf":
            files["app/tauri.conf.json"] = tauri_conf(p, "./custom-out", "yup")
            args = {} if e == "generate" else args
        elif kind == "missing-project-path":
            files["app/tauri.conf.json"] = tauri_conf("./nowhere", o)
            args = {"p": "./nowhere", "o": o} if e == "generate" else {}
        elif kind == "plugins-array":
            files["app/tauri.conf.json"] = json.dumps({"plugins": ["typegen"]})
            files["app/src-tauri/tauri.conf.json"] = json.dumps({"plugins": ["a", "b"]})
            runs = [{"entry": "init", "variant": "cmds", "args": {"p": p, "g": o, "o": "./tauri.conf.json"}},
                    {"entry": "init", "variant": None, "args": {"p": p, "g": o}}]
        elif kind == "config-flag-missing":
            e, args = "generate", {"c": "./nope.json", "o": o}
        elif kind == "config-flag-file":
            files["app/my.json"] = json.dumps({"project_path": p, "output_path": "./from-file", "validation_library": "zod",
                                               "visualize_deps": True})
            files["app/from-file/notes.ts"] = "user notes"
            e, args = "generate", {"c": "./my.json"}
        elif kind == "init-no-conf":
            runs = [{"entry": "init", "variant": "cmds", "args": {"p": p, "g": o}}]
        elif kind == "init-existing-custom":
            files["app/typegen.json"] = '{"output_path": "./old"}'
            runs = [{"entry": "init", "variant": "cmds", "args": {"p": p, "g": o, "o": "typegen.json"}},
                    {"entry": "init", "variant": None, "args": {"p": p, "g": o, "o": "typegen.json", "force": True, "v": "zod"}},
                    {"entry": "build", "variant": None, "args": {}}]
        elif kind == "typecache-dir":
            files.pop("app/gen/.typecache", None)
            dirs.append("app/gen/.typecache")
            files["app/gen/.typecache/x"] = "inside"
            files["app/tauri.conf.json"] = tauri_conf(p, o)
        elif kind == "probe-dir":
            files.pop("app/gen/.write_test", None)
            dirs.append("app/gen/.write_test")
            files["app/gen/.write_test/x"] = "inside"
            files["app/tauri.conf.json"] = tauri_conf(p, o)
        elif kind == "garbage-typecache":
            files["app/gen/.typecache"] = "not json at all"
            files["app/tauri.conf.json"] = tauri_conf(p, o)
        elif kind == "stale-typecache":
            files["app/gen/.typecache"] = json.dumps({"version": 1, "commands_hash": "0", "structs_hash": "0",
                                                      "config_hash": "0", "combined_hash": "0"})
            files["app/tauri.conf.json"] = tauri_conf(p, o)
        if runs is None:
            runs = [{"entry": e, "variant": rng.choice(["cmds", "events", "nocmds"]), "args": args},
                    {"entry": e, "variant": None, "args": args}]
        sc.update({"dirs": sorted(set(dirs)), "files": files, "runs": runs})
        scs.append(sc)
    return scs
