"""C13 - output is a deterministic function of sources and configuration.

Decided at the level of the real binary: every project is generated in several fresh processes
(fresh hash seeds), with and without --verbose / --visualize-deps, and under semantics-preserving
source transformations. Oracle (Gallina, extracted: Spec/C13Spec.v `rel`): two versions of a generated
file are token-identical / the same multiset of module items / different. Model (Model/C13Order.v):
`gen zod omega p` = the declarations of every generated file in order, as a function of the hash orders
omega; the correspondence reconstructs omega from what is observable in a run's files and requires the
model to reproduce the observed declaration order of every file of every run."""
import json
import os
import random
import re

from tools import vlib, projgen
from tools.vlib import Outcome, sx
from tools.props import c13_gen as G

MANIFEST = {
    "level_text": "Coq theorems (Properties/C13.v, no axioms) about an executable skeleton of the pipeline in which every hash-based collection (AstCache, used_structs, the requested type set, every dependency set, resolved_types, dependencies) is a list in an explicit, universally quantified order omega: for all omega the multiset of declarations of every generated file is the same when no type name is defined twice (C13_set_independent), added noise items and noise-only files change nothing (C13_noise, C13_noise_file), redistributing items over files changes at most the order (C13_move), each file is fully order independent outside a boolean class (C13_deterministic_*), the order dependence inside the class and the content dependence under duplicate type names are refuted with computed witnesses, and sorting the discovered collections removes the order dependence (C13_sorted_fix). Tied to /repo on every run: each generated project is run through the real binary in 8 (quick) / 32 (thorough) fresh processes with and without --verbose / --visualize-deps and under noise / reorder / move / split / merge transformations; files are compared byte for byte and through the extracted module parser; the model, fed the orders observable in each run, must reproduce the declaration order of every file.",
    "design_ref": "DESIGN.md section 5 C13",
    "level_note": "Partial where stated: for Zod-mode types.ts the run-time class is kf_zod_unordered (two used types not strictly ordered by reachability) while the proved determinism theorem C13_deterministic_types uses the wider premise kf_used2 (fewer than two used types); the statement under the narrow class is kept as C13_zod_types_full_statement (not asserted). The skeleton abstracts declaration content to (name, body id): byte-level content determinism is established by the differential run only. Comments and whitespace are below the model's input (covered by the run). Hash orders inside the binary are not observable without --visualize-deps; the correspondence searches for orders that explain a run (python, untrusted) and the extracted model verifies them.",
    "technique": "Rocq/Coq proof over hand-written model + correspondence check (extracted OCaml vs the real CLI binary in fresh processes)"
}

RULE = ("multi-file projects (1..6 files; shapes multi / cmd1 / onefile / dup) x modes none, zod x fresh processes "
        "(quick 8, thorough 32 per project and mode, flags cycling through none / --verbose / --visualize-deps / both) "
        "plus noise variants and reorder / move / split / merge variants. One evaluation = one (project, mode, aspect) "
        "group of runs; non-trivial = the project has at least two files or at least two commands; distinct = distinct "
        "(project, mode, aspect, variant)")
TRUSTED = ["Spec/TsModule.v parser and Spec/C13Spec.v rel/labels (extracted) are the run-time oracle on generated files",
           "python: reconstruction of omega from a run's files and the search for set orders that explain a Zod-mode types.ts (the extracted model re-checks every proposed omega)",
           "python: canonicalisation of dependency-graph.txt/.dot (line multiset with sorted depends-on lists)",
           "tools/props/c13_gen.py Skeleton: the map from a project case to the model's input (custom type names per signature / field)"]
ASSUMPTIONS = ["fresh processes sample the hash orders (std RandomState is seeded per process)",
               "on the generator's type contexts the name harvest and the parsed type structure mention the same custom names (other contexts belong to C07)"]

TS = ("types.ts", "commands.ts", "events.ts", "index.ts")
VIZ = ("dependency-graph.txt", "dependency-graph.dot")
FLAGSETS = [(), ("--verbose",), ("--visualize-deps",), (), ("--verbose", "--visualize-deps"), (), ("--visualize-deps",), ()]


# ----------------------------------------------------------------------------- running the binary

def run_cli(job):
    case, mode, flags = job
    with vlib.Sandbox("c13") as sb:
        r = projgen.generate(sb, case, mode, extra=list(flags))
    return r


def pascal(s):
    return "".join(w[:1].upper() + w[1:] for w in s.split("_") if w)


# ----------------------------------------------------------------------------- observation of one run

def norm_labels(parsed, sk):
    """labels s-expression (from c13-labels) -> list of tuples, imports dropped; None if unparsed"""
    if not parsed:
        return None
    out = []
    for l in parsed[0]:
        k = l[0]
        if k == "import":
            continue
        if k in ("interface", "const"):
            marker = None
            for key in l[2]:
                if key.replace("_", "").lower().startswith("from") and key.replace("_", "").lower()[4:].isdigit():
                    marker = int(key.replace("_", "").lower()[4:])
                    break
            out.append((k, l[1], marker))
        elif k == "type":
            out.append(("type", l[1], None))
        elif k in ("wrapper", "listener"):
            out.append((k, l[2]))
        elif k == "reexport":
            out.append(("reexport", l[1]))
        else:
            out.append((k, l[1]))
    return out


def marker_of(item):
    f = item.get("fields") or []
    if f and f[0]["name"].startswith("from_"):
        return int(f[0]["name"][5:])
    return None


def expected_labels(out, sk, zod):
    """model output (parsed s-expression of c13-gen, one output) -> {file: [label tuples]}"""
    if not out:
        return None
    ty, cm, ev, ix = out[0]
    flags = {}
    for _, items in sk.project:
        for it in items:
            if it[0] == "cmd":
                flags[it[1]] = (it[3], it[4])
    dupn = set(sk.dup_names())

    def tname(n):
        return sk.tys[int(n) - 1]

    def cname(c):
        return sk.cmds[int(c) - 1]

    res = {"types.ts": [], "commands.ts": [], "index.ts": []}
    for d in ty:
        k = d[0]
        if k in ("type", "schema"):
            item = sk.bodies[int(d[2])][1]
            mk = marker_of(item) if tname(d[1]) in dupn else None
            if k == "type":
                res["types.ts"].append(("type" if item["kind"] == "enum" else "interface", tname(d[1]), None if item["kind"] == "enum" else mk))
            else:
                res["types.ts"].append(("const", tname(d[1]) + "Schema", None if item["kind"] == "enum" else mk))
        elif k == "infer":
            res["types.ts"].append(("type", tname(d[1]), None))
        elif k == "params":
            hp, hc = flags[int(d[1])]
            if zod and hp and not hc:
                res["types.ts"].append(("type", pascal(cname(d[1])) + "Params", None))
            else:
                res["types.ts"].append(("interface", pascal(cname(d[1])) + "Params", None))
        elif k == "pschema":
            res["types.ts"].append(("const", pascal(cname(d[1])) + "ParamsSchema", None))
    for d in cm:
        if d[0] == "hooks":
            res["commands.ts"].append(("interface", "CommandHooks", None))
        else:
            res["commands.ts"].append(("wrapper", cname(d[1])))
    if ev:
        res["events.ts"] = [("listener", sk.evs[int(d[1]) - 1]) for d in ev[0]]
    for d in ix:
        res["index.ts"].append(("reexport", ["./types", "./commands", "./events"][int(d[1])]))
    return res


def strip_markers(labels, sk):
    """observed labels: keep the from_k marker only on types defined more than once"""
    dupn = set(sk.dup_names())
    out = []
    for l in labels:
        if l[0] in ("interface", "const") and l[2] is not None:
            base = l[1][:-6] if l[0] == "const" and l[1].endswith("Schema") else l[1]
            if base not in dupn:
                l = (l[0], l[1], None)
        out.append(l)
    return out


def parse_viz(txt, dot):
    """order-relevant content of the two visualisation files"""
    cmds, types, sect = [], [], None
    for line in txt.split("\n"):
        if "Command Entry Points" in line:
            sect = "cmd"
        elif "Discovered Types" in line:
            sect = "types"
        elif "Dependency Chains" in line:
            sect = "chains"
        elif sect == "cmd" and line.startswith("• "):
            cmds.append(line[2:].split(" (")[0])
        elif sect == "types" and line.startswith("• "):
            types.append([line[2:].split(" (")[0], []])
        elif sect == "types" and "depends on: " in line and types:
            types[-1][1] = [x.strip() for x in line.split("depends on: ", 1)[1].split(",")]
    nodes, edges, dcmds = [], [], []
    for line in dot.split("\n"):
        m = re.match(r'\s*"([^"]*)" \[color=green\];', line)
        if m:
            nodes.append(m.group(1))
        m = re.match(r'\s*"([^"]*)" \[color=blue', line)
        if m:
            dcmds.append(m.group(1))
        m = re.match(r'\s*"([^"]*)" -> "([^"]*)";', line)
        if m:
            edges.append((m.group(1), m.group(2)))
    return {"cmds": cmds, "types": types, "nodes": nodes, "edges": edges, "dot_cmds": dcmds}


def canon_viz(name, text):
    lines = []
    for line in text.split("\n"):
        if "depends on: " in line:
            a, b = line.split("depends on: ", 1)
            line = a + "depends on: " + ", ".join(sorted(x.strip() for x in b.split(",")))
        lines.append(line)
    return sorted(lines)


def topo_merge(paths, chains, extra_edges):
    """a linear order of paths compatible with the given chains and edges (None if contradictory)"""
    succ = {p: set() for p in paths}
    indeg = {p: 0 for p in paths}
    es = set(extra_edges)
    for ch in chains:
        for a, b in zip(ch, ch[1:]):
            es.add((a, b))
    for a, b in es:
        if a == b:
            return None
        if b not in succ[a]:
            succ[a].add(b)
            indeg[b] += 1
    out = []
    ready = sorted(p for p in paths if indeg[p] == 0)
    while ready:
        p = ready.pop(0)
        out.append(p)
        for q in sorted(succ[p]):
            indeg[q] -= 1
            if indeg[q] == 0:
                ready.append(q)
        ready.sort()
    return out if len(out) == len(paths) else None


def explain_topo(graph, observed, fixed):
    """Find (request order, dependency-set orders) under which the DFS of topological_sort_types,
    started from the observed names, emits `observed` (restricted to observed names). graph: name ->
    list of names (a set); fixed: name -> order that must be used (seen in dependency-graph.txt).
    Backtracking; the extracted model verifies the answer."""
    vis = set(observed)
    budget = [200000]

    def visit(n, visited, visiting, i):
        budget[0] -= 1
        if budget[0] < 0:
            return
        if n in visiting or n in visited:
            yield visited, i, {}
            return
        deps = list(dict.fromkeys(graph.get(n, [])))
        visiting2 = visiting | {n}

        def finish(visited, i, chosen, ords):
            ords = dict(ords)
            ords[n] = chosen
            if n in vis:
                if i < len(observed) and observed[i] == n:
                    yield visited | {n}, i + 1, ords
            else:
                yield visited | {n}, i, ords

        def go(rem, visited, i, chosen, ords):
            if not rem:
                yield from finish(visited, i, chosen, ords)
                return
            if n in fixed:
                order = [d for d in fixed[n] if d in rem] + [d for d in rem if d not in fixed[n]]
                cands = [order[0]]
            else:
                noop = [d for d in rem if d in visited or d in visiting2]
                cands = [noop[0]] if noop else list(rem)
            for d in cands:
                rest = [x for x in rem if x != d]
                for v2, i2, o2 in visit(d, visited, visiting2, i):
                    o = dict(ords)
                    o.update(o2)
                    yield from go(rest, v2, i2, chosen + [d], o)

        yield from go(deps, visited, i, [], {})

    def top(remaining, visited, i, req, ords):
        if i == len(observed) and all(r in visited for r in remaining):
            yield req + [r for r in remaining], ords
            return
        for r in remaining:
            if r in visited:
                continue
            for v2, i2, o2 in visit(r, visited, frozenset(), i):
                o = dict(ords)
                o.update(o2)
                yield from top([x for x in remaining if x != r], v2, i2, req + [r], o)

    for req, ords in top(list(observed), frozenset(), 0, [], {}):
        return req, ords
    return None


class Run:
    __slots__ = ("case", "sk", "mode", "flags", "variant", "res", "labels", "omega", "model", "corr", "why")


def reconstruct(run):
    """omega (as the nested list the runner decodes) from the observable parts of one run, or None"""
    sk, lab = run.sk, run.labels
    zod = run.mode == "zod"
    if any(lab.get(f) is None for f in lab):
        return None, "a generated file does not parse"
    cw = [l[1] for l in lab.get("commands.ts", []) if l[0] == "wrapper"]
    le = [l[1] for l in lab.get("events.ts", []) if l[0] == "listener"]
    if any(c not in sk.cmd_file for c in cw) or any(e not in sk.ev_file for e in le):
        return None, "unknown command or event name in the output"
    fc = list(dict.fromkeys(sk.cmd_file[c] for c in cw))
    fe = list(dict.fromkeys(sk.ev_file[e] for e in le))
    edges = []
    tl = lab.get("types.ts", [])
    winners = {}
    for n in sk.dup_names():
        for l in tl:
            nm = l[1][:-6] if (l[0] == "const" and l[1].endswith("Schema")) else l[1]
            if l[0] in ("interface", "const") and nm == n and l[2] is not None:
                for rel, body in sk.defs[n]:
                    if marker_of(sk.bodies[body][1]) == l[2]:
                        winners[n] = rel
        if n in winners:
            edges += [(rel, winners[n]) for rel, _ in sk.defs[n] if rel != winners[n]]
    order = topo_merge(sk.paths, [fc, fe], edges)
    if order is None:
        return None, "command order, event order and emitted definitions are not explained by one file order"
    w_files = [sk.pid[p] for p in order]
    pos = {p: i for i, p in enumerate(order)}
    windef = {}
    for n, ds in sk.defs.items():
        rel, body = max(ds, key=lambda d: pos[d[0]])
        windef[n] = sk.bodies[body][1]
    graph = {n: list(dict.fromkeys(m for f in it.get("fields", []) for m in G.custom_names(f["ty"]))) if it["kind"] == "struct" else []
             for n, it in windef.items()}
    w_used, w_req, w_deps, w_res, w_dmap = [], [], [], [], []
    fixed = {}
    if "--visualize-deps" in run.flags and run.res["files"].get(VIZ[0]) is not None:
        v = parse_viz(run.res["files"][VIZ[0]], run.res["files"].get(VIZ[1], ""))
        if all(t[0] in sk.tid for t in v["types"]) and all(d in sk.tid for t in v["types"] for d in t[1]):
            w_res = [sk.tid[t[0]] for t in v["types"]]
            fixed = {t[0]: t[1] for t in v["types"]}
            w_dmap = [sk.tid[a] for a in dict.fromkeys(a for a, _ in v["edges"]) if a in sk.tid]
    if not zod:
        w_used = [sk.tid[l[1]] for l in tl if l[0] in ("interface", "type") and l[1] in sk.tid]
        w_deps = [[sk.tid[n], [sk.tid[d] for d in ds]] for n, ds in fixed.items()]
    else:
        obs = [l[1][:-6] for l in tl if l[0] == "const" and l[1].endswith("Schema") and l[1][:-6] in sk.tid]
        ex = explain_topo(graph, obs, fixed)
        if ex is None:
            return None, "no request/dependency order explains the schema order %s" % obs
        req, ords = ex
        w_req = [sk.tid[r] for r in req]
        ords = dict(ords)
        ords.update({n: ds for n, ds in fixed.items()})
        w_deps = [[sk.tid[n], [sk.tid[d] for d in ds if d in sk.tid]] for n, ds in ords.items() if n in sk.tid]
    return [w_files, w_used, w_req, w_deps, w_res, w_dmap], None


# ----------------------------------------------------------------------------- evaluation of run groups

def batch_labels(texts):
    texts = list(texts)
    res = vlib.run_runner("c13-labels", [sx(t) for t in texts])
    return dict(zip(texts, res))


def batch_rel(pairs):
    pairs = list(pairs)
    res = vlib.run_runner("c13-rel", [sx([a, b]) for a, b in pairs])
    return dict(zip(pairs, res))


def class_flags(sks):
    res = vlib.run_runner("c13-classes", [sx(sk.project) for sk in sks])
    keys = ("dupdef", "cmd_files", "ev_files", "param_files", "used2", "zod_unordered", "viz")
    return [dict(zip(keys, [x == "true" for x in r])) for r in res]


def file_class(cl, fname, zod):
    """may the order of declarations in this file depend on the hash order (model's class)?"""
    if fname == "commands.ts":
        return cl["cmd_files"]
    if fname == "events.ts":
        return cl["ev_files"]
    if fname == "types.ts":
        return cl["param_files"] or (cl["zod_unordered"] if zod else cl["used2"])
    if fname == ".typecache":
        return cl["cmd_files"]
    return False


def order_only(cl, fname, zod, relation):
    """None: the relation is not an order-only difference; True/False: it is one, and the model's class
    allows / does not allow it. Token-identical versions of types.ts with different bytes differ in blank
    lines only: every command leaves a line there, also one without a Params declaration, so the layout
    follows the command order."""
    if relation == "same-multiset":
        return file_class(cl, fname, zod)
    if relation == "same-items" and fname == "types.ts":
        return cl["cmd_files"]
    return None


def evaluate(groups, tier):
    """groups: list of dicts {case, shape, mode, runs: [Run], variants: {name: (case, [Run])}}.
    Returns list of (stream, Outcome)."""
    # 1. labels of every distinct generated TypeScript text
    texts = set()
    allruns = []
    for g in groups:
        for r in g["runs"]:
            allruns.append(r)
        for vname, (vcase, vruns) in g["variants"].items():
            allruns.extend(vruns)
    for r in allruns:
        for f in TS:
            if f in r.res["files"]:
                texts.add(r.res["files"][f])
    lab = batch_labels(texts)
    for r in allruns:
        r.labels = {}
        for f in TS:
            if f in r.res["files"]:
                nl = norm_labels(lab[r.res["files"][f]], r.sk)
                r.labels[f] = strip_markers(nl, r.sk) if nl is not None else None
    # 2. model on every run, under the reconstructed omega
    jobs, jruns = [], []
    for r in allruns:
        r.corr, r.why, r.model = True, None, None
        if r.res["status"] != 0 or "commands.ts" not in r.res["files"]:
            r.corr, r.why = False, "run failed or wrote no commands.ts (status %s)" % r.res["status"]
            continue
        om, why = reconstruct(r)
        r.omega = om
        if om is None:
            r.corr, r.why = False, why
            continue
        jobs.append(sx([r.mode == "zod", om, r.sk.project]))
        jruns.append(r)
    outs = vlib.run_runner("c13-gen", jobs)
    vjobs, vruns = [], []
    for r, o in zip(jruns, outs):
        if o and o[0] == "runner-error":
            raise vlib.BuildError("runner: %s" % o)
        exp = expected_labels(o[0], r.sk, r.mode == "zod")
        r.model = exp
        if exp is None:
            r.corr, r.why = False, "model generates nothing"
            continue
        for f in TS:
            if (f in exp) != (f in r.labels):
                r.corr, r.why = False, "file set: %s model=%s impl=%s" % (f, f in exp, f in r.labels)
            elif f in exp and exp[f] != r.labels[f]:
                r.corr, r.why = False, "declaration order of %s: model %s, implementation %s" % (f, exp[f], r.labels[f])
        if "--visualize-deps" in r.flags and VIZ[0] in r.res["files"]:
            vjobs.append(sx([r.omega, r.sk.project]))
            vruns.append(r)
    vouts = vlib.run_runner("c13-viz", vjobs)
    for r, o in zip(vruns, vouts):
        v = parse_viz(r.res["files"][VIZ[0]], r.res["files"].get(VIZ[1], ""))
        sk = r.sk
        m_cmds = [sk.cmds[int(c) - 1] for c in o[0]]
        m_types = [[sk.tys[int(t[0]) - 1], [sk.tys[int(d) - 1] for d in t[1]]] for t in o[1]]
        m_nodes = [sk.tys[int(n) - 1] for n in o[2]]
        m_edges = [(sk.tys[int(e[0]) - 1], sk.tys[int(e[1]) - 1]) for e in o[3]]
        if m_cmds != v["cmds"] or m_cmds != v["dot_cmds"]:
            r.corr, r.why = False, "visualisation: command entry points %s vs model %s" % (v["cmds"], m_cmds)
        elif m_types != v["types"]:
            r.corr, r.why = False, "visualisation: discovered types %s vs model %s" % (v["types"], m_types)
        elif m_nodes != v["nodes"]:
            r.corr, r.why = False, "visualisation: dot nodes %s vs model %s" % (v["nodes"], m_nodes)
        elif m_edges != v["edges"]:
            r.corr, r.why = False, "visualisation: dot edges %s vs model %s" % (v["edges"], m_edges)
        else:
            # edges of one source are contiguous and in the dependency order of that source
            by = {}
            for a, b in v["edges"]:
                by.setdefault(a, []).append(b)
            mt = dict((t[0], t[1]) for t in m_types)
            if any(by[a] != mt.get(a) for a in by):
                r.corr, r.why = False, "visualisation: dot edge order differs from the depends-on order"
    # 3. classes
    sks, owner = [], []
    for g in groups:
        sks.append(g["runs"][0].sk)
        for vname, (vcase, vruns) in g["variants"].items():
            sks.append(vruns[0].sk)
    cls = class_flags(sks)
    k = 0
    for g in groups:
        g["cls"] = cls[k]
        k += 1
        g["vcls"] = {}
        for vname in g["variants"]:
            g["vcls"][vname] = cls[k]
            k += 1
    # 4. relations between distinct versions of a file
    pairs = set()

    def versions(runs, f):
        vs = []
        for r in runs:
            t = r.res["files"].get(f)
            if t not in vs:
                vs.append(t)
        return vs

    for g in groups:
        pool = g["runs"] + [r for vn, (vc, vr) in g["variants"].items() if vn.startswith("noise") for r in vr]
        g["pool"] = pool
        for f in TS:
            vs = versions(pool, f)
            g.setdefault("versions", {})[f] = vs
            for t in vs[1:]:
                if t is not None and vs[0] is not None:
                    pairs.add((vs[0], t))
        for vn, (vc, vr) in g["variants"].items():
            if vn.startswith("noise"):
                continue
            for f in TS:
                vs = versions(vr, f)
                for t in vs[1:]:
                    if t is not None and vs[0] is not None:
                        pairs.add((vs[0], t))
                b = g["versions"][f][0]
                if b is not None and vs[0] is not None and b != vs[0]:
                    pairs.add((b, vs[0]))
    rel = batch_rel(pairs)

    def relation(a, b):
        if a == b:
            return "identical"
        if a is None or b is None:
            return "missing"
        return rel[(a, b)]

    results = []
    for g in groups:
        zod = g["mode"] == "zod"
        cl = g["cls"]
        case_id = {"project": g["case"], "mode": g["mode"], "shape": g["shape"]}
        nontriv = len(g["case"]["files"]) >= 2 or len(g["runs"][0].sk.cmds) >= 2
        # ---- aspect: determinism of the TypeScript files over base + noise runs
        pool = g["pool"]
        fails, kfs, det = [], set(), {}
        bad = [r for r in pool if r.res["status"] != 0]
        if bad:
            fails.append("run exits with status %s: %s" % (bad[0].res["status"], bad[0].res["log"][-300:]))
        for r in pool:
            want = {"types.ts", "commands.ts", "index.ts", ".typecache"} | ({"events.ts"} if r.sk.evs else set())
            if "--visualize-deps" in r.flags:
                want |= set(VIZ)
            have = set(r.res["files"])
            if r.res["status"] == 0 and have != want:
                fails.append("file set with flags %s is %s, expected %s" % (list(r.flags), sorted(have), sorted(want)))
                break
        for f in TS:
            vs = g["versions"][f]
            det[f] = len(vs)
            if len(vs) == 1:
                continue
            rels = [relation(vs[0], t) for t in vs[1:]]
            if all(order_only(cl, f, zod, x) is not None for x in rels):
                if all(order_only(cl, f, zod, x) for x in rels):
                    kfs.add("C13-1")
                else:
                    fails.append("%s: %d versions differing in declaration order / layout (%s) although the model's class says this file is order independent" % (f, len(vs), sorted(set(rels))))
            elif cl["dupdef"] and f == "types.ts" and all(x in ("same-multiset", "different") or order_only(cl, f, zod, x) for x in rels):
                kfs.add("C13-2")
            else:
                which = "among the plain runs" if len(versions(g["runs"], f)) > 1 else "between plain runs and runs on sources with added noise"
                fails.append("%s: %d versions %s, relations %s" % (f, len(vs), which, sorted(set(rels))))
        tc = versions(g["runs"], ".typecache")
        det[".typecache"] = len(tc)
        if len(tc) > 1 and not file_class(cl, ".typecache", zod) and not cl["dupdef"]:
            fails.append(".typecache: %d versions although the command order is fixed" % len(tc))
        corr = all(r.corr for r in pool)
        why = next((r.why for r in pool if not r.corr), None)
        ok = not fails and not kfs
        kf = None
        if not fails and kfs:
            kf = "C13-2" if "C13-2" in kfs else "C13-1"
        detail = {"runs": len(pool), "distinct_versions": det, "classes": cl, "failures": fails[:4], "corr_break": why,
                  "flags": sorted({" ".join(r.flags) for r in pool})}
        results.append(("dupdef" if g["shape"] == "dup" else "determinism",
                        Outcome(dict(case_id, aspect="determinism"), corr, ok, kf, detail, nontriv)))
        # ---- aspect: the two visualisation files
        vr = [r for r in g["runs"] if "--visualize-deps" in r.flags and r.res["status"] == 0]
        if vr:
            fails, kfv = [], False
            for f in VIZ:
                vs = versions(vr, f)
                if None in vs:
                    fails.append("%s missing in a --visualize-deps run" % f)
                elif len(vs) > 1:
                    if len({json.dumps(canon_viz(f, t)) for t in vs}) == 1 and cl["viz"]:
                        kfv = True
                    elif cl["dupdef"]:
                        kfv = True
                    else:
                        fails.append("%s: %d versions not explained by iteration order (class viz=%s)" % (f, len(vs), cl["viz"]))
            nv = [r for r in g["runs"] if "--visualize-deps" not in r.flags]
            if any(set(r.res["files"]) & set(VIZ) for r in nv):
                fails.append("a visualisation file was written without --visualize-deps")
            ok = not fails and not kfv
            results.append(("viz", Outcome(dict(case_id, aspect="viz"), all(r.corr for r in vr), ok,
                                           "C13-3" if (kfv and not fails) else None,
                                           {"runs": len(vr), "failures": fails[:4], "classes": cl,
                                            "distinct_versions": {f: len(versions(vr, f)) for f in VIZ}}, nontriv)))
        # ---- aspect: transformations that may only reorder declarations
        for vn, (vcase, vruns) in g["variants"].items():
            if vn.startswith("noise"):
                continue
            vcl = g["vcls"][vn]
            fails, kfs = [], set()
            bad = [r for r in vruns if r.res["status"] != 0]
            if bad:
                fails.append("run exits with status %s" % bad[0].res["status"])
            for f in TS:
                vs = versions(vruns, f)
                b = g["versions"][f][0]
                x = relation(b, vs[0])
                if x not in ("identical", "same-items", "same-multiset"):
                    if cl["dupdef"] or vcl["dupdef"]:
                        kfs.add("C13-2")
                    else:
                        fails.append("%s after %s: %s (the set or content of declarations changed)" % (f, vn, x))
                if len(vs) > 1:
                    rels = [relation(vs[0], t) for t in vs[1:]]
                    if all(order_only(vcl, f, zod, y) for y in rels):
                        pass        # the variant's own order dependence, inside its class: judged in the determinism stream
                    elif vcl["dupdef"]:
                        kfs.add("C13-2")
                    else:
                        fails.append("%s after %s: %d versions, relations %s" % (f, vn, len(vs), sorted(set(rels))))
            ok = not fails and not kfs
            kf = None
            if not fails and kfs:
                kf = "C13-2" if "C13-2" in kfs else "C13-1"
            results.append(("transform", Outcome(dict(case_id, aspect="transform", variant=vn, transformed=vcase),
                                                 all(r.corr for r in vruns), ok, kf,
                                                 {"failures": fails[:4], "classes": vcl,
                                                  "corr_break": next((r.why for r in vruns if not r.corr), None)}, nontriv)))
    return results


# ----------------------------------------------------------------------------- building the groups

def make_runs(case, mode, flagsets, variant):
    sk = G.Skeleton(case)
    runs = []
    for fl in flagsets:
        r = Run()
        r.case, r.sk, r.mode, r.flags, r.variant = case, sk, mode, tuple(fl), variant
        runs.append(r)
    return runs


def build_group(case, shape, mode, rng, nbase, nnoise, ntrans, transforms=None):
    g = {"case": case, "shape": shape, "mode": mode, "variants": {}}
    g["runs"] = make_runs(case, mode, [FLAGSETS[i % len(FLAGSETS)] for i in range(nbase)], "base")
    for k in range(nnoise):
        vc = G.t_noise(rng, case)
        g["variants"]["noise%d" % k] = (vc, make_runs(vc, mode, [()], "noise%d" % k))
    dup = bool(G.Skeleton(case).dup_names())
    for name in (transforms if transforms is not None else ["reorder", "move", "split", "merge"]):
        if dup and name != "reorder":
            continue
        vc = G.TRANSFORMS[name](rng, case)
        if G.Skeleton(vc).dup_names() and not dup:
            continue
        g["variants"][name] = (vc, make_runs(vc, mode, [()] * ntrans, name))
    return g


def execute(groups):
    jobs, runs = [], []
    for g in groups:
        for r in g["runs"]:
            jobs.append((r.case, r.mode, r.flags))
            runs.append(r)
        for vn, (vc, vr) in g["variants"].items():
            for r in vr:
                jobs.append((r.case, r.mode, r.flags))
                runs.append(r)
    res = vlib.pmap(run_cli, jobs, workers=min(32, 2 * vlib.NCPU))
    for r, x in zip(runs, res):
        r.res = x
    return len(jobs)


# ----------------------------------------------------------------------------- corpus

def load_corpus():
    d = os.path.join(vlib.VERIF, "corpus", "C13")
    out = []
    if os.path.isdir(d):
        for n in sorted(os.listdir(d)):
            if n.endswith(".json"):
                out.append((n, json.load(open(os.path.join(d, n)))))
    return out


def run(rep):
    vlib.build_repo_bin()
    vlib.build_runner("c13")
    rng = random.Random(rep.seed)
    quick = rep.tier == "quick"
    total_runs = 0
    # corpus first: known-finding witnesses in >= 32 fresh processes, regression cases
    groups = []
    for name, c in load_corpus():
        for mode in c.get("modes", ["none", "zod"]):
            groups.append(build_group(c["case"], c.get("shape", "corpus"), mode, random.Random(1), c.get("runs", 32), 1, 2,
                                      transforms=c.get("transforms", [])))
            groups[-1]["corpus"] = name
    total_runs += execute(groups)
    wit = {}
    for (stream, o), g in zip_results(evaluate(groups, rep.tier), groups):
        rep.add("corpus-" + stream, [o])
        if o.kf:
            wit.setdefault(o.kf, []).append({"corpus": g.get("corpus"), "mode": g["mode"], "runs": o.detail.get("runs"),
                                             "distinct_versions": o.detail.get("distinct_versions")})
    rep.extra["known_finding_witness_runs"] = wit
    for kf, l in wit.items():
        vlib.log("witness %s: %s" % (kf, json.dumps(l)))
    # generated projects
    nproj = 150 if quick else 1500
    nbase = 8 if quick else 32
    shapes = {}
    batch = 50
    done = 0
    while done < nproj:
        groups = []
        for _ in range(min(batch, nproj - done)):
            case, shape = G.gen_project(rng)
            shapes[shape] = shapes.get(shape, 0) + 1
            mode = "zod" if (done % 2) else "none"
            if not quick or rng.random() < 0.15:
                modes = ["none", "zod"]
            else:
                modes = [mode]
            for m in modes:
                groups.append(build_group(case, shape, m, rng, nbase, 2 if quick else 4, 2 if quick else 3))
            done += 1
        total_runs += execute(groups)
        for stream, o in evaluate(groups, rep.tier):
            rep.add(stream, [o])
    rep.extra["distribution"] = {"projects": nproj, "shapes": shapes, "cli_runs": total_runs,
                                 "base_runs_per_project_and_mode": nbase}
    inside = sum(st["in_known_class"] for st in rep.streams.values())
    rep.extra["inside_known_class"] = inside
    rep.extra["outside_every_class"] = rep.outcomes - inside


def zip_results(results, groups):
    """pair each result with the group it came from (results are emitted group by group)"""
    out = []
    gi = 0
    key = lambda g: json.dumps([g["case"], g["mode"]], sort_keys=True)
    for stream, o in results:
        while gi < len(groups) and key(groups[gi]) != json.dumps([o.case["project"], o.case["mode"]], sort_keys=True):
            gi += 1
        out.append(((stream, o), groups[min(gi, len(groups) - 1)]))
    return out


def replay(rep, payload):
    vlib.build_repo_bin()
    vlib.build_runner("c13")
    items = payload.get("disagreeing_cases") or [payload]
    for it in items:
        c = it["case"]
        rng = random.Random(rep.seed)
        tr = [c["variant"]] if c.get("variant") in G.TRANSFORMS else ["reorder", "move", "split", "merge"]
        g = build_group(c["project"], c.get("shape", "replay"), c["mode"], rng, 32, 2, 3, transforms=tr)
        if c.get("transformed"):
            vn = c.get("variant", "given")
            g["variants"][vn] = (c["transformed"], make_runs(c["transformed"], c["mode"], [()] * 4, vn))
        execute([g])
        for stream, o in evaluate([g], rep.tier):
            rep.add(stream, [o])
